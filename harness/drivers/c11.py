"""C11 driver: runs the real item machinery (server/items.py, kernel/theory.py, kernel/extension.py, logic/basic.py)
and logs events.  No verdict is computed here: only generation of inputs, running holpy, projection through the codec.

modes
  defs <vectors.ndjson> <out.ndjson>         spec -> code: every candidate definition emitted by spec/C11_Items.tla is printed to
                                              text (repo printer = input generation), offered to items.parse_item in logic_base
                                              (+ an overloadable constant ov :: 'a) and, when accepted, installed on a copy of the theory
  hist <histories.ndjson> <out.ndjson>       spec -> code: every TLC-generated HISTORY of definitions of one name, item by item in one theory
  rand <n> <out.ndjson> <seed>               seeded random larger candidate definitions in theory nat (self-reference, overloaded
                                              names, extra (schematic) variables, polymorphic right-hand sides, odd arguments)
  gen <out.ndjson> <seed>                    generated datatypes (uniform and non-uniform recursion, arity 0-2, constructor types that disagree
                                              with the declared parameters), recursive functions and inductive predicates over them and over
                                              nat / list, statements and rules of every type (boolean or not) as axioms / theorems / introduction
                                              rules, and HISTORIES of items about one name in one growing theory (overloaded instances at equal /
                                              crossing / disjoint types, redefinition after a derived fact, the same instance by different kinds of item)
  library <name,name,..|all> <out.ndjson>    code -> spec: every item of the library files: parse, extension, and the two
                                              round trips  export_json -> parse_item  and  get_display -> parse_edit
                                              (exactly as server/monitor.py check_theory does the latter)
event kinds
  item : what parse_item produced (fields + codec of the PARSED terms), the generated extensions, the declared types of every
         constant / arity of every type constructor that occurs in them (read from the theory after installation); for definitional
         items: what was declared about the name before and the types at which it had been introduced by earlier items (prior_insts)
  rt   : {before, after} structural projections of an item and of its re-parsed export
"""
import copy
import itertools
import json
import os
import random
import sys

from kernel.type import Type, TVar, TFun, BoolType, TConst
from kernel.term import Term, Var, SVar, Const, Comb, Abs, Bound
from kernel import theory, extension
from logic import basic
from server import items
from syntax import printer
from syntax.settings import global_setting

from harness.codec import enc, encT, dec, decT
from harness.core import digest

NONE_T = ["none"]


# ------------------------------------------------------------------------------------------------ structural helpers (raw fields only)
def consts_of(t, acc):
    ty = t.ty
    if ty == Term.CONST:
        acc.add(t.name)
    elif ty == Term.COMB:
        consts_of(t.fun, acc)
        consts_of(t.arg, acc)
    elif ty == Term.ABS:
        consts_of(t.body, acc)


def tcons_of_type(T, acc):
    if T.ty == Type.TCONST:
        acc.add(T.name)
        for a in T.args:
            tcons_of_type(a, acc)


def tcons_of(t, acc):
    ty = t.ty
    if ty in (Term.SVAR, Term.VAR, Term.CONST):
        tcons_of_type(t.T, acc)
    elif ty == Term.COMB:
        tcons_of(t.fun, acc)
        tcons_of(t.arg, acc)
    elif ty == Term.ABS:
        tcons_of_type(t.var_T, acc)
        tcons_of(t.body, acc)


def err_name(e):
    return "" if e is None else type(e).__name__


def is_term(x):
    return isinstance(x, Term)


def is_type(x):
    return isinstance(x, Type)


def raw(x):
    """Unparsed text (an item with an error keeps its input): never has the shape of a codec value."""
    return ["raw", x if isinstance(x, str) else json.dumps(x, ensure_ascii=False, sort_keys=True), "", ""]


def pT(x):
    return encT(x) if is_type(x) else raw(x)


def pt(x):
    return enc(x) if is_term(x) else raw(x)


def project(item):
    """Structural projection of an item: its fields, terms and types through the codec (nameless: equality up to alpha)."""
    ty = item.ty
    p = {"ty": ty, "name": str(getattr(item, "name", "")), "error": err_name(item.error)}
    if ty == "def.ax":
        p.update(type=pT(item.type), overloaded=bool(item.overloaded), cname=str(item.cname))
    elif ty in ("thm.ax", "thm"):
        vs = item.vars if isinstance(item.vars, dict) else {}
        p.update(vars=[[k, pT(v)] for k, v in sorted(vs.items())], prop=pt(item.prop), attributes=[str(a) for a in item.attributes])
        if ty == "thm":
            p.update(steps=digest(item.steps), proof=digest(item.proof), num_gaps=digest(item.num_gaps))
    elif ty == "def":
        p.update(type=pT(item.type), prop=pt(item.prop), cname=str(item.cname), attributes=[str(a) for a in item.attributes])
    elif ty == "def.ind":
        p.update(type=pT(item.type), cname=str(item.cname), rules=[{"prop": pt(r["prop"])} for r in item.rules])
    elif ty == "def.pred":
        p.update(type=pT(item.type), cname=str(item.cname), rules=[{"name": str(r["name"]), "prop": pt(r["prop"])} for r in item.rules])
    elif ty == "type.ax":
        p.update(args=[str(a) for a in item.args])
    elif ty == "type.ind":
        p.update(args=[str(a) for a in item.args],
                 constrs=[{"name": str(c["name"]), "args": [str(a) for a in c["args"]], "type": pT(c["type"]), "cname": str(c.get("cname", ""))}
                          for c in item.constrs])
    elif ty == "header":
        p.update(depth=str(item.depth))
    return p


# ------------------------------------------------------------------------------------------------ events
class Log:
    def __init__(self, path):
        self.f = open(path, "w")
        self.tid = 0
        self.n = {}

    def write(self, ev):
        self.tid += 1
        ev["tid"] = self.tid
        self.n[ev["kind"]] = self.n.get(ev["kind"], 0) + 1
        self.f.write(json.dumps(ev, separators=(",", ":"), ensure_ascii=False) + "\n")

    def close(self):
        self.f.close()


def declared_before(thy, name):
    sig = thy.get_data("term_sig")
    if name in sig:
        return {"known": True, "T": encT(sig[name]), "ov": bool(name in thy.get_data("overload"))}
    return {"known": False, "T": NONE_T, "ov": False}


class Insts:
    """Book-keeping (no verdict): the types at which constants have been introduced by the items installed so far in a theory
    (Constant extensions; the generic declaration of an overloadable constant is not an instance)."""
    def __init__(self, other=None):
        self.d = {k: list(v) for k, v in other.d.items()} if other is not None else {}

    def add_item(self, item, exts):
        generic = any(e.is_overload() for e in exts)
        for e in exts:
            if e.is_constant() and not generic:
                self.d.setdefault(e.name, []).append(encT(e.T))

    def of(self, name):
        return list(self.d.get(name, []))


DEFINITIONAL = ("def", "def.ind", "def.pred")


def item_event(src, key, item, thy_before, cand=None, text=None, insts=None):
    """Describe a parsed item and, when it has no error, its extensions installed on a COPY of thy_before.
    insts: the Insts of thy_before (updated when the item is installed).
    Returns (event, theory after installation or None)."""
    ev = {"kind": "item", "src": src, "key": key, "ty": item.ty, "name": str(getattr(item, "name", "")),
          "error": err_name(item.error), "installed": False, "install_error": "", "isdef": False, "isdefn": False,
          "ext_consts": [], "ext_thms": [], "ext_types": [], "csig": [], "tsig": []}
    if cand is not None:
        ev["cand"] = cand
    if text is not None:
        ev["text"] = text
    if item.error is not None:
        ev["error_str"] = str(item.error)[:200]
        return ev, None
    if item.ty == "def":
        ev["isdef"] = True
        ev["parsed"] = {"name": str(item.name), "T": encT(item.type), "prop": enc(item.prop)}
    if item.ty in DEFINITIONAL:
        # an item that introduces a constant by definition: what was known about the name before
        ev["isdefn"] = True
        ev["newconst"] = {"name": str(item.name), "T": encT(item.type)}
        ev["declared_before"] = declared_before(thy_before, item.name)
        ev["prior_insts"] = insts.of(item.name) if insts is not None else []
    try:
        exts = item.get_extension()
    except Exception as e:          # get_extension must work on an item without error
        ev["install_error"] = "get_extension:" + type(e).__name__
        return ev, None
    cnames, tnames = set(), set()
    for ext in exts:
        if ext.is_constant():
            ev["ext_consts"].append([ext.name, encT(ext.T)])
            cnames.add(ext.name)
            tcons_of_type(ext.T, tnames)
        elif ext.is_theorem():
            ev["ext_thms"].append({"name": ext.name, "h": [enc(h) for h in ext.th.hyps], "c": enc(ext.th.prop)})
            for t in list(ext.th.hyps) + [ext.th.prop]:
                consts_of(t, cnames)
                tcons_of(t, tnames)
        elif ext.is_tconst():
            ev["ext_types"].append([ext.name, ext.arity])
            tnames.add(ext.name)
    thy2 = copy.copy(thy_before)
    try:
        thy2.unchecked_extend(exts)
        ev["installed"] = True
    except Exception as e:
        ev["install_error"] = type(e).__name__
        return ev, None
    if insts is not None:
        insts.add_item(item, exts)
    csig, tsig = thy2.get_data("term_sig"), thy2.get_data("type_sig")
    ev["csig"] = [[n, encT(csig[n])] for n in sorted(cnames) if n in csig]
    ev["tsig"] = [[n, int(tsig[n])] for n in sorted(tnames) if n in tsig]
    return ev, thy2


def parse_in(thy, data):
    """items.parse_item with theory.thy = thy (a copy: Datatype.parse writes to the theory while parsing)."""
    theory.thy = thy
    return items.parse_item(copy.deepcopy(data))


# ------------------------------------------------------------------------------------------------ mode defs
def base_theory():
    basic.load_theory('logic_base')
    for data in ({'ty': 'def.ax', 'name': 'ov', 'type': "'a", 'overloaded': True},
                 {'ty': 'def.ax', 'name': 'ov2', 'type': "'a => 'b => bool", 'overloaded': True}):
        it = items.parse_item(data)
        assert it.error is None
        theory.thy.unchecked_extend(it.get_extension())
    return theory.thy


def mk_app(f, args):
    for a in args:
        f = ["comb", f, a]
    return f


def print_candidate(base, name, Tj, propj):
    """Text of a candidate: the repo printer, in a copy of the theory where the new constant is declared (when the candidate uses
    the name at a type that is not an instance of its own type: declared as an overloadable constant of type 'a, so that
    the printer annotates the occurrences)."""
    Tt = decT(Tj)
    for generic in (False, True):
        thy2 = copy.copy(base)
        if not thy2.has_term_sig(name):
            thy2.add_term_sig(name, TVar("a") if generic else Tt)
            if generic:
                thy2.add_overload_const(name)
        theory.thy = thy2
        try:
            with global_setting(unicode=False, line_length=None, highlight=False):
                return printer.print_type(Tt), printer.print_term(dec(propj))
        except Exception:
            if generic:
                raise
        finally:
            theory.thy = base


def eq_prop(lhsj, rhsj):
    T = encT(dec(lhsj).get_type())
    return mk_app(["const", "equals", ["tc", "fun", [T, ["tc", "fun", [T, ["tc", "bool", []]]]]]], [lhsj, rhsj])


def offer_def(log, src, base, name, Tj, argsj, rhsj, extra=None, insts=None, keypfx=None):
    """Offer one candidate definition to the theory `base`; returns the theory after installation (or None)."""
    lhsj = mk_app(["const", name, Tj], argsj)
    cand = {"name": name, "T": Tj, "args": argsj, "rhs": rhsj}
    if extra:
        cand.update(extra)
    try:
        propj = eq_prop(lhsj, rhsj)
        ts, s = print_candidate(base, name, Tj, propj)
    except Exception as e:      # the candidate cannot be printed (input generation failed): logged, not examined
        log.write({"kind": "skip", "src": src, "key": "%s:%s" % (keypfx or src, digest(cand)), "cand": cand, "why": type(e).__name__})
        return None
    data = {'ty': 'def', 'name': name, 'type': ts, 'prop': s}
    item = parse_in(copy.copy(base), data)
    theory.thy = base
    ev, thy2 = item_event(src, "%s:%s :: %s | %s" % (keypfx or src, name, ts, s), item, base, cand=cand, text=[ts, s], insts=insts)
    ev["intended"] = bool(item.error is None and enc(item.prop) == propj and encT(item.type) == Tj)
    log.write(ev)
    return thy2


# the hand-written items of DESIGN.md A.5 / B.11, offered verbatim (their shapes are all in the TLC universe as well)
NAMED = [
    {'ty': 'def', 'name': 'cbad', 'type': 'bool', 'prop': 'cbad <--> ~cbad'},
    {'ty': 'def', 'name': 'cpoly', 'type': 'bool', 'prop': "cpoly <--> (!x::'a. !y::'a. x = y)"},
    {'ty': 'def', 'name': 'cnv', 'type': 'bool => bool', 'prop': 'cnv true <--> false'},
    {'ty': 'def', 'name': 'cfree', 'type': 'bool', 'prop': 'cfree <--> y'},
    {'ty': 'def', 'name': 'crep', 'type': 'bool => bool => bool', 'prop': 'crep x x <--> x'},
    {'ty': 'def', 'name': 'cid', 'type': "'a => 'a", 'prop': 'cid x = x'},
    {'ty': 'def', 'name': 'csvar', 'type': 'bool', 'prop': 'csvar <--> ?z'},
    {'ty': 'def', 'name': 'cstv', 'type': 'bool', 'prop': "cstv <--> (!x::?'a. !y. x = y)"},
    {'ty': 'def', 'name': 'cinst', 'type': 'bool => bool', 'prop': 'cinst x <--> (cinst::bool)'},
]


def mode_defs(vec_path, out_path, named=False):
    base = base_theory()
    log = Log(out_path)
    if named:
        for data in NAMED:
            item = parse_in(copy.copy(base), data)
            theory.thy = base
            ev, _ = item_event("named", "named:%s :: %s | %s" % (data['name'], data['type'], data['prop']), item, base,
                               text=[data['type'], data['prop']], insts=Insts())
            log.write(ev)
    for ln in open(vec_path):
        ln = ln.strip()
        if not ln:
            continue
        v = json.loads(ln)
        offer_def(log, "vec", base, v["name"], v["T"], list(v["args"]), v["rhs"],
                  extra={"sok": v["sok"], "cons": v["cons"], "exam": v["exam"], "newname": v["newname"], "wf": v["wf"]}, insts=Insts())
    log.close()
    print("defs events", log.tid, log.n)


# ------------------------------------------------------------------------------------------------ mode hist
def mode_hist(hist_path, out_path):
    """spec -> code: every history emitted by spec/C11_Items.tla (several definitions of one name, offered one after the other to
    the SAME growing theory)."""
    base = base_theory()
    log = Log(out_path)
    for ln in open(hist_path):
        ln = ln.strip()
        if not ln:
            continue
        steps = json.loads(ln)["steps"]
        thy, insts, hid = base, Insts(), digest(steps)
        for k, v in enumerate(steps):
            thy2 = offer_def(log, "hist", thy, v["name"], v["T"], list(v["args"]), v["rhs"], extra={"accept": v["accept"], "step": k, "history": steps},
                             insts=insts, keypfx="hist:%s:%d" % (hid, k))
            if thy2 is not None:
                thy = thy2
        theory.thy = base
    log.close()
    print("hist events", log.tid, log.n)


# ------------------------------------------------------------------------------------------------ mode rand
def mode_rand(n, out_path, seed):
    rnd = random.Random(seed)
    basic.load_metadata()
    base_insts = insts_of_theories(['nat'])
    basic.load_theory('nat')
    base = theory.thy
    log = Log(out_path)
    B = ["tc", "bool", []]
    NAT = ["tc", "nat", []]
    A = ["tv", "a"]
    Bv = ["tv", "b"]

    def F(*ts):
        r = ts[-1]
        for t in reversed(ts[:-1]):
            r = ["tc", "fun", [t, r]]
        return r

    def C(nm, T):
        return ["const", nm, T]
    const_types = [B, NAT, F(NAT, NAT), F(NAT, B), F(A, B), F(A, A), F(NAT, NAT, NAT), F(A, A, B), F(B, B, B), F(A, NAT), F(F(A, B), B)]
    # overloaded names of theory nat and types at which an instance can be offered
    ov_names = {"zero": [B, F(NAT, NAT), NAT, A], "plus": [F(B, B, B), F(NAT, NAT, NAT)], "less": [F(B, B, B)], "one": [B, F(A, A)]}

    def arg_types(T):
        r = []
        while T[0] == "tc" and T[1] == "fun":
            r.append(T[2][0])
            T = T[2][1]
        return r, T

    def gen(T, d, env, atoms):
        """random well-typed term of type T (codec form); env = binder types innermost first"""
        cands = [a for a in atoms if a[2] == T] + [["bound", i] for i, bt in enumerate(env) if bt == T]
        if d <= 0 or rnd.random() < 0.25:
            if cands:
                return rnd.choice(cands)
            if d <= 0:
                if T[0] == "tc" and T[1] == "fun":
                    return ["abs", T[2][0], gen(T[2][1], d - 1, [T[2][0]] + env, atoms)]
                return ["var", "q", T]      # an extra free variable of the needed type
        if T[0] == "tc" and T[1] == "fun" and rnd.random() < 0.7:
            return ["abs", T[2][0], gen(T[2][1], d - 1, [T[2][0]] + env, atoms)]
        # application of a function atom whose final result is T
        fs = []
        for a in atoms:
            ats, r = arg_types(a[2])
            for k in range(1, len(ats) + 1):
                rest = F(*(ats[k:] + [r]))
                if rest == T:
                    fs.append((a, ats[:k]))
        if T == B and rnd.random() < 0.3:
            qT = rnd.choice([NAT, A, Bv, B])
            q = rnd.choice(["all", "exists"])
            return ["comb", C(q, F(F(qT, B), B)), ["abs", qT, gen(B, d - 1, [qT] + env, atoms)]]
        if T == B and rnd.random() < 0.3:
            eT = rnd.choice([NAT, A, B, Bv, F(NAT, NAT)])
            return mk_app(C("equals", F(eT, eT, B)), [gen(eT, d - 1, env, atoms), gen(eT, d - 1, env, atoms)])
        if fs:
            f, ats = rnd.choice(fs)
            return mk_app(f, [gen(t, d - 1, env, atoms) for t in ats])
        if cands:
            return rnd.choice(cands)
        if T[0] == "tc" and T[1] == "fun":
            return ["abs", T[2][0], gen(T[2][1], d - 1, [T[2][0]] + env, atoms)]
        return ["var", "q", T]          # an extra free variable of the needed type
    logic = [C("true", B), C("false", B), C("neg", F(B, B)), C("conj", F(B, B, B)), C("disj", F(B, B, B)), C("implies", F(B, B, B)),
             C("zero", NAT), C("one", NAT), C("Suc", F(NAT, NAT)), C("plus", F(NAT, NAT, NAT)), C("times", F(NAT, NAT, NAT)),
             C("less", F(NAT, NAT, B)), C("less_eq", F(NAT, NAT, B)), C("IF", F(B, NAT, NAT, NAT)), C("IF", F(B, A, A, A))]
    for i in range(n):
        if rnd.random() < 0.3:
            name = rnd.choice(sorted(ov_names))
            T = rnd.choice(ov_names[name])
        else:
            name = rnd.choice(["c", "c", "c", "Suc", "conj"])
            T = rnd.choice(const_types) if name == "c" else (F(NAT, NAT) if name == "Suc" else F(B, B, B))
        ats, r = arg_types(T)
        k = rnd.randint(0, len(ats)) if rnd.random() < 0.3 else len(ats)
        args = []
        for j in range(k):
            u = rnd.random()
            if u < 0.78:
                args.append(["var", "xyzuvw"[j], ats[j]])
            elif u < 0.86 and j > 0 and ats[j] == ats[0]:
                args.append(args[0])
            elif u < 0.93 and ats[j] == NAT:
                args.append(rnd.choice([C("zero", NAT), mk_app(C("Suc", F(NAT, NAT)), [["var", "xyzuvw"[j], NAT]])]))
            elif ats[j] == B:
                args.append(rnd.choice([C("true", B), mk_app(C("neg", F(B, B)), [["var", "xyzuvw"[j], B]])]))
            else:
                args.append(["svar", "xyzuvw"[j], ats[j]])
        restT = F(*(ats[k:] + [r]))
        atoms = list(logic) + [a for a in args if a[0] in ("var", "svar")]
        u = rnd.random()
        if u < 0.45:
            atoms.append(C(name, T))                                   # self-reference
        if u > 0.3 and name in ov_names:
            atoms += [C(name, T2) for T2 in ov_names[name] if T2 != T]   # other instances of the overloaded name
        if rnd.random() < 0.25:
            atoms += [["var", "q", rnd.choice([B, NAT, A])]]
        if rnd.random() < 0.15:
            atoms += [["svar", "s", rnd.choice([B, NAT])]]
        rhs = gen(restT, rnd.randint(1, 4), [], atoms)
        offer_def(log, "rand", base, name, T, args, rhs, extra={"idx": i}, insts=Insts(base_insts))
    log.close()
    print("rand events", log.tid, log.n)


# ------------------------------------------------------------------------------------------------ mode gen
def mode_gen(out_path, seed):
    rnd = random.Random(seed)
    basic.load_metadata()
    base_insts = insts_of_theories(['list'])
    basic.load_theory('list')
    base = theory.thy
    log = Log(out_path)

    def offer(thy, data, tag, insts=None):
        thy_p = copy.copy(thy)          # Datatype.parse declares the type while parsing (monitor.check_theory: old_thy is copied after parsing)
        item = parse_in(thy_p, data)
        ev, thy2 = item_event("gen", "gen:%s:%s" % (tag, digest(data)), item, thy_p, text=[json.dumps(data, sort_keys=True)],
                              insts=insts if insts is not None else Insts(base_insts))
        log.write(ev)
        if item.error is None and thy2 is not None:
            round_trips(log, "gen", item, thy_p, thy2, keybase="gen:%s:%s" % (tag, digest(data)))
        theory.thy = thy
        return thy2
    def family(thy, name, params, Ts, combos, tag, with_defs=True):
        """Offer datatype `name` once per constructor combination (each constructor = (name, argument names, argument types as text)),
        and over each accepted one a recursive function and an inductive predicate (one equation / rule per constructor;
        recursion only through arguments whose type IS the datatype)."""
        for cs in combos:
            cs = [c if len(c) == 4 else c + (Ts,) for c in cs]        # (name, argument names, argument types, result type)
            data = {"ty": "type.ind", "name": name, "args": list(params),
                    "constrs": [{"name": nm, "args": list(an), "type": " => ".join(["(%s)" % t for t in at] + [res])} for nm, an, at, res in cs]}
            cs = [c[:3] for c in cs]
            thy2 = offer(thy, data, tag)
            if thy2 is None or not with_defs:
                continue
            rules = []
            for nm, an, at in cs:
                lhs = "sz (%s)" % " ".join([nm] + an)
                rec = [a for a, t in zip(an, at) if t == Ts]
                rules.append({"prop": "%s = %s" % (lhs, ("Suc (sz %s)" % rec[0]) if rec else rnd.choice(["0", "Suc 0", "1"]))})
            thy3 = offer(thy2, {"ty": "def.ind", "name": "sz", "type": Ts + " => nat", "rules": rules}, "fun")
            prules = []
            for i, (nm, an, at) in enumerate(cs):
                rec = [a for a, t in zip(an, at) if t == Ts]
                concl = "pr (%s)" % " ".join([nm] + an)
                prules.append({"name": "pr_%d" % i, "prop": " --> ".join(["pr " + a for a in rec] + [concl])})
            offer(thy3 if thy3 is not None else thy2, {"ty": "def.pred", "name": "pr", "type": Ts + " => bool", "rules": prules}, "pred")

    # ---- uniform recursion: all combinations of <= 2 constructors, without and with a type parameter
    for param in (False, True):
        Ts = "'a dt" if param else "dt"
        pool = [("K0", [], []), ("K1", ["n"], ["nat"]), ("K2", ["r"], [Ts]), ("K5", ["f"], ["nat => " + Ts])]
        if param:
            pool += [("K3", ["v"], ["'a"]), ("K4", ["v", "r"], ["'a", Ts]), ("K6", ["g"], ["'a => bool"])]
        family(base, "dt", ["a"] if param else [], Ts, [list(c) for k in (1, 2) for c in itertools.combinations(pool, k)], "datatype")
    # ---- NON-uniform recursion: the datatype occurs in its own constructors at OTHER instances (other type arguments, swapped or
    # identified parameters, closed instances, nested inside fun / list / a pair type / itself); datatypes of arity 0, 1 and 2
    pair = {"ty": "type.ind", "name": "pr2", "args": ["a", "b"], "constrs": [{"name": "MkP", "args": ["p1", "p2"], "type": "'a => 'b => ('a, 'b) pr2"}]}
    base2 = offer(base, pair, "datatype") or base
    N0, NA, NU = ("N0", [], []), ("NA", ["v"], ["'a"]), ("NU", ["r"], ["'a nu"])
    nonuni1 = [("NL", ["r"], ["'a list nu"]), ("NN", ["r"], ["nat nu"]), ("NX", ["v", "r"], ["'a", "'a list nu"]),
               ("NF", ["f"], ["nat => 'a list nu"]), ("NLL", ["l"], ["'a list nu list"]), ("NP", ["p"], ["('a nu, nat nu) pr2"]),
               ("NB", ["r", "q"], ["'a nu", "('a => 'a) nu"]), ("NS", ["r"], ["'a nu nu"])]
    combos1 = [[c] for c in nonuni1] + [[N0, c] for c in nonuni1] + [[NU, c] for c in nonuni1[:4]] + [[NA, nonuni1[0]], [nonuni1[0], nonuni1[1]]]
    D0, DA, DB, DS = ("D0", [], []), ("DA", ["v"], ["'a"]), ("DB", ["w"], ["'b"]), ("DS", ["r"], ["('a, 'b) d2"])
    nonuni2 = [("DD", ["r"], ["('a, 'a) d2"]), ("DW", ["r"], ["('b, 'a) d2"]), ("DM", ["r"], ["(nat, 'a list) d2"]),
               ("DX", ["v", "r"], ["'a", "('b, 'a) d2"]), ("DQ", ["r"], ["('a, ('a, 'b) d2) d2"]), ("DL", ["l"], ["('b, 'b) d2 list"])]
    combos2 = [[c] for c in nonuni2] + [[D0, c] for c in nonuni2] + [[DS, c] for c in nonuni2[:3]] + [[DA, DB], [DA, nonuni2[1]]]
    # seeded: a few larger mixtures (3 constructors)
    for _ in range(3):
        combos1.append(rnd.sample([N0, NA, NU] + nonuni1, 3))
        combos2.append(rnd.sample([D0, DA, DB, DS] + nonuni2, 3))
    family(base2, "nu", ["a"], "'a nu", combos1, "datatype_nu")
    family(base2, "d2", ["a", "b"], "('a, 'b) d2", combos2, "datatype_nu")
    # a monomorphic datatype through a polymorphic one, and wrong arities of the datatype inside its own constructors (refused)
    family(base2, "m0", [], "m0", [[("M0", [], []), ("ML", ["l"], ["m0 list"])], [("MP", ["p"], ["(m0, nat) pr2"])]], "datatype_nu")
    family(base2, "nu", ["a"], "'a nu", [[N0, ("NW", ["r"], ["nu"])], [N0, ("NW2", ["r"], ["('a, 'a) nu"])]], "datatype_nu", with_defs=False)
    # ---- constructor types whose type variables / result type do NOT agree with the declared parameters of the datatype
    mm1 = [[("Ml", [], [], "'b lst"), ("Mc", ["x", "xs"], ["'b", "'b lst"], "'b lst")],          # consistently another name
           [("Ml", [], []), ("Mc", ["x", "xs"], ["'a", "'b lst"], "'a lst")],                      # recursive argument at another variable
           [("Ml", [], []), ("Mc", ["x", "xs"], ["'a", "'a lst"], "'b lst")],                      # result at another variable
           [("Ml", [], [], "nat lst"), ("Mc", ["x", "xs"], ["nat", "nat lst"], "nat lst")],        # result at a ground instance
           [("Ml", [], []), ("Me", ["y"], ["'c"])],                                                # extra variable in an argument only
           [("Ml", [], [], "lst")], [("Ml", [], [], "nat")], [("Ml", [], [], "'a list")]]          # wrong arity / another type altogether
    family(base2, "lst", ["a"], "'a lst", mm1, "datatype_mm", with_defs=False)
    mm2 = [[("P0", [], [], "('b, 'a) pq")], [("P0", [], []), ("P1", ["r"], ["('a, 'b) pq"], "('b, 'a) pq")],
           [("P0", [], [], "('a, 'a) pq")], [("P1", ["v", "w"], ["'b", "'a"])], [("P1", ["v"], ["'a"], "('a, nat) pq")]]
    family(base2, "pq", ["a", "b"], "('a, 'b) pq", mm2, "datatype_mm", with_defs=False)
    family(base2, "mz", [], "mz", [[("Z0", [], [], "'a mz")], [("Z0", ["v"], ["'a"])]], "datatype_mm", with_defs=False)
    # ---- statements of every type as axioms / theorems; rules of inductive predicates with conclusions / premises of every type
    stmts = [("x + 1", {"x": "nat"}), ("x", {"x": "nat"}), ("f", {"f": "nat => bool"}), ("f x", {"f": "nat => bool", "x": "nat"}),
             ("x = x", {"x": "nat"}), ("Suc", {}), ("xs", {"xs": "'a list"}), ("%x::nat. x = x", {}), ("P", {"P": "bool"}),
             ("length xs", {"xs": "'a list"}), ("P --> Q", {"P": "bool", "Q": "bool"}), ("(=) x", {"x": "nat"}), ("x # xs", {"x": "nat", "xs": "nat list"}),
             ("!x::nat. x = x", {}), ("(!) ", {}), ("true", {}), ("0::nat", {})]
    for k, (txt, vs) in enumerate(stmts):
        offer(base, {"ty": "thm.ax", "name": "gax_%d" % k, "vars": dict(vs), "prop": txt}, "stmt")
        offer(base, {"ty": "thm", "name": "gth_%d" % k, "vars": dict(vs), "prop": txt}, "stmt")
    prules = [("nat => nat => bool", ["pp 0"]), ("nat => nat => bool", ["pp 0 0", "pp m n --> pp (Suc m)"]), ("nat => nat => bool", ["pp m n --> pp (Suc m) n"]),
              ("nat => nat", ["pp 0"]), ("nat", ["pp"]), ("nat => bool", ["Suc n --> pp n"]), ("nat => bool", ["pp n --> pp"]),
              ("(nat => bool) => bool", ["pp f"]), ("nat => bool", ["pp 0", "pp n --> pp (Suc n)"]), ("'a => 'a list => bool", ["pp x"]),
              ("nat => bool", ["(!m. pp m) --> pp 0"]), ("nat => nat => bool", ["(pp 0 --> pp 0 0) --> pp 1 1"])]
    for T, rules in prules:
        offer(base, {"ty": "def.pred", "name": "pp", "type": T, "rules": [{"name": "pp_%d" % i, "prop": r} for i, r in enumerate(rules)]}, "rule")
    frules = [("nat => nat", ["ff 0"]), ("nat => nat => nat", ["ff 0 = 0"]), ("nat => nat => nat", ["ff 0 = (%n. n)"]), ("nat => bool", ["ff 0 <--> ff"])]
    for T, rules in frules:
        offer(base, {"ty": "def.ind", "name": "ff", "type": T, "rules": [{"prop": r} for r in rules]}, "rule")
    # ---- histories: several items about ONE name in one growing theory
    def history(items_, tag):
        thy, insts = base, Insts(base_insts)
        hid = digest(items_)
        for k, data in enumerate(items_):
            thy2 = offer(thy, data, "%s:%s:%d" % (tag, hid, k), insts=insts)
            if thy2 is not None:
                thy = thy2
    kk = {"ty": "def.ax", "name": "kk", "type": "'a => 'b => bool", "overloaded": True}
    ktypes = ["'b list => nat list => bool", "nat list => 'b list => bool", "nat list => nat list => bool", "nat => 'b list => bool",
              "'b list => 'c list => bool", "bool list => nat list => bool"]
    for i, T1 in enumerate(ktypes):
        for j, T2 in enumerate(ktypes):
            history([kk, {"ty": "def", "name": "kk", "type": T1, "prop": "kk xs ys <--> true"},
                     {"ty": "def", "name": "kk", "type": T2, "prop": "kk xs ys <--> false"}], "hist_kk")
    # a definition, a fact derived from it, then the same name defined again (same type / another type / other kinds of item)
    second = [{"ty": "def", "name": "cflag", "type": "bool", "prop": "cflag <--> false"},
              {"ty": "def", "name": "cflag", "type": "nat => bool", "prop": "cflag n <--> false"},
              {"ty": "def.ax", "name": "cflag", "type": "bool"},
              {"ty": "def.ind", "name": "cflag", "type": "bool", "rules": [{"prop": "cflag <--> false"}]},
              {"ty": "def.pred", "name": "cflag", "type": "bool", "rules": [{"name": "cflag_i", "prop": "cflag"}]}]
    for snd in second:
        history([{"ty": "def", "name": "cflag", "type": "bool", "prop": "cflag <--> true"},
                 {"ty": "thm.ax", "name": "cflag_holds", "vars": {}, "prop": "cflag"}, snd], "hist_redef")
    # the same instance of an overloaded name introduced by different kinds of item
    kinst = [{"ty": "def", "name": "kk", "type": "nat => nat => bool", "prop": "kk m n <--> true"},
             {"ty": "def.ind", "name": "kk", "type": "nat => nat => bool", "rules": [{"prop": "kk 0 n <--> true"}, {"prop": "kk (Suc m) n <--> kk m n"}]},
             {"ty": "def.pred", "name": "kk", "type": "nat => nat => bool", "rules": [{"name": "kk_i", "prop": "kk (m::nat) (n::nat)"}]},
             {"ty": "def.ax", "name": "kk", "type": "nat => nat => bool"}]
    for a in kinst:
        for b in kinst:
            history([kk, a, b], "hist_kinst")
    # functions / predicates over nat and list, including adversarial shapes
    funs = [
        {"ty": "def.ind", "name": "dbl", "type": "nat => nat", "rules": [{"prop": "dbl 0 = 0"}, {"prop": "dbl (Suc n) = Suc (Suc (dbl n))"}]},
        {"ty": "def.ind", "name": "fpoly", "type": "'a list => nat", "rules": [{"prop": "fpoly ([]::'a list) = 0"}, {"prop": "fpoly (x # xs) = Suc (fpoly xs)"}]},
        {"ty": "def.ind", "name": "fmap", "type": "('a => 'b) => 'a list => 'b list", "rules": [{"prop": "fmap f [] = []"}, {"prop": "fmap f (x # xs) = f x # fmap f xs"}]},
        {"ty": "def.ind", "name": "fextra", "type": "nat => nat", "rules": [{"prop": "fextra 0 = m"}]},
        {"ty": "def.ind", "name": "fhead", "type": "nat => nat", "rules": [{"prop": "Suc 0 = 0"}]},
        {"ty": "def.ind", "name": "fneq", "type": "nat => bool", "rules": [{"prop": "fneq 0"}]},
        {"ty": "def.ind", "name": "fbool", "type": "nat => bool", "rules": [{"prop": "fbool 0 <--> true"}, {"prop": "fbool (Suc n) <--> ~(fbool n)"}]},
        {"ty": "def.ind", "name": "plus", "type": "nat => nat => nat", "rules": [{"prop": "(0::nat) + n = n"}]},
        {"ty": "def.ind", "name": "ftv", "type": "nat => nat", "rules": [{"prop": "ftv n = length ([]::'b list)"}]},
    ]
    preds = [
        {"ty": "def.pred", "name": "ev", "type": "nat => bool", "rules": [{"name": "ev_0", "prop": "ev 0"}, {"name": "ev_SS", "prop": "ev n --> ev (Suc (Suc n))"}]},
        {"ty": "def.pred", "name": "ple", "type": "nat => nat => bool", "rules": [{"name": "ple_refl", "prop": "ple n n"}, {"name": "ple_S", "prop": "ple m n --> ple m (Suc n)"}]},
        {"ty": "def.pred", "name": "pmem", "type": "'a => 'a list => bool", "rules": [{"name": "pmem_hd", "prop": "pmem x (x # xs)"}, {"name": "pmem_tl", "prop": "pmem x xs --> pmem x (y # xs)"}]},
        {"ty": "def.pred", "name": "pbad", "type": "nat => bool", "rules": [{"name": "pbad_1", "prop": "ev2 0"}]},
        {"ty": "def.pred", "name": "pbad2", "type": "nat => bool", "rules": [{"name": "pbad2_1", "prop": "pbad2 n --> true"}]},
        {"ty": "def.pred", "name": "p0", "type": "bool", "rules": [{"name": "p0_1", "prop": "p0"}]},
        {"ty": "def.pred", "name": "pho", "type": "(nat => bool) => nat => bool", "rules": [{"name": "pho_1", "prop": "P n --> pho P n"}, {"name": "pho_2", "prop": "pho P n --> pho P (Suc n)"}]},
    ]
    others = [
        {"ty": "def.ax", "name": "cax", "type": "'a => nat"},
        {"ty": "def.ax", "name": "zero", "type": "bool"},
        {"ty": "def.ax", "name": "cbadty", "type": "nosuch => nat"},
        {"ty": "thm.ax", "name": "ax1", "vars": {"n": "nat"}, "prop": "n + 0 = n"},
        {"ty": "thm.ax", "name": "ax2", "vars": {}, "prop": "m + 0 = m"},
        {"ty": "type.ax", "name": "tax", "args": ["a", "b"]},
        {"ty": "type.ind", "name": "dd", "args": [], "constrs": [{"name": "D0", "args": [], "type": "dd"}, {"name": "D0", "args": ["n"], "type": "nat => dd"}]},
        {"ty": "type.ind", "name": "de", "args": [], "constrs": [{"name": "E0", "args": ["n", "m"], "type": "nat => de"}]},
    ]
    for data in funs + preds + others:
        offer(base, data, data["ty"])
    log.close()
    print("gen events", log.tid, log.n)


# ------------------------------------------------------------------------------------------------ round trips / library
def round_trips(log, src, item, old_thy, new_thy, keybase=None):
    """The two round trips of an accepted item.  Printing happens in the theory AFTER the item's extension (as in
    monitor.check_theory and basic's file rewrite), re-parsing in the theory BEFORE it."""
    before = project(item)
    name = str(getattr(item, "name", ""))
    keybase = keybase or "%s:%s:%s" % (src, item.ty, name)
    # -- export_json -> parse_item
    theory.thy = new_thy
    try:
        j = item.export_json()
        jerr = ""
    except Exception as e:
        j, jerr = None, type(e).__name__
    if j is not None:
        try:
            item_j = parse_in(copy.copy(old_thy), j)
            after = project(item_j)
            try:
                repo_eq = bool(item == item_j)      # the repo's own comparison (informational; it may raise on an item with an error)
            except Exception:
                repo_eq = False
        except Exception as e:
            after, repo_eq, jerr = {"ty": item.ty, "name": name, "error": "raised:" + type(e).__name__}, False, type(e).__name__
    else:
        after, repo_eq = {"ty": item.ty, "name": name, "error": "export raised:" + jerr}, False
    log.write({"kind": "rt", "src": src, "route": "json", "key": keybase + ":json", "ty": item.ty, "name": name,
               "before": before, "after": after, "repo_eq": repo_eq, "raised": jerr})
    # -- get_display -> parse_edit   (server/monitor.py check_theory)
    theory.thy = new_thy
    eerr = ""
    try:
        with global_setting(unicode=True, highlight=False):
            edit_item = item.get_display()
        theory.thy = copy.copy(old_thy)
        item2 = items.parse_edit(edit_item)
        if item.ty == 'thm':
            item2.proof = item.proof
            item2.steps = item.steps
            item2.num_gaps = item.num_gaps
        after = project(item2)
        try:
            repo_eq = bool(item2.error is None and item == item2)
        except Exception:
            repo_eq = False
    except Exception as e:
        eerr = type(e).__name__
        after, repo_eq = {"ty": item.ty, "name": name, "error": "raised:" + eerr}, False
    log.write({"kind": "rt", "src": src, "route": "edit", "key": keybase + ":edit", "ty": item.ty, "name": name,
               "before": before, "after": after, "repo_eq": repo_eq, "raised": eerr})
    theory.thy = new_thy


def library_files():
    d = os.path.join(os.path.dirname(basic.__file__), "..", "library")
    return sorted(f[:-5] for f in os.listdir(d) if f.endswith(".json"))


def warm_up():
    """Import, in a fresh state, the modules that logic/basic.py imports lazily while loading a theory: their import-time
    load_theory calls otherwise make loading depend on the order of earlier loads (that is property C12, not this one)."""
    basic.load_metadata()
    from data import integer    # noqa: F401  (imports data.real; both load theories at import time)
    from data import expr       # noqa: F401
    from imperative import imp  # noqa: F401
    from prover import z3wrapper
    z3wrapper.check_z3 = False


def insts_of_theories(names):
    """Insts of the theories `names` and everything they import (from basic's cache of parsed items)."""
    insts = Insts()
    for dep in basic.get_import_order(list(names)):
        for it in basic.load_theory_cache(dep)['content']:
            if it.error is None:
                insts.add_item(it, it.get_extension())
    return insts


def mode_library(names, out_path):
    warm_up()
    files = library_files() if names == "all" else [n for n in names.split(",") if n]
    log = Log(out_path)
    for filename in files:
        data = basic.load_json_data(filename)
        basic.load_theory(filename, limit='start')
        insts = insts_of_theories(basic.theory_cache['master'][filename]['imports'])
        basic.load_theory(filename, limit='start')
        for idx, raw_item in enumerate(data['content']):
            old_thy = theory.thy
            item = parse_in(old_thy, raw_item)          # as check_theory: parsed in the running theory
            key = "lib:%s:%d:%s:%s" % (filename, idx, raw_item.get('ty'), raw_item.get('name'))
            ev, thy2 = item_event("lib", key, item, old_thy, insts=insts)
            ev["file"] = filename
            log.write(ev)
            if item.error is None and thy2 is not None:
                round_trips(log, "lib", item, old_thy, thy2, keybase=key)
                theory.thy = thy2
            else:
                theory.thy = old_thy
    log.close()
    print("library events", log.tid, log.n, "files", len(files))


if __name__ == "__main__":
    mode = sys.argv[1]
    if mode == "defs":
        mode_defs(sys.argv[2], sys.argv[3], named=len(sys.argv) > 4 and sys.argv[4] == "named")
    elif mode == "hist":
        mode_hist(sys.argv[2], sys.argv[3])
    elif mode == "rand":
        mode_rand(int(sys.argv[2]), sys.argv[3], int(sys.argv[4]) if len(sys.argv) > 4 else 0)
    elif mode == "gen":
        mode_gen(sys.argv[2], int(sys.argv[3]) if len(sys.argv) > 3 else 0)
    elif mode == "library":
        mode_library(sys.argv[2], sys.argv[3])
    elif mode == "files":
        basic.load_metadata()
        print(json.dumps(library_files()))
    else:
        raise SystemExit("unknown mode")
