"""X03 driver: runs histories of type / polynomial operations in the REAL code and logs one event per step (projection only).

usage (cwd = repository, PYTHONPATH = repository:/verif):
  python -m harness.drivers.x03 ty-vectors <tlc log> <out.ndjson> [max]     behaviours printed by spec/X03_Type.tla (<<"X03T", json>>)
  python -m harness.drivers.x03 po-vectors <tlc log> <out.ndjson> [max]     behaviours printed by spec/X03_Poly.tla (<<"X03P", json>>)
  python -m harness.drivers.x03 ty-random  <out.ndjson> <seed> <n> <len>    seeded random histories over a wider alphabet
  python -m harness.drivers.x03 po-random  <out.ndjson> <seed> <n> <len>
  python -m harness.drivers.x03 replay     <event.json> <out.ndjson>        re-execute the history recorded with a failing event

Type workbench (kind "ty"): one current kernel.type.Type `cur`, one TyInst `ti` that match_incr updates in place, one copy.copy of
it `saved`.  Operations: look (every unary observation: strip_type / TFun, get_stvars / get_tvars / get_tsubs, size, == and hash
against a structural copy, syntax.printer.print_type + Type.print_basic as token lists, syntax.parser.parse_type of both and of a
fully bracketed form, convert_stvar and the way back), cmp / cmp3 (==, hash, <=, <, term_ord.fast_compare_typ), match (match_incr
on ti, and match on a fresh instantiation), subst, subst2 (subst twice / subst with the composed instantiation handed in), fresh,
inst, save, conv, wrap.

Polynomial workbench (kind "po"): three registers holding util.poly.Polynomial values over the atoms Var x, y, z :: real.
Operations: load (Polynomial([Monomial(c, factors), ...])), add, sub, mul, neg, scale, pow, rot, look, laws (both sides of every
ring law computed by the code, and the basic results), hash (observed, not judged: the module defines none).

Values are projected through raw fields (harness.codec for types; Polynomial.monomials / Monomial.coeff / Monomial.factors).
No verdict is computed here; every exception of the code under test becomes the outcome of the event.
"""
import copy
import json
import os
import random
import re
import sys
from fractions import Fraction

NOT = ["tc", "!none", []]
LIM = 2 ** 30 - 1
LAW_NAMES = ["add_comm", "add_assoc", "mul_comm", "mul_assoc", "distrib", "add_zero", "mul_one", "mul_zero", "add_neg", "sub_is_add_neg",
             "neg_is_scale", "neg_neg", "pow_zero", "pow_one", "pow_two", "pow_three", "scale_is_mul", "scale_scale", "scale_add"]


def jd(x):
    return json.dumps(x, sort_keys=True, separators=(",", ":"))


def exc_name(e):
    return type(e).__name__


def read_vectors(log_path, tag, limit=0):
    pre = '<<"%s", ' % tag
    vecs = []
    with open(log_path, encoding="utf-8", errors="replace") as f:
        for ln in f:
            if ln.startswith(pre):
                vecs.append(json.loads(json.loads(ln.strip()[len(pre):-2])))
    uniq = {jd(v): v for v in vecs}          # -simulate prints a behaviour once per evaluation of Finish
    vecs = [uniq[k] for k in sorted(uniq)]
    if limit and len(vecs) > limit:
        rnd = random.Random(int(os.environ.get("VERIF_SEED", "0")))
        vecs = rnd.sample(vecs, limit)
    return vecs


class Emitter:
    def __init__(self, path, base=0):
        self.path = path
        self.f = open(path, "w")
        self.tid = base
        self.n = 0
        self.steps = {}      # history id -> [init, operations] (side file <out>.steps.json, for replays; not read by TLC)

    def __call__(self, ev):
        self.tid += 1
        self.n += 1
        ev["tid"] = self.tid
        self.f.write(json.dumps(ev, separators=(",", ":")) + "\n")

    def close(self):
        self.f.close()
        with open(self.path + ".steps.json", "w") as g:
            json.dump(self.steps, g, separators=(",", ":"))


# --------------------------------------------------------------------------------------------------------------------
# types
# --------------------------------------------------------------------------------------------------------------------
TOKEN = re.compile(r"\s*(\?'|'|\(|\)|,|=>|⇒|[A-Za-z_][A-Za-z0-9_]*|.)", re.S)


def tokens(s):
    """lexical projection of a printed type: the token list (an unknown character becomes a token of its own)"""
    if not isinstance(s, str):
        s = "".join(str(x) for x in s)
    out = []
    for m in TOKEN.finditer(s):
        t = m.group(1)
        if t.strip() == "":
            continue
        out.append("=>" if t == "⇒" else t)
    return out


def full_brackets(j):
    """the type written with every compound sub-type bracketed (an input for the parser)"""
    if j[0] == "tv":
        return "'" + j[1]
    if j[0] == "stv":
        return "?'" + j[1]
    args = j[2]
    if not args:
        return j[1]
    if len(args) == 1:
        return "((%s) %s)" % (full_brackets(args[0]), j[1])
    if j[1] == "fun" and len(args) == 2:
        return "((%s) => (%s))" % (full_brackets(args[0]), full_brackets(args[1]))
    return "((%s) %s)" % (", ".join("(%s)" % full_brackets(a) for a in args), j[1])


def arities(j, acc):
    if j[0] == "tc":
        acc.setdefault(j[1], set()).add(len(j[2]))
        for a in j[2]:
            arities(a, acc)
    return acc


class TyBench:
    def __init__(self):
        from kernel import theory
        from kernel.type import TyInst
        import syntax.parser      # noqa: F401  (installs nothing by itself; parse_type is called through the module)
        import syntax.printer     # noqa: F401  (installs the type printer, as every client of the library has it)
        theory.thy = theory.EmptyTheory()
        self.declared = {"bool": {0}, "fun": {2}}
        self.cur = None
        self.ti = TyInst()
        self.saved = TyInst()

    def declare(self, j):
        """the theory the parser checks parsed types against knows the constructors used (one arity per name: the first one seen)"""
        from kernel import theory
        for name, ars in arities(j, {}).items():
            if name not in self.declared:
                n = sorted(ars)[0]
                self.declared[name] = {n}
                try:
                    theory.thy.add_type_sig(name, n)
                except Exception:
                    pass

    def proj(self):
        from harness.codec import encT, encTyInst
        return {"cur": encT(self.cur), "ti": encTyInst(self.ti), "saved": encTyInst(self.saved)}

    def parse(self, s):
        from harness.codec import encT
        from syntax import parser
        try:
            return encT(parser.parse_type(s))
        except BaseException as e:       # noqa
            return ["err", exc_name(e)]

    # ---- observations
    def look(self):
        from harness.codec import encT, decT
        from kernel.type import TFun, TVar, TyInst
        T = self.cur
        j = encT(T)
        self.declare(j)
        o = {}
        try:
            args, rng = T.strip_type()
            o["strip"] = [[encT(a) for a in args], encT(rng)]
            o["refun"] = encT(TFun(*(list(args) + [rng])))
        except Exception as e:
            o["strip"], o["refun"] = [[], NOT], ["err", exc_name(e)]
        for fld, meth in (("stv", "get_stvars"), ("tv", "get_tvars"), ("tsubs", "get_tsubs")):
            try:
                o[fld] = [encT(x) for x in getattr(T, meth)()]
            except Exception as e:
                o[fld] = [["err", exc_name(e)]]
        try:
            o["size"] = int(T.size())
        except Exception:
            o["size"] = -1
        try:
            c = decT(j)
            o["eqcopy"] = bool(T == c) and bool(c == T) and not bool(T != c)
            o["heqcopy"] = hash(T) == hash(c)
        except Exception:
            o["eqcopy"], o["heqcopy"] = False, False
        try:
            from syntax import printer
            s = printer.print_type(T)
            b = T.print_basic()
            o["pout"] = "ok"
            o["ptoks"], o["btoks"] = tokens(s), tokens(b)
            o["back"], o["bback"] = self.parse(s if isinstance(s, str) else "".join(str(x) for x in s)), self.parse(b)
        except Exception as e:
            o["pout"] = exc_name(e)
            o["ptoks"], o["btoks"], o["back"], o["bback"] = [], [], NOT, NOT
        o["fb"] = self.parse(full_brackets(j))
        try:
            r = T.convert_stvar()
            o["conv"] = {"out": "ok", "res": encT(r)}
            try:
                if hasattr(r, "convert_tvar"):
                    back = r.convert_tvar()
                else:
                    back = r.subst(TyInst(dict((n, TVar(n)) for n in tv_names(j))))
                o["convback"] = encT(back)
            except Exception as e:
                o["convback"] = ["err", exc_name(e)]
        except Exception as e:
            o["conv"] = {"out": exc_name(e), "res": NOT}
            o["convback"] = NOT
        return o

    def cmp(self, U):
        from kernel import term_ord
        T = self.cur
        return {"eq": bool(T == U), "eq21": bool(U == T), "heq": hash(T) == hash(U), "le12": bool(T <= U), "le21": bool(U <= T),
                "lt12": bool(T < U), "lt21": bool(U < T), "c12": int(term_ord.fast_compare_typ(T, U)), "c21": int(term_ord.fast_compare_typ(U, T))}

    def cmp3(self, U, V):
        from kernel import term_ord
        T = self.cur
        pairs = [(T, U), (U, V), (T, V), (U, T), (V, U), (V, T)]
        return {"le": [bool(a <= b) for a, b in pairs], "c": [int(term_ord.fast_compare_typ(a, b)) for a, b in pairs]}


def tv_names(j):
    out = []

    def walk(x):
        if x[0] == "tv":
            if x[1] not in out:
                out.append(x[1])
        elif x[0] == "tc":
            for a in x[2]:
                walk(a)
    walk(j)
    return out


CMP_DEFAULT = {"eq": False, "eq21": False, "heq": False, "le12": False, "le21": False, "lt12": False, "lt21": False, "c12": 0, "c21": 0}
CMP3_DEFAULT = {"le": [False] * 6, "c": [0] * 6}


def ty_step(b, op):
    """perform one operation on the bench; returns (outcome, observations)"""
    from harness.codec import encT, decT
    from kernel.type import TyInst, TConst, TFun, STVar
    k = op["k"]
    before = b.proj()

    def obj(j):
        return b.cur if j == before["cur"] else decT(j)
    out, o = "ok", {"none": True}
    try:
        if k == "look":
            o = b.look()
        elif k == "cmp":
            o = dict(CMP_DEFAULT)
            o = b.cmp(decT(op["U"]))            # always another object: equality and hash must not rest on identity
        elif k == "cmp3":
            o = dict(CMP3_DEFAULT)
            o = b.cmp3(decT(op["P"]), decT(op["U"]))
        elif k == "match":
            P, U = obj(op["P"]), obj(op["U"])
            o = {"m": {"out": "ok", "inst": []}, "P": op["P"], "U": op["U"]}
            try:
                from harness.codec import encTyInst
                o["m"]["inst"] = encTyInst(P.match(U))
            except Exception as e:
                o["m"]["out"] = exc_name(e)
            try:
                P.match_incr(U, b.ti)
            except Exception as e:
                out = exc_name(e)
            o["P"], o["U"] = encT(P), encT(U)
        elif k == "subst":
            b.cur = b.cur.subst(b.ti)
        elif k == "subst2":
            o = {"r2": NOT, "r3": NOT}
            o["r2"] = encT(b.cur.subst(b.ti).subst(b.saved))
            o["r3"] = encT(b.cur.subst(TyInst(dict((n, decT(v)) for n, v in op["s"]))))
        elif k == "fresh":
            b.ti = TyInst()
        elif k == "inst":
            b.ti = TyInst(dict((n, decT(v)) for n, v in op["s"]))
        elif k == "save":
            b.saved = copy.copy(b.ti)
        elif k == "conv":
            b.cur = b.cur.convert_stvar()
        elif k == "wrap":
            c = op["c"]
            b.cur = TConst("list", b.cur) if c == "list" else (TFun(b.cur, TConst("nat")) if c == "dom" else TFun(STVar("a"), b.cur))
        else:
            out = "UnknownOperation"
    except Exception as e:
        out = exc_name(e)
    return out, o


def ty_key(op, out):
    k = op["k"]
    if k == "match":
        return "ty:match:%s" % ("ok" if out == "ok" else "refused")
    if k == "wrap":
        return "ty:wrap:%s" % op["c"]
    return "ty:%s" % k


def run_ty_history(init, steps, fam, hid, log, emit):
    from harness.codec import decT
    b = TyBench()
    b.cur = decT(init)
    emit.steps[hid] = {"kind": "ty", "init": init, "steps": steps}
    for i, op in enumerate(steps):
        before = b.proj()
        out, o = ty_step(b, op)
        if log == "last" and i < len(steps) - 1:
            continue
        emit({"kind": "ty", "fam": fam, "hid": hid, "step": i, "lost": False, "op": op, "B": before, "A": b.proj(), "out": out, "o": o,
              "key": ty_key(op, out)})


def ty_vectors(log_path, out_path, limit=0):
    vecs = read_vectors(log_path, "X03T", limit)
    emit = Emitter(out_path)
    for i, v in enumerate(vecs):
        run_ty_history(v["init"], v["steps"], "v", "v%d" % i, v["log"], emit)
    emit.close()
    print(json.dumps({"behaviours": len(vecs), "events": emit.n}))


# ---- seeded random histories over a wider alphabet
VARS = ["a", "b", "c"]
CON0 = ["nat", "bool", "int", "real"]
CON1 = ["list", "set"]
CON2 = ["fun", "prod"]


def rnd_type(rnd, depth, stv=0.35):
    if depth <= 1 or rnd.random() < 0.25:
        x = rnd.random()
        if x < stv:
            return ["stv", rnd.choice(VARS)]
        if x < stv + 0.3:
            return ["tv", rnd.choice(VARS)]
        return ["tc", rnd.choice(CON0), []]
    x = rnd.random()
    if x < 0.3:
        return ["tc", rnd.choice(CON1), [rnd_type(rnd, depth - 1, stv)]]
    return ["tc", rnd.choice(CON2), [rnd_type(rnd, depth - 1, stv), rnd_type(rnd, depth - 1, stv)]]


def jsubst(j, s):
    """input generation only: an instance of a pattern (the code under test is not asked)"""
    if j[0] == "stv":
        return s.get(j[1], j)
    if j[0] == "tv":
        return j
    return ["tc", j[1], [jsubst(a, s) for a in j[2]]]


def perturb(rnd, j):
    if j[0] != "tc" or not j[2] or rnd.random() < 0.3:
        return rnd_type(rnd, 2)
    i = rnd.randrange(len(j[2]))
    return ["tc", j[1], [perturb(rnd, a) if n == i else a for n, a in enumerate(j[2])]]


def ty_random(out_path, seed_, n, length):
    rnd = random.Random(seed_ * 7919 + 3)
    emit = Emitter(out_path, base=10 ** 7)
    for h in range(n):
        init = rnd_type(rnd, rnd.choice([2, 3, 3, 4]))
        steps = []
        b = TyBench()
        from harness.codec import decT
        b.cur = decT(init)
        hid = "r%d" % h
        emit.steps[hid] = {"kind": "ty", "init": init, "steps": steps}
        for i in range(length):
            cur = b.proj()["cur"]
            x = rnd.random()
            if x < 0.30:
                P = cur if rnd.random() < 0.25 else rnd_type(rnd, rnd.choice([2, 3]), stv=0.55)
                y = rnd.random()
                if y < 0.55:
                    s = dict((v, rnd_type(rnd, 2, stv=0.2)) for v in VARS if rnd.random() < 0.8)
                    for kk, vv in b.proj()["ti"]:          # mostly agree with what is already bound
                        if rnd.random() < 0.85:
                            s[kk] = vv
                    U = jsubst(P, s)
                elif y < 0.75:
                    U = perturb(rnd, jsubst(P, dict((v, rnd_type(rnd, 2, stv=0.2)) for v in VARS)))
                elif y < 0.8:
                    # one name at two arities (a name used for nothing else): outside the statement, not judged
                    P, U = ["tc", "kk", [P]], (["tc", "kk", []] if rnd.random() < 0.5 else ["tc", "kk", [U_ for U_ in (rnd_type(rnd, 1), rnd_type(rnd, 1))]])
                else:
                    U = cur if rnd.random() < 0.5 else rnd_type(rnd, 3)
                op = {"k": "match", "P": P, "U": U, "c": "", "s": []}
            elif x < 0.38:
                op = {"k": "subst", "P": NOT, "U": NOT, "c": "", "s": []}
            elif x < 0.46:
                ti, sv = dict(b.proj()["ti"]), b.proj()["saved"]
                sr = [[kk, jsubst(vv, dict(sv))] for kk, vv in b.proj()["ti"]] + [[kk, vv] for kk, vv in sv if kk not in ti]
                op = {"k": "subst2", "P": NOT, "U": NOT, "c": "", "s": sr}
            elif x < 0.50:
                op = {"k": "fresh", "P": NOT, "U": NOT, "c": "", "s": []}
            elif x < 0.58:
                s = [[v, rnd_type(rnd, rnd.choice([1, 2, 3]))] for v in VARS if rnd.random() < 0.6]
                op = {"k": "inst", "P": NOT, "U": NOT, "c": "", "s": s}
            elif x < 0.64:
                op = {"k": "save", "P": NOT, "U": NOT, "c": "", "s": []}
            elif x < 0.69:
                op = {"k": "conv", "P": NOT, "U": NOT, "c": "", "s": []}
            elif x < 0.75:
                op = {"k": "wrap", "P": NOT, "U": NOT, "c": rnd.choice(["list", "dom", "rng"]), "s": []}
            elif x < 0.85:
                U = cur if rnd.random() < 0.15 else (perturb(rnd, cur) if rnd.random() < 0.5 else rnd_type(rnd, 3))
                op = {"k": "cmp", "P": NOT, "U": U, "c": "", "s": []}
            elif x < 0.92:
                op = {"k": "cmp3", "P": perturb(rnd, cur), "U": rnd_type(rnd, 3), "c": "", "s": []}
            else:
                op = {"k": "look", "P": NOT, "U": NOT, "c": "", "s": []}
            if op["k"] == "wrap" and len(jd(cur)) > 600:
                op = {"k": "look", "P": NOT, "U": NOT, "c": "", "s": []}
            steps.append(op)
            before = b.proj()
            out, o = ty_step(b, op)
            emit({"kind": "ty", "fam": "r", "hid": hid, "step": i, "lost": False, "op": op, "B": before, "A": b.proj(), "out": out, "o": o,
                  "key": ty_key(op, out)})
    emit.close()
    print(json.dumps({"histories": n, "events": emit.n}))


# --------------------------------------------------------------------------------------------------------------------
# polynomials
# --------------------------------------------------------------------------------------------------------------------
class Big(Exception):
    pass


def ratio(x):
    if isinstance(x, bool) or not isinstance(x, (int, Fraction)):
        raise TypeError("not a rational: %r" % (x,))
    f = Fraction(x)
    if abs(f.numerator) > LIM or f.denominator > LIM:
        raise Big()
    return [f.numerator, f.denominator]


def num(r):
    return r[0] if r[1] == 1 else Fraction(r[0], r[1])


class PoBench:
    def __init__(self):
        from kernel.term import Var
        from kernel.type import TConst
        real = TConst("real")
        self.atoms = dict((n, Var(n, real)) for n in ("x", "y", "z"))
        self.p = self.build([])
        self.q = self.build([])
        self.r = self.build([])

    def build(self, seq):
        from util import poly
        return poly.Polynomial([poly.Monomial(num(c), tuple((self.atoms[a], num(pw)) for a, pw in fs)) for c, fs in seq])

    def pj(self, v):
        out = []
        for m in v.monomials:
            out.append([ratio(m.coeff), [[getattr(b, "name", "?"), ratio(pw)] for b, pw in m.factors]])
        return out

    def proj(self):
        return {"p": self.pj(self.p), "q": self.pj(self.q), "r": self.pj(self.r)}

    def pred(self):
        p = self.p
        if not all(hasattr(p, m) for m in ("is_zero_constant", "is_nonzero_constant", "is_constant", "get_constant")):
            return None          # not observable: the clause about the predicates is not judged
        o = {"izc": bool(p.is_zero_constant()), "inzc": bool(p.is_nonzero_constant()), "ic": bool(p.is_constant())}
        try:
            o["gc"] = {"out": "ok", "val": ratio(p.get_constant())}
        except Big:
            raise
        except Exception as e:
            o["gc"] = {"out": exc_name(e), "val": [0, 1]}
        return o

    def eqs(self):
        p, q, r = self.p, self.q, self.r
        return {"pq": bool(p == q), "qp": bool(q == p), "pr": bool(p == r), "qr": bool(q == r), "pp": bool(p == copy.copy(p)) and bool(p == p)}

    def laws(self, c):
        from util import poly
        p, q, r = self.p, self.q, self.r
        zero, one = poly.constant(0), poly.constant(1)
        sides = {
            "add_comm": (lambda: p + q, lambda: q + p),
            "add_assoc": (lambda: (p + q) + r, lambda: p + (q + r)),
            "mul_comm": (lambda: p * q, lambda: q * p),
            "mul_assoc": (lambda: (p * q) * r, lambda: p * (q * r)),
            "distrib": (lambda: p * (q + r), lambda: p * q + p * r),
            "add_zero": (lambda: p + zero, lambda: p),
            "mul_one": (lambda: p * one, lambda: p),
            "mul_zero": (lambda: p * zero, lambda: zero),
            "add_neg": (lambda: p + (-p), lambda: zero),
            "sub_is_add_neg": (lambda: p - q, lambda: p + (-q)),
            "neg_is_scale": (lambda: -p, lambda: p.scale(-1)),
            "neg_neg": (lambda: -(-p), lambda: p),
            "pow_zero": (lambda: p ** 0, lambda: one),
            "pow_one": (lambda: p ** 1, lambda: p),
            "pow_two": (lambda: p ** 2, lambda: p * p),
            "pow_three": (lambda: p ** 3, lambda: p * (p * p)),
            "scale_is_mul": (lambda: p.scale(c), lambda: poly.constant(c) * p),
            "scale_scale": (lambda: p.scale(c).scale(c), lambda: p.scale(c * c)),
            "scale_add": (lambda: (p + q).scale(c), lambda: p.scale(c) + q.scale(c)),
        }
        out = []
        for nm in LAW_NAMES:
            lf, rf = sides[nm]
            lhs, rhs = lf(), rf()
            out.append({"nm": nm, "lhs": self.pj(lhs), "rhs": self.pj(rhs), "eq": bool(lhs == rhs) and bool(rhs == lhs)})
        basic = {"add": self.pj(p + q), "sub": self.pj(p - q), "mul": self.pj(p * q), "neg": self.pj(-p), "scale": self.pj(p.scale(c)),
                 "pow2": self.pj(p ** 2), "mulr": self.pj(q * r)}
        return out, basic


def po_step(b, op):
    k = op["k"]
    out, extra = "ok", {}
    try:
        if k == "load":
            b.q = b.build(op["g"])
        elif k == "add":
            b.p = b.p + b.q
        elif k == "sub":
            b.p = b.p - b.q
        elif k == "mul":
            b.p = b.p * b.q
        elif k == "neg":
            b.p = -b.p
        elif k == "scale":
            b.p = b.p.scale(num(op["c"]))
        elif k == "pow":
            b.p = b.p ** op["n"]
        elif k == "rot":
            b.p, b.q, b.r = b.q, b.r, b.p
        elif k == "laws":
            extra["laws"], extra["basic"] = b.laws(num(op["c"]))
        elif k == "hash":
            extra["hout"], extra["heq"] = "ok", {"pq": False, "qp": False, "pr": False, "qr": False, "pp": False}
            try:
                hp, hq, hr = hash(b.p), hash(b.q), hash(b.r)
                extra["heq"] = {"pq": hp == hq, "qp": hq == hp, "pr": hp == hr, "qr": hq == hr, "pp": hp == hash(copy.copy(b.p))}
            except Exception as e:
                extra["hout"] = exc_name(e)
        elif k == "look":
            pass
        else:
            out = "UnknownOperation"
    except Big:
        raise
    except Exception as e:
        out = exc_name(e)
    return out, extra


def half_powers(seq):
    return any(pw[1] != 1 for _, fs in seq for _, pw in fs)


def po_key(op, out):
    k = op["k"]
    if k == "load" and half_powers(op["g"]):
        return "po:load:rational-power"
    return "po:%s" % k


EMPTY_O = {"pred": {"izc": True, "inzc": False, "ic": True, "gc": {"out": "ok", "val": [0, 1]}},
           "eqs": {"pq": True, "qp": True, "pr": True, "qr": True, "pp": True}}


def po_event(b, op, fam, hid, i, emit):
    """perform the step and log it; numbers beyond TLC's integers make the event `big` (not examined)"""
    try:
        before = b.proj()
    except Big:
        before = None
    out, extra = "ok", {}
    big = before is None
    after, o = before, dict(EMPTY_O)
    try:
        out, extra = po_step(b, op)
        try:
            after = b.proj()
            o = {"eqs": b.eqs()}
            pr = b.pred()
            if pr is not None:
                o["pred"] = pr
            o.update(extra)
        except Big:
            raise
        except Exception as e:          # a value that cannot be projected (or compared): the operation did not complete properly
            out = "Observation:" + exc_name(e)
    except Big:
        big = True
    if big:
        z = {"p": [], "q": [], "r": []}
        emit({"kind": "po", "fam": fam, "hid": hid, "step": i, "lost": False, "big": True, "op": op, "B": z, "A": z, "out": out, "o": EMPTY_O,
              "key": po_key(op, out)})
        return None
    return {"kind": "po", "fam": fam, "hid": hid, "step": i, "lost": False, "big": False, "op": op, "B": before, "A": after, "out": out, "o": o,
            "key": po_key(op, out)}


def run_po_history(init, steps, fam, hid, log, emit):
    b = PoBench()
    emit.steps[hid] = {"kind": "po", "init": init, "steps": steps}
    # the initial registers are built like a load; a register that cannot be built ends the behaviour
    for reg in ("p", "q", "r"):
        op = {"k": "load", "g": init[reg], "c": [0, 1], "n": 0}
        before = b.proj()
        try:
            setattr(b, reg, b.build(init[reg]))
        except Exception as e:
            o = dict(EMPTY_O)
            emit({"kind": "po", "fam": fam, "hid": hid, "step": -1, "lost": False, "big": False, "op": op, "B": before, "A": before,
                  "out": exc_name(e), "o": o, "key": po_key(op, exc_name(e))})
            return "lost"
    for i, op in enumerate(steps):
        ev = po_event(b, op, fam, hid, i, emit)
        if ev is None or (log == "last" and i < len(steps) - 1):
            continue
        emit(ev)
    return "done"


def po_vectors(log_path, out_path, limit=0):
    vecs = read_vectors(log_path, "X03P", limit)
    emit = Emitter(out_path, base=2 * 10 ** 7)
    lost = 0
    for i, v in enumerate(vecs):
        if run_po_history(v["init"], v["steps"], "v", "v%d" % i, v["log"], emit) == "lost":
            lost += 1
    emit.close()
    print(json.dumps({"behaviours": len(vecs), "events": emit.n, "behaviours_cut_at_construction": lost}))


def rnd_poly(rnd, nmono, halves):
    seq, seen = [], set()
    for _ in range(nmono):
        fs = []
        for a in ("x", "y", "z"):
            if rnd.random() < 0.45:
                pw = rnd.choice([-2, -1, 1, 1, 2, 3])
                r = [pw, 1]
                if rnd.random() < halves:
                    r = [rnd.choice([-1, 1, 3]), 2]
                fs.append([a, r])
        if jd(fs) in seen:
            continue
        seen.add(jd(fs))
        c = Fraction(rnd.choice([-3, -2, -1, 1, 2, 3, 5]), rnd.choice([1, 1, 1, 2, 3]))
        seq.append([[c.numerator, c.denominator], fs])
    return seq


def po_random(out_path, seed_, n, length):
    rnd = random.Random(seed_ * 104729 + 11)
    emit = Emitter(out_path, base=3 * 10 ** 7)
    # are powers that are not integers accepted at all?  (then they are part of the alphabet; otherwise they are tried now and then)
    try:
        PoBench().build([[[1, 1], [["x", [1, 2]]]]])
        halves = 0.25
    except Exception:
        halves = 0.02
    for h in range(n):
        b = PoBench()
        steps = []
        hid = "r%d" % h
        emit.steps[hid] = {"kind": "po", "init": {"p": [], "q": [], "r": []}, "steps": steps}
        for i in range(length):
            np_, nq = len(b.p.monomials), len(b.q.monomials)
            x = rnd.random()
            if x < 0.22 or (i == 0):
                op = {"k": "load", "g": rnd_poly(rnd, rnd.choice([1, 1, 2, 2, 3, 4]), halves), "c": [0, 1], "n": 0}
            elif x < 0.36:
                op = {"k": "add", "g": [], "c": [0, 1], "n": 0}
            elif x < 0.44:
                op = {"k": "sub", "g": [], "c": [0, 1], "n": 0}
            elif x < 0.56:
                op = {"k": "mul", "g": [], "c": [0, 1], "n": 0} if np_ * nq <= 24 else {"k": "rot", "g": [], "c": [0, 1], "n": 0}
            elif x < 0.61:
                op = {"k": "neg", "g": [], "c": [0, 1], "n": 0}
            elif x < 0.69:
                c = Fraction(rnd.choice([-2, -1, 0, 1, 2, 3]), rnd.choice([1, 1, 2, 3]))
                op = {"k": "scale", "g": [], "c": [c.numerator, c.denominator], "n": 0}
            elif x < 0.76:
                e = rnd.choice([0, 1, 2, 2, 3])
                op = {"k": "pow", "g": [], "c": [0, 1], "n": e if np_ ** max(e, 1) <= 30 else 1}
            elif x < 0.86:
                op = {"k": "rot", "g": [], "c": [0, 1], "n": 0}
            elif x < 0.95:
                c = Fraction(rnd.choice([-2, -1, 2, 3]), rnd.choice([1, 2]))
                ok = np_ * nq * max(len(b.r.monomials), 1) <= 40 and np_ <= 4
                op = {"k": "laws", "g": [], "c": [c.numerator, c.denominator], "n": 0} if ok else {"k": "look", "g": [], "c": [0, 1], "n": 0}
            else:
                op = {"k": "hash", "g": [], "c": [0, 1], "n": 0}
            if np_ > 14 and op["k"] in ("add", "mul", "pow", "sub"):
                op = {"k": "rot", "g": [], "c": [0, 1], "n": 0}
            steps.append(op)
            ev = po_event(b, op, "r", hid, i, emit)
            if ev is not None:
                emit(ev)
    emit.close()
    print(json.dumps({"histories": n, "events": emit.n, "halves_in_alphabet": halves > 0.1}))


def replay(ev_path, out_path):
    ev = json.load(open(ev_path))
    emit = Emitter(out_path)
    if ev["kind"] == "ty":
        run_ty_history(ev["init"], ev["steps"], "replay", "replay", "all", emit)
    else:
        run_po_history(ev["init"], ev["steps"], "replay", "replay", "all", emit)
    emit.close()


def main(argv):
    mode = argv[0]
    if mode == "ty-vectors":
        ty_vectors(argv[1], argv[2], int(argv[3]) if len(argv) > 3 else 0)
    elif mode == "po-vectors":
        po_vectors(argv[1], argv[2], int(argv[3]) if len(argv) > 3 else 0)
    elif mode == "ty-random":
        ty_random(argv[1], int(argv[2]), int(argv[3]), int(argv[4]))
    elif mode == "po-random":
        po_random(argv[1], int(argv[2]), int(argv[3]), int(argv[4]))
    elif mode == "replay":
        replay(argv[1], argv[2])
    else:
        raise SystemExit("unknown mode %s" % mode)


if __name__ == "__main__":
    main(sys.argv[1:])
