"""X01 driver: runs histories of Theory / context operations in the REAL code and logs one event per step (projection only).

usage (cwd = repository, PYTHONPATH = repository:/verif):
  python -m harness.drivers.x01 thy-vectors <tlc log> <out.ndjson> [max]     behaviours emitted by spec/X01_Theory.tla (<<"X01T", json>>)
  python -m harness.drivers.x01 thy-random  <out.ndjson> <seed> <n> <len>    seeded random histories over a wider alphabet
  python -m harness.drivers.x01 ctx-canon   <lib dir> <out.json>             reference digests of the scratch library (fresh process)
  python -m harness.drivers.x01 ctx-vectors <tlc log> <lib dir> <canon.json> <out.ndjson> [max]    behaviours of spec/X01_Context.tla (<<"X01C", json>>)
  python -m harness.drivers.x01 ctx-random  <lib dir> <canon.json> <out.ndjson> <seed> <n> <len>

Theory family (kind "thy"): objects are kernel.theory.Theory values reached from EmptyTheory() by copy.copy / unchecked_extend /
checked_extend / add_theorem / get_theorem(svar=True).  An event carries the operation, the observed target before (B) and after (A),
the new object of a copy (N), and for every other object a digest of what it answers before / after.  Observation uses the public
getters only (has_*, get_type_sig, get_term_sig, get_theorem, get_attributes, is_overload_const, get_data(..) keys, theory.has_macro);
get_theorem(name, svar=True) is asked on a copy.copy of the object so that observing does not fill the object's own cache.

Context family (kind "ctx"): the globals theory.thy / context.ctxt under fresh_context blocks (real `with` statements, left normally or
by an exception), set_context, load_theory, load_theory_cache, extension of the global theory, mutation of the current context, on a
scratch library (the two path helpers of logic/basic.py are redirected; nothing under the repository is written).  Identities are
ghost tokens of the Python objects (every object seen is kept alive by the driver).

No verdict is computed here; every exception of the code under test becomes the outcome of the event.
"""
import copy
import hashlib
import json
import os
import random
import sys
import time

DS = [[], ["bound", 0]]
EMPTY_P = {"ty": [], "co": [], "ov": [], "th": [], "at": [], "sv": [], "svx": [], "ck": [], "nock": False, "hs": [], "mc": []}
BASE_NAMES = ["bool", "fun", "equals", "implies", "all"]
MACROS = [["x01_m_t", "t"], ["x01_m_u", "u"]]


def jd(x):
    return json.dumps(x, sort_keys=True, separators=(",", ":"))


def dig(x):
    return hashlib.sha1(jd(x).encode()).hexdigest()[:12]


# --------------------------------------------------------------------------------------------------------------------
# observation of a Theory through its public getters
# --------------------------------------------------------------------------------------------------------------------

def setup_kernel():
    from kernel import theory, macro

    for name, lim in MACROS:
        if name not in theory.global_macros:
            m = macro.Macro()
            m.level = 0
            m.limit = lim
            theory.global_macros[name] = m


_MEMO = {}
_KEEP = []


def memo(f, x):
    """encoding of an immutable kernel value, computed once per Python object (the object is kept alive, so its id is not reused)"""
    k = (f.__name__, id(x))
    if k not in _MEMO:
        _MEMO[k] = f(x)
        _KEEP.append(x)
    return _MEMO[k]


def _stmt(th):
    from harness.codec import enc
    return [[enc(h) for h in th.hyps], enc(th.prop)]


def stmt_of(th):
    return memo(_stmt, th)


def type_of(T):
    from harness.codec import encT
    return memo(encT, T)


def observe(thy, universe, light=False):
    """Everything the object answers, as JSON.  light: names and digests only (large loaded theories)."""
    from kernel import theory
    from harness.codec import encT
    names = set(universe)
    nock = False
    for dt in ("type_sig", "term_sig", "theorems", "attributes", "overload"):
        try:
            names |= set(k for k in thy.get_data(dt).keys() if isinstance(k, str))
        except Exception:
            pass
    names = sorted(names)

    def ask(f, *a, **kw):
        try:
            return True, f(*a, **kw)
        except Exception as e:
            return False, type(e).__name__

    ty, co, ov, th, at, hs = [], [], [], [], [], []
    for n in names:
        ok, r = ask(thy.has_type_sig, n)
        if ok and r:
            hs.append(["ty", n])
        ok2, v = ask(thy.get_type_sig, n)
        if ok2 and isinstance(v, int) and not isinstance(v, bool):
            ty.append([n, v])
        ok, r = ask(thy.has_term_sig, n)
        if ok and r:
            hs.append(["co", n])
        ok2, v = ask(thy.get_term_sig, n)
        if ok2:
            ok3, j = ask(type_of, v)
            co.append([n, j if ok3 else ["tc", "?unencodable", []]])
        ok, r = ask(thy.is_overload_const, n)
        if ok and r:
            ov.append(n)
        ok, r = ask(thy.has_theorem, n)
        if ok and r:
            hs.append(["th", n])
        ok2, v = ask(thy.get_theorem, n, svar=False)
        if ok2:
            ok3, j = ask(stmt_of, v)
            th.append([n, j if ok3 else DS])
        ok, v = ask(thy.get_attributes, n)
        if ok and v:
            at.append([n, [str(x) for x in v]])
    sv, svx = [], []
    c = None
    if not light:
        ok, c = ask(copy.copy, thy)
        if not ok:
            c = None
    for n, _ in ([] if light else th):
        if c is None:
            svx.append([n, "copy failed"])
            continue
        ok, v = ask(c.get_theorem, n, svar=True)
        if ok:
            ok3, j = ask(stmt_of, v)
            sv.append([n, j if ok3 else DS])
        else:
            svx.append([n, v])
    ok, keys = ask(lambda: sorted(k for k in thy.get_data("theorems_svar").keys() if isinstance(k, str)))
    if not ok:
        keys, nock = [], True
    mc = []
    saved = theory.thy
    try:
        theory.thy = thy
        for m, lim in ([] if light else MACROS):
            ok, r = ask(theory.has_macro, m)
            if ok:
                mc.append([m, lim, bool(r)])
    finally:
        theory.thy = saved
    P = {"ty": ty, "co": co, "ov": ov, "th": th, "at": at, "sv": sv, "svx": svx, "ck": keys, "nock": nock, "hs": hs, "mc": mc}
    if light:
        return {"names": [["ty", n] for n, _ in ty] + [["co", n] for n, _ in co] + [["th", n] for n, _ in th], "dig": dig(P)}
    return P


# --------------------------------------------------------------------------------------------------------------------
# theory family
# --------------------------------------------------------------------------------------------------------------------

class Junk:
    """not an Extension"""


def good_proof(prop):
    """a proof of  X --> X  by assume / implies_intr"""
    from kernel.proof import Proof
    X = prop.arg1
    prf = Proof()
    prf.add_item(0, "assume", args=X)
    prf.add_item(1, "implies_intr", args=X, prevs=[0])
    return prf


def bad_proof(prop):
    """a proof of something else (X = X)"""
    from kernel.proof import Proof
    prf = Proof()
    prf.add_item(0, "reflexive", args=prop)
    return prf


def dec_item(it):
    from kernel import extension as E
    from kernel.thm import Thm
    from harness.codec import dec, decT
    kind, name, arity, T, st, attr, prf = it
    if kind == "type":
        return E.TConst(name, arity)
    if kind == "const":
        return E.Constant(name, decT(T))
    if kind == "over":
        return E.Overload(name)
    if kind == "thm":
        prop = dec(st[1])
        th = Thm(prop, *[dec(h) for h in st[0]])
        p = None
        if prf == "good":
            p = good_proof(prop)
        elif prf == "bad":
            p = bad_proof(prop)
        return E.Theorem(name, th, p)
    if kind == "attr":
        return E.Attribute(name, attr)
    return Junk()


def op_class(op):
    if op["k"] == "ext":
        return "ext%s[%s]" % ("c" if op["checked"] else "", ",".join(it[0] for it in op["items"]))
    return op["k"]


def op_key(op, B):
    """class of the input relative to the state it is applied to (a stable key for findings; no verdict):
    for an extension list the kind of its first item whose name the target already knows (or that the list itself repeats)"""
    k = op["k"]
    if k == "ext":
        known = {"type": {n for n, _ in B["ty"]}, "const": {n for n, _ in B["co"]} - set(B["ov"]), "thm": {n for n, _ in B["th"]}}
        arity = dict((n, a) for n, a in B["ty"])
        seen = set()
        for it in op["items"]:
            kind, name = it[0], it[1]
            if kind in known:
                if (kind, name) in seen or (name in known[kind] and (kind != "type" or arity.get(name) != it[2])):
                    return "ext:%s" % {"type": "redeclare-type", "const": "readd-const", "thm": "replace-thm"}[kind]
                seen.add((kind, name))
        return "ext:fresh"
    if k == "put":
        return "put:%s" % ("existing" if op["name"] in {n for n, _ in B["th"]} else "new")
    if k == "query":
        return "query:%s" % ("cached" if op["name"] in B["ck"] else "uncached" if op["name"] in {n for n, _ in B["th"]} else "unknown")
    return k


def names_of_steps(steps):
    u = set(BASE_NAMES) | {lim for _, lim in MACROS}
    for s in steps:
        op = s["op"]
        for it in op["items"]:
            if it[1]:
                u.add(it[1])
        if op["name"]:
            u.add(op["name"])
    return u


def run_thy_history(steps, fam, hid, log, emit):
    """steps: [{"op": {k, checked, items, name, st}, "tgt": int (1-based)}];  log: "all" | "last"."""
    from kernel import theory
    from kernel.thm import Thm
    from harness.codec import dec
    objs = [theory.EmptyTheory()]
    if hasattr(emit, "steps"):
        emit.steps[hid] = steps
    U = names_of_steps(steps)
    carry = None
    for i, s in enumerate(steps):
        op, o = s["op"], s["tgt"] - 1
        logged = log == "all" or i == len(steps) - 1
        if o >= len(objs):
            # the specification copied where the code could not: the behaviour cannot be followed any further
            emit({"kind": "thy", "fam": fam, "hid": hid, "step": i, "op": op, "lost": True, "key": "thy:%s:lost" % fam})
            return
        before = (carry if carry is not None else [observe(x, U) for x in objs]) if logged else None
        out, exc, res = "ok", "", DS
        nobj = len(objs)
        try:
            t = objs[o]
            if op["k"] == "copy":
                objs.append(copy.copy(t))
            elif op["k"] == "ext":
                exts = [dec_item(it) for it in op["items"]]
                if op["checked"]:
                    t.checked_extend(exts)
                else:
                    t.unchecked_extend(exts)
            elif op["k"] == "put":
                t.add_theorem(op["name"], Thm(dec(op["st"][1]), *[dec(h) for h in op["st"][0]]))
            elif op["k"] == "query":
                r = t.get_theorem(op["name"], svar=True)
                res = stmt_of(r)
        except Exception as e:
            out, exc = "raised", type(e).__name__
            del objs[nobj:]
        if not logged:
            continue
        after = [observe(x, U) for x in objs]
        carry = after if log == "all" else None
        ev = {"kind": "thy", "fam": fam, "hid": hid, "step": i, "lost": False, "op": op, "tgt": o + 1, "out": out, "exc": exc, "res": res,
              "B": before[o], "A": after[o], "N": after[-1] if op["k"] == "copy" else EMPTY_P,
              "others": [[j + 1, dig(before[j]), dig(after[j])] for j in range(len(before)) if j != o],
              "key": "thy:%s" % op_key(op, before[o])}
        emit(ev)


def read_vectors(log_path, tag, limit=0):
    pre = '<<"%s", ' % tag
    vecs = []
    with open(log_path, encoding="utf-8", errors="replace") as f:
        for ln in f:
            if ln.startswith(pre):
                vecs.append(json.loads(json.loads(ln.strip()[len(pre):-2])))
    uniq = {jd(v): v for v in vecs}          # -simulate prints a behaviour once per evaluation of Finish
    vecs = [uniq[k] for k in sorted(uniq)]
    if limit and len(vecs) > limit:
        rnd = random.Random(int(os.environ.get("VERIF_SEED", "0")))
        vecs = rnd.sample(vecs, limit)
    return vecs


class Emitter:
    def __init__(self, path, base=0):
        self.path = path
        self.f = open(path, "w")
        self.tid = base
        self.steps = {}      # history id -> the operations (side file <out>.steps.json, for replays; not read by TLC)

    def __call__(self, ev):
        self.tid += 1
        ev["tid"] = self.tid
        self.f.write(json.dumps(ev, separators=(",", ":")) + "\n")

    def close(self):
        self.f.close()
        with open(self.path + ".steps.json", "w") as g:
            json.dump(self.steps, g, separators=(",", ":"))


def thy_vectors(log_path, out_path, limit=0):
    setup_kernel()
    vecs = read_vectors(log_path, "X01T", limit)
    emit = Emitter(out_path)
    for i, v in enumerate(vecs):
        run_thy_history(v["steps"], v["fam"], "v%d" % i, v["log"], emit)
    emit.close()
    print(json.dumps({"behaviours": len(vecs), "events": emit.tid}))


# ---- seeded random histories over a wider alphabet (generated here, judged by the same T specification)
def T_(name, *args):
    return ["tc", name, list(args)]


BOOL = T_("bool")
NAT = T_("nat")
NUM = T_("num")
TVA = ["tv", "a"]
TVB = ["tv", "b"]


def FUN(*ts):
    r = ts[-1]
    for t in reversed(ts[:-1]):
        r = T_("fun", t, r)
    return r


def V(n, T):
    return ["var", n, T]


def IMP(a, b):
    return ["comb", ["comb", ["const", "implies", FUN(BOOL, BOOL, BOOL)], a], b]


def EQ(a, b, T):
    return ["comb", ["comb", ["const", "equals", FUN(T, T, BOOL)], a], b]


STMTS = [
    [[], V("A", BOOL)], [[], V("B", BOOL)], [[], ["comb", V("P", FUN(TVA, BOOL)), V("x", TVA)]],
    [[], IMP(V("A", BOOL), V("A", BOOL))], [[], EQ(V("x", TVA), V("x", TVA), TVA)], [[], EQ(V("m", NAT), V("m", NAT), NAT)],
    [[], ["comb", ["const", "all", FUN(FUN(TVB, BOOL), BOOL)], ["abs", TVB, ["comb", V("Q", FUN(TVB, BOOL)), ["bound", 0]]]]],
    [[V("A", BOOL)], V("A", BOOL)],                      # with a hypothesis: no schematic form (the code raises), not examined
]
IMPS = [[[], IMP(V("A", BOOL), V("A", BOOL))], [[], IMP(V("B", BOOL), V("B", BOOL))]]
GEN_TYPES = {"plus": FUN(TVA, TVA, TVA), "neg": FUN(TVA, TVA), "zero": NAT, "c1": BOOL, "f": FUN(NAT, NAT)}
CONST_TYPES = [NAT, BOOL, FUN(NAT, NAT), FUN(NAT, NAT, NAT), FUN(NUM, NUM, NUM), FUN(NAT, BOOL, NAT), FUN(TVB, TVB, TVB), FUN(TVA, TVA, TVA),
               FUN(TVA, TVA), FUN(NUM, NUM), FUN(T_("list", TVA), T_("list", TVA))]


def rand_item(r):
    c = r.random()
    mk = lambda k, n="", ar=0, T=BOOL, st=DS, a="", p="none": [k, n, ar, T, st, a, p]
    if c < 0.16:
        return mk("type", r.choice(["nat", "num", "list", "bool"]), r.choice([0, 0, 1]))
    if c < 0.40:
        n = r.choice(list(GEN_TYPES))
        T = GEN_TYPES[n] if r.random() < 0.5 else r.choice(CONST_TYPES)
        return mk("const", n, T=T)
    if c < 0.50:
        return mk("over", r.choice(["plus", "neg", "zero", "nosuch"]))
    if c < 0.80:
        n = r.choice(["t", "u", "w", "g"])
        if r.random() < 0.3:
            return mk("thm", n, st=r.choice(IMPS), p=r.choice(["good", "bad", "none"]))
        return mk("thm", n, st=r.choice(STMTS))
    if c < 0.96:
        return mk("attr", r.choice(["t", "u", "w"]), a=r.choice(["hint_rewrite", "hint_backward", "hint_resolve"]))
    return mk("junk")


def rand_op(r, nobj):
    c = r.random()
    op = {"k": "none", "checked": False, "items": [], "name": "", "st": DS}
    if c < 0.14 and nobj < 4:
        op["k"] = "copy"
    elif c < 0.70:
        op["k"] = "ext"
        op["checked"] = r.random() < 0.35
        op["items"] = [rand_item(r) for _ in range(r.choice([1, 1, 2, 3, 4]))]
    elif c < 0.80:
        op["k"] = "put"
        op["name"] = r.choice(["t", "u", "w"])
        op["st"] = r.choice(STMTS[:7])
    else:
        op["k"] = "query"
        op["name"] = r.choice(["t", "u", "w", "g"])
    return op


def thy_random(out_path, seed, n, length):
    setup_kernel()
    r = random.Random(seed * 7919 + 17)
    emit = Emitter(out_path, base=5 * 10 ** 6)
    for h in range(n):
        steps, nobj = [], 1
        for _ in range(length):
            op = rand_op(r, nobj)
            if op["k"] == "none":
                continue
            steps.append({"op": op, "tgt": r.randint(1, nobj)})
            if op["k"] == "copy":
                nobj += 1
        run_thy_history(steps, "random", "r%d" % h, "all", emit)
    emit.close()
    print(json.dumps({"histories": n, "events": emit.tid - 5 * 10 ** 6}))


# --------------------------------------------------------------------------------------------------------------------
# context family
# --------------------------------------------------------------------------------------------------------------------

XA = {"name": "xa", "imports": [], "description": "X01 scratch theory", "content": [
    {"ty": "type.ax", "name": "xnat", "args": []},
    {"ty": "def.ax", "name": "xzero", "type": "xnat"},
    {"ty": "def.ax", "name": "xsuc", "type": "xnat ⇒ xnat"},
    {"ty": "thm.ax", "name": "xa_ax", "vars": {"n": "xnat"}, "prop": "xsuc n = xsuc n", "attributes": ["hint_rewrite"]},
]}
XB = {"name": "xb", "imports": ["xa"], "description": "X01 scratch theory", "content": [
    {"ty": "def.ax", "name": "xone", "type": "xnat"},
    {"ty": "thm.ax", "name": "xb_ax", "vars": {}, "prop": "xone = xsuc xzero"},
    {"ty": "thm.ax", "name": "xb_ax2", "vars": {"P": "xnat ⇒ bool"}, "prop": "P xone ⟶ P xone"},
]}
LIMITS = {"xa": ["thm.ax", "xa_ax"], "xb": ["thm.ax", "xb_ax2"], "logic_base": ["thm", "trivial"]}
# variable sets of a context: [category, name, type]; "s" = given to Context as a string, "T" = as a Type object
VSETS = {
    "v0": [],
    "v1": [["vars", "x", BOOL, "T"]],
    "v2": [["vars", "x", FUN(BOOL, BOOL), "s"], ["vars", "y", BOOL, "s"], ["svars", "P", BOOL, "T"], ["defs", "f", FUN(BOOL, BOOL, BOOL), "s"]],
    "v3": [["vars", "n", TVA, "T"], ["defs", "g", BOOL, "T"]],
}
TYPE_STR = {jd(BOOL): "bool", jd(FUN(BOOL, BOOL)): "bool ⇒ bool", jd(FUN(BOOL, BOOL, BOOL)): "bool ⇒ bool ⇒ bool"}


def make_library(lib, repo="."):
    os.makedirs(lib, exist_ok=True)
    for d in (XA, XB):
        with open(os.path.join(lib, d["name"] + ".json"), "w", encoding="utf-8") as f:
            json.dump(d, f, ensure_ascii=False)
    src = os.path.join(repo, "library", "logic_base.json")
    if os.path.exists(src):
        with open(src, encoding="utf-8") as f, open(os.path.join(lib, "logic_base.json"), "w", encoding="utf-8") as g:
            g.write(f.read())


def redirect(lib):
    from logic import basic
    lib = os.path.abspath(lib)
    basic.user_dir = lambda username="master": lib + "/"
    basic.user_file = lambda filename, username="master": os.path.join(lib, filename + ".json")
    basic.theory_cache.clear()
    basic.item_index.clear()


def vset_args(vs):
    from harness.codec import decT
    kw = {"vars": None, "svars": None, "defs": None}
    for cat, n, T, how in VSETS[vs]:
        if kw[cat] is None:
            kw[cat] = {}
        kw[cat][n] = TYPE_STR[jd(T)] if how == "s" else decT(T)
    return kw


def want_of(vs):
    return sorted([cat, n, T] for cat, n, T, _ in VSETS[vs])


def observe_ctxt(c):
    from harness.codec import encT
    res = []
    for cat in ("vars", "svars", "defs"):
        try:
            d = getattr(c, cat)
            for n, T in d.items():
                try:
                    res.append([cat, str(n), encT(T)])
                except Exception:
                    res.append([cat, str(n), ["tc", "?" + type(T).__name__, []]])
        except Exception:
            res.append([cat, "?unobservable", ["tc", "?", []]])
    return sorted(res)


class Boom(Exception):
    pass


class CtxRun:
    def __init__(self, ops, hid, fam, log, emit, canon):
        from kernel import theory
        from logic import context
        self.theory, self.context = theory, context
        self.ops, self.hid, self.fam, self.log, self.emit, self.canon = ops, hid, fam, log, emit, canon
        self.tok = {}
        self.keep = []
        self.thys = []       # theory objects seen as the global theory (kept alive)
        self.ctxs = []       # Context objects seen as the global context
        self.frames = []     # driver's record of what was observed at each entry: {"thy", "ctx", "cc", "dirty"}
        self.U = set(BASE_NAMES)
        self.nglob = 0

    def token(self, x, pool):
        if id(x) not in self.tok:
            self.tok[id(x)] = len(self.tok) + 1
            self.keep.append(x)
            pool.append(x)
        return self.tok[id(x)]

    def snap(self):
        t, c = self.theory.thy, self.context.ctxt
        g = {"thy": self.token(t, self.thys), "ctx": self.token(c, self.ctxs), "cc": observe_ctxt(c)}
        held = [[self.tok[id(x)], observe(x, self.U, light=True)["dig"]] for x in self.thys]
        g["thyd"] = [d for k, d in held if k == g["thy"]][0]
        cheld = [[self.tok[id(x)], observe_ctxt(x)] for x in self.ctxs]
        return g, held, cheld

    def logged(self, i):
        return self.log == "all" or i == len(self.ops) - 1

    def event(self, i, op, B, A, out, exc, extra=None):
        gB, hB, cB = B
        gA, hA, cA = A
        ev = {"kind": "ctx", "fam": self.fam, "hid": self.hid, "step": i, "op": op, "out": out, "exc": exc,
              "B": gB, "A": gA, "heldB": hB, "heldA": hA, "cheldB": cB, "cheldA": cA,
              "entry": {"thy": 0, "ctx": 0, "cc": []}, "dirty": False, "depth": len(self.frames),
              "want": want_of(op["vs"]) if op["vs"] in VSETS else [], "canon": "", "hascanon": False,
              "key": "ctx:%s%s" % (op["k"], (":" + op["how"]) if op["how"] else "")}
        if extra:
            ev.update(extra)
        self.emit(ev)

    def plain(self, i, op):
        """one operation that is not a block boundary"""
        theory, context = self.theory, self.context
        from logic import basic
        B = self.snap() if self.logged(i) else None
        out, exc = "ok", ""
        extra = {}
        k, name = op["k"], op["name"]
        lim = None
        if op["how"] == "limit":
            lim = tuple(LIMITS.get(name, ["thm", "nosuch"]))
        elif op["how"] == "nolimit":
            lim = ("thm", "x01_no_such_item")
        try:
            if k == "setctx":
                context.set_context(name or None, limit=lim, **vset_args(op["vs"]))
            elif k == "load":
                basic.load_theory(name, limit=lim)
            elif k == "cacheload":
                basic.load_theory_cache(name)
            elif k == "touch":
                p = basic.user_file(name)
                st = os.stat(p)
                os.utime(p, (st.st_atime, st.st_mtime + 2.0))
            elif k == "extglobal":
                from kernel import extension as E
                from kernel.type import TConst
                self.nglob += 1
                theory.thy.unchecked_extend([E.Constant("x01_g%d" % self.nglob, TConst("bool"))])
            elif k == "mutate":
                from kernel.type import TConst
                context.ctxt.vars["x01_z"] = TConst("bool")
        except Exception as e:
            out, exc = "raised", type(e).__name__
        if k in ("setctx", "load") and name:
            for f in self.frames:
                f["dirty"] = True
            ck = "%s|%s" % (name, op["how"] or "full")
            if out == "ok" and ck in self.canon:
                extra = {"canon": self.canon[ck], "hascanon": True}
        if B is not None:
            self.event(i, op, B, self.snap(), out, exc, extra)

    def run(self, i):
        """interprets ops[i:] until the exit that closes the current block (returns its index) or the end"""
        n = len(self.ops)
        while i < n:
            op = self.ops[i]
            if op["k"] == "enter":
                i = self.block(i)
            elif op["k"] == "exit":
                return i
            else:
                self.plain(i, op)
                i += 1
        return i

    def block(self, i):
        """ops[i] = enter: a REAL `with fresh_context(...)` block around the operations up to the matching exit"""
        context = self.context
        op = self.ops[i]
        n = len(self.ops)
        B = self.snap()
        frame = {"thy": B[0]["thy"], "ctx": B[0]["ctx"], "cc": B[0]["cc"], "dirty": False}
        j, how, Bx, entered = n, "end", None, False
        try:
            with context.fresh_context(**vset_args(op["vs"])):
                entered = True
                self.frames.append(frame)
                if self.logged(i):
                    self.event(i, op, B, self.snap(), "ok", "")
                j = self.run(i + 1)
                self.frames.pop()
                if j < n:
                    how = self.ops[j]["how"]
                    Bx = self.snap() if self.logged(j) else None
                    if how == "exc":
                        raise Boom()
                # else: the history ends inside the block; it is left without an event
        except Boom:
            pass
        except Exception as e:
            if entered:
                raise
            if self.logged(i):
                self.event(i, op, B, self.snap(), "raised", type(e).__name__)
            return i + 1
        if Bx is not None:
            self.event(j, self.ops[j], Bx, self.snap(), "ok", "",
                       {"entry": {"thy": frame["thy"], "ctx": frame["ctx"], "cc": frame["cc"]}, "dirty": frame["dirty"]})
        return j + 1


def run_ctx_history(ops, fam, hid, log, emit, canon):
    from kernel import theory
    from logic import basic, context
    theory.thy = theory.EmptyTheory()
    context.ctxt = context.Context()
    if hasattr(emit, "steps"):
        emit.steps[hid] = ops
    r = CtxRun(ops, hid, fam, log, emit, canon)
    i = 0
    while i < len(ops):
        i = r.run(i)
        if i < len(ops):       # an exit without an open block: not a behaviour of the specification; skipped
            i += 1


def ctx_canon(lib, out_path):
    setup_kernel()
    make_library(lib)
    redirect(lib)
    from kernel import theory
    from logic import basic
    res = {}
    for name in ("xa", "xb", "logic_base"):
        for how in ("full", "limit"):
            try:
                basic.load_theory(name, limit=tuple(LIMITS[name]) if how == "limit" else None)
                res["%s|%s" % (name, how)] = observe(theory.thy, set(BASE_NAMES), light=True)["dig"]
            except Exception as e:
                print("canon: %s %s failed: %s" % (name, how, type(e).__name__), file=sys.stderr)
    json.dump(res, open(out_path, "w"))
    print(json.dumps(res))


def ctx_vectors(log_path, lib, canon_path, out_path, limit=0):
    setup_kernel()
    make_library(lib)
    redirect(lib)
    canon = json.load(open(canon_path))
    vecs = read_vectors(log_path, "X01C", limit)
    emit = Emitter(out_path, base=10 ** 7)
    for i, v in enumerate(vecs):
        run_ctx_history(v["steps"], v["fam"], "c%d" % i, v["log"], emit, canon)
    emit.close()
    print(json.dumps({"behaviours": len(vecs), "events": emit.tid - 10 ** 7}))


def rand_ctx_op(r, depth):
    c = r.random()
    op = {"k": "none", "name": "", "vs": "", "how": ""}
    th = lambda: r.choice(["xa", "xb", "xb", "logic_base"])
    if c < 0.22 and depth < 4:
        op.update(k="enter", vs=r.choice(list(VSETS)))
    elif c < 0.42 and depth > 0:
        op.update(k="exit", how=r.choice(["normal", "exc"]))
    elif c < 0.60:
        op.update(k="setctx", name=r.choice(["", "", th(), th()]), vs=r.choice(list(VSETS)))
        if op["name"]:
            op["how"] = r.choice(["", "", "limit", "nolimit"])
    elif c < 0.72:
        op.update(k="load", name=th(), how=r.choice(["", "", "limit", "nolimit"]))
    elif c < 0.80:
        op.update(k="cacheload", name=th())
    elif c < 0.85:
        op.update(k="touch", name=r.choice(["xa", "xb"]))
    elif c < 0.93:
        op.update(k="extglobal")
    else:
        op.update(k="mutate")
    return op


def ctx_random(lib, canon_path, out_path, seed, n, length):
    setup_kernel()
    make_library(lib)
    redirect(lib)
    canon = json.load(open(canon_path))
    r = random.Random(seed * 104729 + 5)
    emit = Emitter(out_path, base=2 * 10 ** 7)
    for h in range(n):
        ops, depth = [], 0
        while len(ops) < length:
            op = rand_ctx_op(r, depth)
            if op["k"] == "none":
                continue
            depth += 1 if op["k"] == "enter" else (-1 if op["k"] == "exit" else 0)
            ops.append(op)
        while depth > 0 and r.random() < 0.8:
            ops.append({"k": "exit", "name": "", "vs": "", "how": r.choice(["normal", "exc"])})
            depth -= 1
        run_ctx_history(ops, "random", "q%d" % h, "all", emit, canon)
    emit.close()
    print(json.dumps({"histories": n, "events": emit.tid - 2 * 10 ** 7}))


def replay(ev_path, lib, canon_path, out_path):
    """re-executes the history of a recorded event {kind, fam, steps} on the current tree, logging every step"""
    setup_kernel()
    ev = json.load(open(ev_path))
    emit = Emitter(out_path)
    if ev["kind"] == "thy":
        run_thy_history(ev["steps"], ev.get("fam", "replay"), "replay", "all", emit)
    else:
        make_library(lib)
        redirect(lib)
        run_ctx_history(ev["steps"], ev.get("fam", "replay"), "replay", "all", emit, json.load(open(canon_path)))
    emit.close()


def main(argv):
    mode = argv[0]
    if mode == "replay":
        return replay(argv[1], argv[2], argv[3], argv[4])
    if mode == "thy-vectors":
        thy_vectors(argv[1], argv[2], int(argv[3]) if len(argv) > 3 else 0)
    elif mode == "thy-random":
        thy_random(argv[1], int(argv[2]), int(argv[3]), int(argv[4]))
    elif mode == "ctx-canon":
        ctx_canon(argv[1], argv[2])
    elif mode == "ctx-vectors":
        ctx_vectors(argv[1], argv[2], argv[3], argv[4], int(argv[5]) if len(argv) > 5 else 0)
    elif mode == "ctx-random":
        ctx_random(argv[1], argv[2], argv[3], int(argv[4]), int(argv[5]), int(argv[6]))
    else:
        raise SystemExit("unknown mode %s" % mode)


if __name__ == "__main__":
    main(sys.argv[1:])
