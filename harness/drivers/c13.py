"""C13 / C14 driver: proof editing on real ProofState objects (server/method.py, kernel/proof.py, app/ide.py).

usage: python -m harness.drivers.c13 <mode> <out.ndjson> <seed> <n_theorems> <theory>[,<theory>...] [<n_sessions> [<max_steps>]]
       python -m harness.drivers.c13 lineedit <vectors (TLC log of spec/C13_LineEdit.tla)> <out.ndjson> <seed>
  mode = edit     C13 events: after every editing operation that completes (recorded steps replayed live or on a copy, seeded
                  random walks of up to 4 further operations: other methods / goals / facts, cut, cases, new_var, introduction,
                  revert_intro, forall_elim, exists_elim), the projected state, full re-check, gap-free re-check, export ->
                  parse_proof round trip, copy isolation; ProofCache histories; generated editing sessions on generated goals
                  in theory logic (sibling scopes binding one name at different types, several exists_elim in one scope,
                  a cut cited from a later subproof and then merged away, nested variants, random walks)
  mode = lineedit the behaviours printed by the S spec, performed on a REAL ProofState through add_line_before / remove_line /
                  replace_id / set_line; one event per step with the projected real proof before / after and the spec's proof
  mode = suggest  C14 events: at prefix states, every suggestion of search_method applied on a copy
No verdict is computed here: only projection (sequents / terms are interned to integers through the structural codec).
"""
import copy
import json
import random
import sys
import traceback

import flask.json
flask.json.JSONEncoder = json.JSONEncoder     # Flask 3 no longer has it; app/app.py imports it (environment shim)

from kernel import theory
from kernel.proof import ItemID
from kernel.thm import Thm
from logic import basic, context
from server import server, items, method
from syntax.settings import global_setting
from prover import z3wrapper

from harness.codec import enc, encS, encT

z3wrapper.check_z3 = False       # as server/monitor.py does: z3 steps are not re-run

SEQ, TRM = {}, {}


def sid(th):
    if th is None:
        return -1
    j = encS(th)
    key = json.dumps([sorted(json.dumps(h) for h in j["h"]), j["c"]])
    return SEQ.setdefault(key, len(SEQ))


def tid_of(t):
    return TRM.setdefault(json.dumps(enc(t)), len(TRM))


def ids(i):
    return list(ItemID(i).id)


def flat(prf, out=None):
    out = [] if out is None else out
    for it in prf.items:
        out.append(it)
        if it.subproof:
            flat(it.subproof, out)
    return out


def lines_of(state):
    return [[ids(it.id), it.rule, [ids(p) for p in it.prevs], sid(it.th)] for it in flat(state.prf)]


def props_of(state):
    """(line id, rule, prop term id) for lines with a statement"""
    return [[ids(it.id), it.rule, tid_of(it.th.prop)] for it in flat(state.prf) if it.th is not None]


def sorries(state):
    return sorted(sid(it.th) for it in flat(state.prf) if it.rule == "sorry")


def recheck(state, no_gaps=False):
    st = copy.copy(state)
    try:
        th = st.check_proof(no_gaps=no_gaps)
        return [True, sorted(sid(g) for g in st.rpt.gaps), sid(th), ""]
    except Exception as e:
        return [False, [], -1, type(e).__name__]


def export_lines(state):
    with global_setting(unicode=True, highlight=False):
        exp = state.export_proof()
    return [[d["id"], d["rule"], d["args"], list(d["prevs"]), d["th"]] for d in exp], exp


def export_import(state, vars_):
    try:
        e1, raw = export_lines(state)
        context.set_context(None, vars=vars_)
        with global_setting(unicode=True, highlight=False):
            st2 = server.parse_proof(raw)
        e2, _ = export_lines(st2)
        return [True, e1, e2, lines_of(st2), recheck(st2)[:3], ""]
    except Exception as e:
        tb = traceback.extract_tb(e.__traceback__)
        where = " @ " + " < ".join("%s:%d" % (f.filename.split("/")[-1], f.lineno) for f in tb[-4:])
        return [False, [], [], [], [False, [], -1], type(e).__name__ + ": " + str(e)[:100] + where]


def tags_of(state):
    """characterisation of the INPUT state (not a verdict): two variables of one name at different types that are visible
    TOGETHER - in one sequent, or a variable line / a sequent against the variables declared in the enclosing scopes (theorem
    variables, earlier `variable` lines of the enclosing levels).  Sibling scopes that bind one name at different types do
    not see each other: every printed line stays unambiguous, such states are not tagged."""
    clash = [False]

    def tk(T):
        return json.dumps(encT(T))

    def walk(prf, scope):
        scope = dict(scope)                       # a block's declarations do not leak out of it
        for it in prf.items:
            if it.rule == "variable" and it.args:
                nm, T = it.args[0], tk(it.args[1])
                if scope.setdefault(nm, T) != T:
                    clash[0] = True
            if it.th is not None:
                local = {}
                for t in list(it.th.hyps) + [it.th.prop]:
                    for v in t.get_vars():
                        T = tk(v.T)
                        if local.setdefault(v.name, T) != T or scope.get(v.name, T) != T:
                            clash[0] = True
            if it.subproof:
                walk(it.subproof, scope)

    top = {}
    for v in state.vars:
        if top.setdefault(v.name, tk(v.T)) != tk(v.T):
            clash[0] = True
    walk(state.prf, top)
    return ["same-name-variables-at-different-types"] if clash[0] else []


def sibling_binders(state):
    """characterisation: `variable` lines of one name at different types in scopes that do not see each other"""
    decl = [(it.id, it.args[0], json.dumps(encT(it.args[1]))) for it in flat(state.prf) if it.rule == "variable" and it.args]
    return any(n1 == n2 and t1 != t2 and not i1.can_depend_on(i2) and not i2.can_depend_on(i1)
               for (i1, n1, t1) in decl for (i2, n2, t2) in decl)


class Out:
    def __init__(self, path):
        self.f = open(path, "w")
        self.tid = 0

    def emit(self, ev):
        self.tid += 1
        ev["tid"] = self.tid
        self.f.write(json.dumps(ev, separators=(",", ":")) + "\n")


def thm_iter(theories, rnd, n_per, max_steps=0):
    """yield (theory, item) for sampled theorems with recorded steps (max_steps > 0: of at most that many steps); the theory is
    extended item by item as monitor.check_theory does"""
    for th in theories:
        data = basic.load_json_data(th)
        basic.load_theory(th, limit="start")
        cands = [i for i, raw in enumerate(data["content"]) if raw.get("ty") == "thm" and raw.get("steps")
                 and (max_steps <= 0 or len(raw["steps"]) <= max_steps)]
        chosen = set(rnd.sample(cands, min(n_per, len(cands))))
        for i, raw in enumerate(data["content"]):
            item = items.parse_item(raw)
            if item.error:
                continue
            if i in chosen:
                yield th, item
            theory.thy.unchecked_extend(item.get_extension())


def full_lines(state):
    """projection used for copy isolation: ids, rules, citations, interned sequents AND printed arguments (same shape always)"""
    try:
        return {"lines": lines_of(state), "exp_ok": True, "exp": export_lines(state)[0], "exp_err": ""}
    except Exception as e:
        return {"lines": lines_of(state), "exp_ok": False, "exp": [], "exp_err": type(e).__name__}


NO_COPY = {"lines": [], "exp_ok": True, "exp": [], "exp_err": ""}


def apply_on_copy(state, step):
    trial = copy.copy(state)
    before = full_lines(state)
    try:
        method.apply_method(trial, step)
        trial.check_proof(compute_only=True)
        return trial, before, full_lines(state), None
    except Exception as e:
        return None, before, full_lines(state), e


def edit_event(out, thname, item, goal, state, idx, route, step, copy_info, extra=None):
    ev = {"kind": "edit", "thm": "%s.%s" % (thname, item.name), "step": idx, "route": route, "method": step.get("method_name", "init"),
          "lines": lines_of(state), "goal": goal, "sorries": sorries(state), "recheck": recheck(state)[:3]}
    ev["nogaps"] = [True] + recheck(state, no_gaps=True)[:3:2] if not ev["sorries"] else [False, False, -1]
    xi = export_import(state, item.vars)
    ev["expimp"] = xi[:5]
    ev["expimp_err"] = xi[5]
    ev["copy"] = [True, copy_info[0], copy_info[1]] if copy_info else [False, NO_COPY, NO_COPY]
    ev["tags"] = tags_of(state)
    ev["params"] = {k: str(v) for k, v in step.items() if k not in ("method_name",)}
    ev["key"] = "%s#%d:%s:%s" % (ev["thm"], idx, route, ev["method"])
    if extra:
        ev.update(extra)
    context.set_context(None, vars=item.vars)
    out.emit(ev)


def perturb_steps(state, rnd):
    """candidate editing operations other than the recorded one"""
    gaps = [it for it in flat(state.prf) if it.rule == "sorry"]
    if not gaps:
        return []
    g = rnd.choice(gaps)
    gid = str(g.id)
    facts = [it for it in flat(state.prf) if it.th is not None and it.rule != "sorry" and g.id.can_depend_on(it.id) and it.rule != "variable"]
    fsel = [str(f.id) for f in rnd.sample(facts, min(len(facts), rnd.choice([0, 0, 1, 1, 2])))]
    cands = []
    try:
        res = state.search_method(gid, fsel)
        for r in res[:6]:
            st = {k: v for k, v in r.items() if not k.startswith("_") and k != "display"}
            st["goal_id"], st["fact_ids"] = gid, r.get("fact_ids", fsel)
            if st.get("method_name") in ("exists_elim", "introduction") and "names" not in st:
                st["names"] = "w%d, w%d" % (rnd.randint(0, 3), rnd.randint(4, 7))
            if st.get("method_name") == "forall_elim" and "s" not in st:
                # instantiate with a visible variable of the bound variable's type
                try:
                    T = state.get_proof_item(ItemID(st["fact_ids"][0])).th.prop.arg.var_T
                    pool = sorted(nm for nm, T2 in state.get_vars(gid).items() if T2 == T)
                    if pool:
                        st["s"] = rnd.choice(pool)
                except Exception:
                    pass
            cands.append(st)
    except Exception:
        pass
    with global_setting(unicode=False, highlight=False):
        ptxt = None
        try:
            from syntax import printer
            ptxt = printer.print_term(g.th.prop)
        except Exception:
            pass
    if ptxt:
        cands.append({"method_name": "cut", "goal_id": gid, "fact_ids": [], "goal": ptxt})
        cands.append({"method_name": "cases", "goal_id": gid, "fact_ids": [], "case": ptxt})
    cands.append({"method_name": "new_var", "goal_id": gid, "fact_ids": [], "name": "vnew%d" % rnd.randint(0, 9), "type": "bool"})
    cands.append({"method_name": "introduction", "goal_id": gid, "fact_ids": [], "names": "v1, v2"})
    # forall_elim / exists_elim on a visible universally / existentially quantified fact
    for f in rnd.sample(facts, len(facts)):
        try:
            if f.th.prop.is_forall():
                pool = sorted(nm for nm, T2 in state.get_vars(gid).items() if T2 == f.th.prop.arg.var_T)
                if pool:
                    cands.append({"method_name": "forall_elim", "goal_id": gid, "fact_ids": [str(f.id)], "s": rnd.choice(pool)})
                    break
            elif f.th.prop.is_exists():
                cands.append({"method_name": "exists_elim", "goal_id": gid, "fact_ids": [str(f.id)], "names": "e%d" % rnd.randint(0, 9)})
                break
        except Exception:
            pass
    if fsel:
        cands.append({"method_name": "revert_intro", "goal_id": gid, "fact_ids": fsel[:1]})
    rnd.shuffle(cands)
    return cands[:3]


def random_walks(out, thname, item, goal, state, idx, rnd, nwalks, maxdepth, extra=None):
    """seeded random walks from `state`: each operation is applied on a copy of the state before it and emits an event"""
    n = 0
    for w, first in enumerate(perturb_steps(state, rnd)[:nwalks]):
        cur = state
        for d in range(1, rnd.randint(1, maxdepth) + 1):
            moved = False
            for pst in ([first] if d == 1 else perturb_steps(cur, rnd)):
                context.set_context(None, vars=item.vars)
                trial, before, after, err = apply_on_copy(cur, pst)
                if trial is not None:
                    edit_event(out, thname, item, goal, trial, idx, "walk%d.%d" % (w, d), pst, (before, after), extra)
                    cur, moved, n = trial, True, n + 1
                    break
            if not moved:
                break
    return n


def run_edit(out, theories, rnd, n_per, max_steps=0):
    for thname, item in thm_iter(theories, rnd, n_per, max_steps):
        try:
            context.set_context(None, vars=item.vars)
            state = server.parse_init_state(item.prop)
        except Exception:
            continue
        goal = sid(state.prf.items[-1].th)
        edit_event(out, thname, item, goal, state, 0, "init", {}, None)
        snapshots = [copy.copy(state)]
        for idx, step in enumerate(item.steps, 1):
            context.set_context(None, vars=item.vars)
            # seeded perturbation from the current state: random walks of up to 4 operations, each on a copy of the state
            # before it, each emitting an event (the walk is dropped afterwards)
            if rnd.random() < 0.35:
                random_walks(out, thname, item, goal, state, idx, rnd, nwalks=2, maxdepth=4)
            context.set_context(None, vars=item.vars)
            if rnd.random() < 0.5:
                trial, before, after, err = apply_on_copy(state, step)
                if trial is None:
                    break
                state = trial
                edit_event(out, thname, item, goal, state, idx, "copy", step, (before, after))
            else:
                keep = copy.copy(state)
                try:
                    method.apply_method(state, step)
                    state.check_proof(compute_only=True)
                except Exception:
                    state = keep
                    break
                edit_event(out, thname, item, goal, state, idx, "live", step, None)
            snapshots.append(copy.copy(state))
        # ProofCache history (app/ide.py) for short proofs
        if 2 <= len(item.steps) <= 8 and rnd.random() < 0.5:
            cache_event(out, thname, item, rnd)


def cache_event(out, thname, item, rnd):
    from app import ide
    data = {"username": "master", "theory_name": thname, "thm_name": item.name, "vars": dict((k, str(v)) for k, v in item.vars.items()),
            "prop": None, "steps": list(item.steps)}
    try:
        with global_setting(unicode=True, highlight=False):
            from syntax import printer
            data["vars"] = {k: printer.print_type(v) for k, v in item.vars.items()}
            data["prop"] = printer.print_term(item.prop)
        saved = theory.thy
        cache = ide.ProofCache()
        cache.create_cache(data)
        before = [lines_of(s) for s in cache.states]
        index = rnd.randint(0, len(item.steps) - 1)
        new_step = dict(item.steps[index])
        cache.insert_step(index, new_step)
        after = [lines_of(s) for s in cache.states]
        # independent replay of the new step list
        cache2 = ide.ProofCache()
        data2 = dict(data)
        data2["steps"] = list(item.steps[:index]) + [new_step] + list(item.steps[index:])
        cache2.create_cache(data2)
        expect = [lines_of(s) for s in cache2.states]
        theory.thy = saved
        out.emit({"kind": "cache", "thm": "%s.%s" % (thname, item.name), "index": index, "before": before, "after": after,
                  "expect": expect, "key": "cache:%s.%s@%d" % (thname, item.name, index)})
    except Exception as e:
        sys.stderr.write("cache_event skipped: %s\n" % e)
    finally:
        try:
            theory.thy = saved
        except Exception:
            pass


# ------------------------------------------------------------------------------------ generated editing sessions
class GenItem:
    """stands for a library item in the events of a generated goal"""
    def __init__(self, name, vars_):
        self.name, self.vars = name, vars_


def gaps_of(state):
    return [it for it in flat(state.prf) if it.rule == "sorry"]


def fact_for(state, goal_it, pred, gaps_too=False):
    """id of the first line visible from the goal that satisfies pred"""
    for it in flat(state.prf):
        if it.th is not None and it.rule != "variable" and (gaps_too or it.rule != "sorry") and goal_it.id.can_depend_on(it.id) and pred(it):
            return str(it.id)
    return None


def on_gap(k, method_name, facts=(), allow_gap_facts=False, **params):
    """step maker: method on the k-th open gap (textual order); facts = predicates on lines selecting the cited facts"""
    def mk(state):
        gs = gaps_of(state)
        if k >= len(gs):
            return None
        fids = [fact_for(state, gs[k], pr, allow_gap_facts) for pr in facts]
        if any(f is None for f in fids):
            return None
        st = {"method_name": method_name, "goal_id": str(gs[k].id), "fact_ids": fids}
        st.update(params)
        return st
    return mk


def prop_is(txt):
    """predicate: the line states (under any hypotheses) the proposition printed as txt (ascii, no type annotations)"""
    def pr(it):
        with global_setting(unicode=False, highlight=False):
            return str(it.th.prop) == txt
    return pr


ATOMS = ["'a", "'b", "'c", "bool"]
BOUND = ["x", "y", "z", "k", "m", "n", "u", "v"]


def gen_sibling_binders(rnd, n):
    """conjunction of universally quantified conjuncts over the SAME bound name at DIFFERENT types; conjI backward, then
    introduction with that name in each sibling subproof (any order); conjuncts of the form F v & G v --> F v are then
    closed by a forward step whose result merges the inner gap away"""
    k = rnd.choice([2, 2, 3])
    tys = rnd.sample(ATOMS, k)
    nm = rnd.choice(BOUND)
    vars_, conj, forms = {}, [], []
    for i, T in enumerate(tys):
        F, G = "F%d" % i, "G%d" % i
        vars_[F], vars_[G] = "%s => bool" % T, "%s => bool" % T
        form = rnd.choice(["imp", "conjD", "bare"])
        forms.append(form)
        body = {"imp": "%s %s --> %s %s" % (F, nm, G, nm), "conjD": "%s %s & %s %s --> %s %s" % (F, nm, G, nm, F, nm),
                "bare": "%s %s" % (F, nm)}[form]
        conj.append("(!%s::%s. %s)" % (nm, T, body))
    script = [(on_gap(j, "apply_backward_step", theorem="conjI"), None) for j in range(k - 1)]
    order = list(range(k))
    rnd.shuffle(order)
    for j in order:
        script.append((on_gap(j, "introduction", names=nm), None))
    for j in order:
        if forms[j] == "conjD":
            script.append((on_gap(j, "apply_forward_step", facts=[prop_is("F%d %s & G%d %s" % (j, nm, j, nm))], theorem="conjD1"), None))
            break       # afterwards the ordinals of the gaps have moved
    return {"name": "sibling_binders_%d" % n, "shape": "sibling-binders", "vars": vars_, "prop": " & ".join(conj), "script": script,
            "shape_ok": sibling_binders}


def gen_exists_twice(rnd, n):
    """several existential assumptions; exists_elim on each of them IN THE SAME SCOPE: the first on the live state, the later
    ones on copies taken afterwards"""
    k = rnd.choice([2, 2, 3])
    vars_, assums = {}, []
    for i in range(k):
        T = rnd.choice(ATOMS)
        vars_["P%d" % i] = "%s => bool" % T
        b = rnd.choice(BOUND)
        assums.append("(?%s. P%d %s)" % (b, i, b))
    concl = rnd.choice(["R", "R", "?%s. P0 %s" % ("t", "t")])
    if concl == "R":
        vars_["R"] = "bool"
    order = list(range(k))
    rnd.shuffle(order)
    script = []
    for j, i in enumerate(order):
        script.append((on_gap(0, "exists_elim", facts=[prop_is(assums[i][1:-1])], names="c%d" % (10 * n % 7 + j)),
                       "live" if j == 0 else "copy"))

    def ok(state):
        return any(it.rule == "intros" and isinstance(it.args, list) and len(it.args) >= 2 for it in flat(state.prf))
    return {"name": "exists_twice_%d" % n, "shape": "exists-twice", "vars": vars_, "prop": " --> ".join(assums + [concl]),
            "script": script, "shape_ok": ok}


def gen_cut_merged(rnd, n):
    """cut an intermediate goal G, turn the LATER goal into a subproof (introduction): its closing line now cites G's line;
    then establish G by forward steps from an assumption: the result states G, so G's line is merged away (replace_id) and
    the citation inside the sibling subproof must follow.  Optionally the whole thing sits inside an outer subproof."""
    vars_ = {"A": "bool", "B": "bool", "C": "bool", "D": "bool"}
    target = rnd.choice(["A", "B"])
    nested = rnd.random() < 0.4
    pair = rnd.choice(["A & B", "B & A"])
    assum = "(%s) & D" % pair if nested else pair
    T, T2 = rnd.choice(ATOMS), rnd.choice(ATOMS)
    x, z = rnd.sample(BOUND, 2)
    later = rnd.choice(["!%s::%s. C --> %s", "!%s::%s. C --> D --> %s", "!%s::%s. %s"]) % (x, T, target)
    wrap = rnd.random() < 0.4
    prop = "%s --> (%s)" % (assum, later)
    if wrap:
        prop = "!%s::%s. %s" % (z, T2, prop)
    script = []
    if wrap:
        script.append((on_gap(0, "introduction", names=z), None))
    script.append((on_gap(0, "cut", goal=target), None))
    script.append((on_gap(1, "introduction", names=x), None))
    if nested:
        script.append((on_gap(0, "apply_forward_step", facts=[prop_is(assum)], theorem="conjD1"), None))
    script.append((on_gap(0, "apply_forward_step", facts=[prop_is(pair)], theorem="conjD1" if pair.startswith(target) else "conjD2"), None))

    def ok(state):
        # no gap left, and a line inside a block cites a forward step outside of it
        fw = [it.id for it in flat(state.prf) if it.rule == "apply_theorem"]
        return not gaps_of(state) and any(len(it.id.id) > len(f.id) and f in it.prevs for it in flat(state.prf) for f in fw)
    return {"name": "cut_merged_%d" % n, "shape": "cut-merged", "vars": vars_, "prop": prop, "script": script, "shape_ok": ok}


WALK_GOALS = [
    ({"P": "'a => bool", "Q": "'a => bool", "R": "'a => bool"}, "(?x. P x & Q x) --> (!y. P y --> R y) --> (?z. R z)"),
    ({"P": "'a => bool", "Q": "'b => bool"}, "(!x. P x) & (!x. Q x) --> (!y. P y) & (!y. Q y)"),
    ({"P": "'a => bool", "A": "bool", "B": "bool"}, "(A | B) --> (A --> (?x. P x)) --> (B --> (?x. P x)) --> (?x. P x)"),
    ({"P": "'a => 'b => bool"}, "(?x. !y. P x y) --> (!y. ?x. P x y)"),
    ({"A": "bool", "B": "bool", "C": "bool"}, "(A --> B) --> (B --> C) --> A --> C"),
    ({"P": "'a => bool", "Q": "'a => bool"}, "(!x. P x --> Q x) --> (?x. P x) --> (?x. Q x)"),
    ({"A": "bool", "B": "bool"}, "A & B --> B & A"),
    ({"A": "bool", "B": "bool"}, "A | B --> B | A"),
]


def gen_walk(rnd, n):
    vars_, prop = rnd.choice(WALK_GOALS)
    return {"name": "walk_%d" % n, "shape": "walk", "vars": dict(vars_), "prop": prop,
            "script": [(on_gap(0, "introduction", names="a1, a2"), None)] if rnd.random() < 0.5 else [], "shape_ok": lambda st: True}


def nested_exists(bounds, body):
    t = body
    for b in reversed(bounds):
        t = "?%s. %s" % (b, t)
    return t


def gen_exists_nested(rnd, n):
    """exists_elim with 1..d names on an existential fact nested d deep (d = 1..3), optionally a second exists_elim on what is
    left; variants put other lines between the goal and the closing intros first: `between` = cut an intermediate goal and
    turn the LATER goal into a subproof (introduction) before eliminating on the cut goal; `two-goals` = eliminate on the later
    goal first (its variable / assume lines then sit after the cut goal), then on the cut goal"""
    d = rnd.choice([1, 2, 2, 3])
    k = rnd.randint(1, d)
    bs = rnd.sample(BOUND, d)
    tys = [rnd.choice(ATOMS[:3]) for _ in range(d)]
    vars_ = {"P": " => ".join(tys + ["bool"]), "R": "bool", "P2": "%s => bool" % tys[0]}
    ex = nested_exists(bs, "P " + " ".join(bs))
    ex2 = "?%s. P2 %s" % (bs[0], bs[0])
    variant = rnd.choice(["plain", "plain", "between", "two-goals"])
    w = [b for b in BOUND if b not in bs][0]
    names = ["e%d" % i for i in range(d)]
    script = []
    if variant == "plain":
        prop = "(%s) --> R" % ex
        script.append((on_gap(0, "exists_elim", facts=[prop_is(ex)], names=", ".join(names[:k])), None))
        if k < d:
            rest = nested_exists(bs[k:], "P " + " ".join(names[:k] + bs[k:]))
            script.append((on_gap(0, "exists_elim", facts=[prop_is(rest)], names=", ".join(names[k:])), None))
    elif variant == "between":
        prop = "(%s) --> (!%s::%s. R)" % (ex, w, tys[0])
        script.append((on_gap(0, "cut", goal="R"), None))
        script.append((on_gap(1, "introduction", names=w), None))
        script.append((on_gap(0, "exists_elim", facts=[prop_is(ex)], names=", ".join(names[:k])), None))
    else:
        prop = "(%s) --> (%s) --> R" % (ex, ex2)
        script.append((on_gap(0, "cut", goal="R"), None))
        script.append((on_gap(1, "exists_elim", facts=[prop_is(ex2)], names="f0"), None))
        script.append((on_gap(0, "exists_elim", facts=[prop_is(ex)], names=", ".join(names[:k])), None))

    def ok(state):
        return sum(1 for it in flat(state.prf) if it.rule == "variable") >= (k if variant != "two-goals" else k + 1)
    return {"name": "exists_nested_%d" % n, "shape": "exists-nested:%s:%s" % (variant, "multi" if k > 1 else "single"), "vars": vars_,
            "prop": prop, "script": script, "shape_ok": ok}


def gen_intro_known(rnd, n):
    """introduction on a goal A --> B whose antecedent A is already the statement of an earlier visible line: a hypothesis-free
    line (a cut, possibly proved since), a fact DERIVED from other assumptions, or an enclosing assumption"""
    variant = rnd.choice(["free-cut", "free-proved", "derived", "assumed"])
    if variant in ("free-cut", "free-proved"):
        vars_ = {"A": "bool", "B": "bool", "C": "bool"}
        L = rnd.choice(["A --> A", "A | ~A", "A --> B --> A"])
        G = rnd.choice(["B | ~B", "C --> C", "B"])
        prop = G if not G.startswith("C") else "B --> (C --> C)"
        goal_txt = prop if not G.startswith("C") else "C --> C"
        script = [(on_gap(0, "cut", goal=L), None), (on_gap(1, "cut", goal="(%s) --> %s" % (L, goal_txt)), None)]
        if variant == "free-proved" and L != "A | ~A":
            script.append((on_gap(0, "introduction", names=""), None))
            script.append((on_gap(0, "introduction", names=""), None))   # the inner gap of the first one is closed: ordinal 0 is the second cut
        else:
            script.append((on_gap(1, "introduction", names=""), None))
    elif variant == "derived":
        vars_ = {"A": "bool", "C": "bool", "D": "bool"}
        tail = rnd.choice(["A & C", "C & A", "A"])
        prop = "C --> (C --> A) --> ((A --> %s) --> D) --> D" % tail
        script = [(on_gap(0, "apply_fact", facts=[prop_is("C --> A"), prop_is("C")]), None),
                  (on_gap(0, "apply_prev", facts=[prop_is("(A --> %s) --> D" % tail)]), None),
                  (on_gap(0, "introduction", names=""), None)]
    else:
        vars_ = {"A": "bool", "B": "bool", "C": "bool"}
        prop = "A --> ((A --> B) --> C) --> C"
        script = [(on_gap(0, "cut", goal="A --> B"), None), (on_gap(0, "introduction", names=""), None)]
    return {"name": "intro_known_%d" % n, "shape": "intro-known:" + variant, "vars": vars_, "prop": prop, "script": script,
            "shape_ok": lambda st: any(it.rule == "subproof" for it in flat(st.prf))}


def gen_redex_fact(rnd, n):
    """a selected fact contains a beta-redex the user typed (as an assumption, or through a cut), and a forward step uses it"""
    T = rnd.choice(ATOMS[:3])
    x = rnd.choice(BOUND)
    vars_ = {"P": "%s => bool" % T, "a": T, "B": "bool", "C": "bool"}
    redex = "(%%%s. P %s) a" % (x, x)
    shape, thm = rnd.choice([("%s | B", "force_disj_true1"), ("%s | ~B", "force_disj_true2"), ("%s & B", "conjD1"), ("B & %s", "conjD2")])
    fact = shape % redex
    other = {"force_disj_true1": "~B", "force_disj_true2": "B"}.get(thm)
    via_cut = rnd.random() < 0.4
    assums = ([] if via_cut else [fact]) + ([other] if other else [])
    prop = " --> ".join(["(%s)" % a for a in assums] + ["P a"]) if assums else "P a"
    script = []
    if via_cut:
        script.append((on_gap(0, "cut", goal=fact), None))
    facts = [prop_is(fact)] + ([prop_is(other)] if other else [])
    script.append((on_gap(1 if via_cut else 0, "apply_forward_step", facts=facts, theorem=thm, allow_gap_facts=True), None))
    return {"name": "redex_fact_%d" % n, "shape": "redex-fact", "vars": vars_, "prop": prop, "script": script,
            "shape_ok": lambda st: any(it.rule == "apply_theorem" for it in flat(st.prf))}


def arith_expr(rnd, depth):
    """(text, value) of a closed expression on nat: numerals, + * Suc and truncated subtraction"""
    if depth == 0 or rnd.random() < 0.25:
        v = rnd.randint(0, 6)
        return str(v), v
    op = rnd.choice(["+", "+", "*", "-", "-", "Suc"])
    a, va = arith_expr(rnd, depth - 1)
    if op == "Suc":
        return "Suc (%s)" % a, va + 1
    b, vb = arith_expr(rnd, depth - 1)
    return "(%s %s %s)" % (a, op, b), {"+": va + vb, "*": va * vb, "-": max(va - vb, 0)}[op]


def gen_closed_arith(rnd, n):
    """closed equations on natural numbers (theory nat), true and false ones, with + * Suc and truncated subtraction"""
    lhs, v = arith_expr(rnd, 2)
    kind = rnd.choice(["value", "value", "expr", "false"])
    if kind == "expr":
        for _ in range(30):
            rhs, v2 = arith_expr(rnd, 2)
            if v2 == v:
                break
        else:
            rhs = str(v)
    else:
        rhs = str(v if kind == "value" else v + 1)
    import re
    prop = "%s = %s" % (re.sub(r"\b(\d+)\b", r"(\1::nat)", lhs, count=1), rhs)      # the first numeral carries the type
    return {"name": "closed_arith_%d" % n, "shape": "closed-arith", "theory": "nat", "vars": {}, "prop": prop, "script": [],
            "shape_ok": lambda st: True}


def gen_shadow(rnd, n):
    """a block variable SHADOWS a theorem variable of the same name at another type (introduction with the clashing name),
    then steps inside the block whose parameters mention that variable: induction on it, forall_elim / inst_exists_goal with
    it, a cut stated with it (theory nat)"""
    x = rnd.choice(BOUND)
    outerT = rnd.choice(["bool", "nat => bool", "'a"])
    vars_ = {x: outerT, "Q": "nat => bool", "A": "bool"}
    kind = rnd.choice(["induct", "induct", "forall", "exists", "cut"])
    assum = x if outerT == "bool" else "A"
    if kind == "induct":
        body = rnd.choice(["even (%s * (%s + 1))", "%s + 0 = %s", "0 + %s = %s", "%s * 1 = %s"]).replace("%s", x)
        prop = "%s --> (!%s::nat. %s)" % (assum, x, body)
        tail = [(on_gap(0, "induction", theorem="nat_induct", var=x), None)]
    elif kind == "forall":
        prop = "%s --> (!m::nat. Q m) --> (!%s::nat. Q %s)" % (assum, x, x)
        tail = [(on_gap(0, "forall_elim", facts=[prop_is("!m. Q m")], s=x), None)]
    elif kind == "exists":
        prop = "%s --> (!%s::nat. ?m::nat. m = %s)" % (assum, x, x)
        tail = [(on_gap(0, "inst_exists_goal", s=x), None)]
    else:
        prop = "%s --> (!%s::nat. Q %s)" % (assum, x, x)
        tail = [(on_gap(0, "cut", goal="Q (%s + 0)" % x), None)]
    script = [(on_gap(0, "introduction", names=x), None)] + tail
    return {"name": "shadow_%d" % n, "shape": "shadow:" + kind, "theory": "nat", "vars": vars_, "prop": prop, "script": script,
            "shape_ok": lambda st: any(it.rule == "variable" and it.args and it.args[0] == x for it in flat(st.prf))}


GENERATORS = [gen_sibling_binders, gen_exists_twice, gen_cut_merged, gen_walk, gen_exists_nested, gen_intro_known, gen_redex_fact,
              gen_closed_arith, gen_shadow]


def make_session(rnd, n):
    sess = GENERATORS[n % len(GENERATORS)](rnd, n)
    sess.setdefault("theory", "logic")
    return sess


def run_sessions(out, rnd, nsess):
    """generated editing sessions (theory logic / nat); a session whose step raises ends there (the property is conditional)"""
    for n in range(nsess):
        sess = make_session(rnd, n)
        basic.load_theory(sess["theory"])
        item = GenItem(sess["name"], sess["vars"])
        extra = {"session": sess["name"], "shape": sess["shape"], "done": False, "shape_ok": False}
        try:
            context.set_context(None, vars=item.vars)
            state = server.parse_init_state(sess["prop"])
        except Exception as e:
            sys.stderr.write("session %s: goal not stated: %s %s\n" % (sess["name"], sess["prop"], e))
            continue
        goal = sid(state.prf.items[-1].th)
        if not sess["script"]:
            extra["done"], extra["shape_ok"] = True, True
        edit_event(out, "gen", item, goal, state, 0, "init", {}, None, extra)
        extra = dict(extra, done=False, shape_ok=False)
        for idx, (mk, route) in enumerate(sess["script"], 1):
            context.set_context(None, vars=item.vars)
            step = mk(state)
            if step is None:
                sys.stderr.write("session %s step %d: not applicable\n" % (sess["name"], idx))
                break
            last = idx == len(sess["script"])
            route = route or rnd.choice(["live", "copy"])
            if route == "copy":
                trial, before, after, err = apply_on_copy(state, step)
                if trial is None:
                    sys.stderr.write("session %s step %d raised: %r\n" % (sess["name"], idx, err))
                    break
                state, info = trial, (before, after)
            else:
                keep = copy.copy(state)
                try:
                    method.apply_method(state, step)
                    state.check_proof(compute_only=True)
                except Exception as err:
                    sys.stderr.write("session %s step %d raised: %r\n" % (sess["name"], idx, err))
                    state = keep
                    break
                info = None
            ex = dict(extra)
            if last:
                ex["done"], ex["shape_ok"] = True, bool(sess["shape_ok"](state))
            edit_event(out, "gen", item, goal, state, idx, route, step, info, ex)
        # seeded random walks from wherever the session got to
        context.set_context(None, vars=item.vars)
        random_walks(out, "gen", item, goal, state, len(sess["script"]) + 1, rnd, nwalks=2 if sess["shape"] in ("walk", "closed-arith") else 1,
                     maxdepth=4, extra=extra)


# ------------------------------------------------------------------------------------ line edits (spec -> code)
LE_RULE = "fact"      # any rule name: with a stated sequent the editing functions' check_proof(compute_only=True) skips the line


def le_uid(it):
    return it.args if isinstance(it.args, int) and not isinstance(it.args, bool) else -1


def le_project(state):
    return [[ids(it.id), le_uid(it), [ids(p) for p in it.prevs]] for it in flat(state.prf)]


def le_build(lines):
    """a real ProofState whose lines mirror the abstract proof: line = ProofItem with a distinct stated sequent; a block is an
    item with rule `subproof`; the ghost uid rides in `args` (kept by ProofItem.__copy__, not looked at by the line edits)"""
    from kernel.proof import ProofItem, Proof
    from kernel.term import Var
    from kernel.type import BoolType
    st = method.ProofState()
    for i, (id_, uid, prevs) in enumerate(lines):
        block = i + 1 < len(lines) and lines[i + 1][0] == list(id_) + [0]
        it = ProofItem(ItemID(tuple(id_)), "subproof" if block else LE_RULE, args=uid, prevs=[tuple(p) for p in prevs],
                       th=Thm(Var("u%d" % uid, BoolType)))
        if block:
            it.subproof = Proof()
        st.prf.insert_item(it)
    st.check_proof(compute_only=True)
    return st


def le_apply(state, op, next_uid):
    name, a, b = op[0], ItemID(tuple(op[1])), ItemID(tuple(op[2]))
    if name == "add":
        state.add_line_before(a, 1)
        state.get_proof_item(a).args = next_uid          # ghost identity of the new line
    elif name == "remove":
        state.remove_line(a)
    elif name == "replace":
        state.replace_id(a, b)
    elif name == "cite":
        it = state.get_proof_item(a)
        if it.subproof is not None:
            it.prevs = it.prevs + [b]                    # a block keeps its lines: edited in place, as the methods do
            state.check_proof(compute_only=True)
        else:
            state.set_line(a, it.rule, args=it.args, prevs=it.prevs + [b], th=it.th)
    else:
        raise ValueError(name)


def seqj(x):
    """TLC prints an empty function as {} and a sequence as [...]"""
    if isinstance(x, dict):
        if all(k.isdigit() for k in x):
            return [seqj(x[k]) for k in sorted(x, key=int)]
        return {k: seqj(v) for k, v in x.items()}
    if isinstance(x, list):
        return [seqj(y) for y in x]
    return x


def run_lineedit(out, vec_path, rnd):
    theory.thy = theory.EmptyTheory()
    nvec = 0
    for ln in open(vec_path, errors="replace"):
        if not ln.startswith('<<"LE", '):
            continue
        vec = json.loads(json.loads(ln.strip()[len('<<"LE", '):-2]))
        init, steps, log_all = seqj(vec["init"]), seqj(vec["steps"]), vec["log"] == "all"
        if not steps:
            continue
        nvec += 1
        state = le_build(init)
        next_uid = max(l[1] for l in init) + 1
        path = []
        for si, stp in enumerate(steps):
            op = seqj(stp["op"])
            path.append(op[0] + ".".join(map(str, op[1])) + ("_" + ".".join(map(str, op[2])) if op[2] else ""))
            before = le_project(state)
            on_copy = rnd.random() < 0.5
            target = copy.copy(state) if on_copy else state
            exc = ""
            try:
                le_apply(target, op, next_uid)
            except Exception as e:
                exc = type(e).__name__ + ": " + str(e)[:80]
            if op[0] == "add":
                next_uid += 1
            if log_all or si == len(steps) - 1 or exc:
                out.emit({"kind": "lineedit", "op": op, "before": before, "after": le_project(target), "expect": seqj(stp["after"]),
                          "raised": bool(exc), "exc": exc, "copy": [on_copy, before if on_copy else [], le_project(state) if on_copy else []],
                          "nlines": len(init), "depth": si + 1, "key": "lineedit:%d:%s" % (len(init), ">".join(path))})
            if exc:
                break
            state = target
    return nvec


# --------------------------------------------------------------------------------------------------- C14
def run_suggest(out, theories, rnd, n_per):
    for thname, item in thm_iter(theories, rnd, n_per):
        try:
            context.set_context(None, vars=item.vars)
            state = server.parse_init_state(item.prop)
        except Exception:
            continue
        for idx, step in enumerate(item.steps):
            context.set_context(None, vars=item.vars)
            gaps = [it for it in flat(state.prf) if it.rule == "sorry"]
            # the property speaks about a selected GOAL: only open gaps are queried (a recorded forward step may name a proved line)
            queries = []
            if any(str(g.id) == str(step["goal_id"]) for g in gaps):
                queries.append((step["goal_id"], list(step.get("fact_ids", []) or []), True))
            if gaps and rnd.random() < 0.5:
                g = rnd.choice(gaps)
                facts = [it for it in flat(state.prf) if it.th is not None and it.rule not in ("sorry", "variable") and g.id.can_depend_on(it.id)]
                fs = [str(f.id) for f in rnd.sample(facts, min(len(facts), rnd.choice([0, 1, 2])))]
                queries.append((str(g.id), fs, False))
            for gid, fids, recorded in queries:
                try:
                    res = state.search_method(gid, fids)
                except Exception as e:
                    out.emit({"kind": "search_fail", "thm": "%s.%s" % (thname, item.name), "step": idx, "exc": type(e).__name__,
                              "key": "search:%s.%s#%d" % (thname, item.name, idx)})
                    continue
                for r in res[:10]:
                    suggest_event(out, thname, item, state, idx, gid, r, step if recorded else None, rnd)
            context.set_context(None, vars=item.vars)
            RECHECK_BEFORE.clear()           # the state object is edited in place
            try:
                method.apply_method(state, step)
                state.check_proof(compute_only=True)
            except Exception:
                break


def random_query(state, rnd, gaps_as_facts=0.3):
    """a seeded choice of goal line and fact lines: an open gap, 0-2 lines visible from it (now and then a gap: a cut is used
    as a fact by the lines after it)"""
    gaps = gaps_of(state)
    if not gaps:
        return None
    g = rnd.choice(gaps)
    facts = [it for it in flat(state.prf) if it.th is not None and it.rule != "variable" and g.id.can_depend_on(it.id)
             and (it.rule != "sorry" or rnd.random() < gaps_as_facts)]
    return str(g.id), [str(f.id) for f in rnd.sample(facts, min(len(facts), rnd.choice([0, 1, 1, 2])))]


def query_state(out, item, state, idx, rnd, queries):
    """every suggestion of every query applied on a copy; returns the states reached by the successful ones"""
    reached = []
    for gid, fids, rec in queries:
        context.set_context(None, vars=item.vars)
        try:
            res = state.search_method(gid, fids)
        except Exception as e:
            out.emit({"kind": "search_fail", "thm": "gen.%s" % item.name, "step": idx, "exc": type(e).__name__,
                      "key": "search:gen.%s#%d" % (item.name, idx)})
            continue
        for r in res[:10]:
            t = suggest_event(out, "gen", item, state, idx, gid, r, rec, rnd)
            if t is not None:
                reached.append(t)
    return reached


def run_suggest_sessions(out, rnd, nsess):
    """generated states: along every generated editing session (the sessions of mode edit), and along a search-driven walk from
    its end, search_method on the scripted and on seeded other selections; every suggestion applied on a copy"""
    for n in range(nsess):
        sess = make_session(rnd, n)
        basic.load_theory(sess["theory"])
        item = GenItem(sess["name"], sess["vars"])
        try:
            context.set_context(None, vars=item.vars)
            state = server.parse_init_state(sess["prop"])
        except Exception as e:
            sys.stderr.write("session %s: goal not stated: %s\n" % (sess["name"], e))
            continue
        idx = 0
        for mk, _ in sess["script"]:
            context.set_context(None, vars=item.vars)
            step = mk(state)
            if step is None:
                break
            queries = [(step["goal_id"], list(step["fact_ids"]), step)]
            q = random_query(state, rnd)
            if q and (q[0], q[1]) != (queries[0][0], queries[0][1]):
                queries.append((q[0], q[1], None))
            query_state(out, item, state, idx, rnd, queries)
            context.set_context(None, vars=item.vars)
            RECHECK_BEFORE.clear()           # the state object is edited in place
            try:
                method.apply_method(state, step)
                state.check_proof(compute_only=True)
            except Exception:
                break
            idx += 1
        # search-driven walk: the next state is one reached by a suggestion
        for d in range(3):
            qs = [q for q in (random_query(state, rnd), random_query(state, rnd)) if q]
            if not qs:
                break
            reached = query_state(out, item, state, idx, rnd, [(q[0], q[1], None) for q in dict.fromkeys((q[0], tuple(q[1])) for q in qs)])
            if not reached:
                break
            state = rnd.choice(reached)
            idx += 1


RECHECK_BEFORE = {}


def fresh_names(state, gid, n, stem="s"):
    # fresh in the whole proof: a name declared by a LATER variable line of the block would clash too (exists_elim only looks
    # at the names visible from the goal; a clash with a later declaration leaves an intros step that cannot be checked)
    used = set(state.get_vars(gid)) | {it.args[0] for it in flat(state.prf) if it.rule == "variable" and it.args}
    out, i = [], 0
    while len(out) < n:
        if "%s%d" % (stem, i) not in used:
            out.append("%s%d" % (stem, i))
        i += 1
    return out


def supply_params(state, gid, r, mname, open_params, rnd):
    """the declared parameters a suggestion leaves open, supplied from the state (names: fresh ones, as many as the fact has
    leading existential quantifiers or fewer; terms: a visible variable of the bound variable's type); None = cannot supply"""
    out = {}
    for p in open_params:
        try:
            if mname == "exists_elim" and p == "names":
                t, d = state.get_proof_item(ItemID(r["fact_ids"][0])).th.prop, 0
                while t.is_exists():
                    t, d = t.arg.body, d + 1
                out[p] = ", ".join(fresh_names(state, gid, rnd.randint(1, d)))
            elif mname in ("forall_elim", "inst_exists_goal") and p == "s":
                src = state.get_proof_item(ItemID(r["fact_ids"][0] if mname == "forall_elim" else gid)).th.prop
                pool = sorted(nm for nm, T in state.get_vars(gid).items() if T == src.arg.var_T)
                if not pool:
                    return None
                out[p] = rnd.choice(pool)
            else:
                return None
        except Exception:
            return None
    return out


def suggest_event(out, thname, item, state, idx, gid, r, rec_step, rnd=None, more=None):
    """one suggestion applied on a copy; returns the new state when that succeeded.  `more` = further named parameters asked
    for by a first application (then this is the second application, with them supplied)"""
    context.set_context(None, vars=item.vars)
    mname = r["method_name"]
    sig = list(method.global_methods[mname].sig)
    given = {k: v for k, v in r.items() if not k.startswith("_") and k not in ("display", "method_name", "goal_id", "fact_ids")}
    st = dict(given)
    st.update({"method_name": mname, "goal_id": gid, "fact_ids": list(r.get("fact_ids", []))})
    open_params = [p for p in sig if p not in given]
    supplied_from = "none"
    result = None
    if more:
        st.update(more)
        supplied_from = "asked-then-generated"
    if open_params:
        gen = None
        if rec_step is not None and rec_step["method_name"] == mname and all(rec_step.get(k) == v for k, v in given.items()) \
                and list(rec_step.get("fact_ids", []) or []) == st["fact_ids"] and all(p in rec_step for p in open_params):
            for k, v in rec_step.items():
                if k not in st:
                    st[k] = v
            supplied_from = "recorded"
        elif rnd is not None and (gen := supply_params(state, gid, r, mname, open_params, rnd)) is not None:
            st.update(gen)
            supplied_from = "generated"
        else:
            supplied_from = "unsupplied"
    before_gaps = [[ids(it.id), sid(it.th), tid_of(it.th.prop)] for it in flat(state.prf) if it.rule == "sorry"]
    before_lines = lines_of(state)
    adv_goal = [tid_of(t) for t in r["_goal"]] if "_goal" in r else None
    adv_fact = [tid_of(t) for t in r["_fact"]] if "_fact" in r else None
    ev = {"kind": "suggest", "thm": "%s.%s" % (thname, item.name), "step": idx, "method": mname, "sig": sig, "given": sorted(given),
          "supplied_from": supplied_from, "has_goal": adv_goal is not None, "adv_goal": adv_goal or [], "has_fact": adv_fact is not None,
          "adv_fact": adv_fact or [], "goal_line": ids(gid), "fact_ids": [str(f) for f in r.get("fact_ids", [])]}
    if supplied_from == "unsupplied":
        ev.update({"outcome": "notapplied", "query": [], "query_other": [], "new_gaps": [], "after_props": [], "before_props": [], "exc": ""})
    else:
        trial = copy.copy(state)
        try:
            method.apply_method(trial, st)
            trial.check_proof(compute_only=True)
            ev["outcome"] = "success"
            result = trial
            old = sorted(g[1] for g in before_gaps)
            goal_sid = [g[1] for g in before_gaps if g[0] == ids(gid)]
            rest = list(old)
            for g in goal_sid[:1]:
                rest.remove(g)
            new = sorted(sid(it.th) for it in flat(trial.prf) if it.rule == "sorry")
            # gaps of the new state that were not already open (other than the selected goal): multiset difference
            for g in rest:
                if g in new:
                    new.remove(g)
            new_gap_props = []
            pool = [(sid(it.th), tid_of(it.th.prop)) for it in flat(trial.prf) if it.rule == "sorry"]
            for s in new:
                for k, (s2, p2) in enumerate(pool):
                    if s2 == s:
                        new_gap_props.append(p2)
                        pool.pop(k)
                        break
            ev["new_gaps"] = new_gap_props
            ev["after_props"] = [[p[1] != "sorry", p[2]] for p in props_of(trial)]
            ev["before_props"] = [[p[1] != "sorry", p[2]] for p in props_of(state)]
            ev["query"], ev["query_other"], ev["exc"] = [], [], ""
            # "closed" means proved: the state before and the state after are put through the full check (every derived step is
            # expanded); gaps are allowed
            rb = RECHECK_BEFORE.get(id(state))
            if rb is None or rb[0] is not state:
                rb = (state, recheck(state))
                RECHECK_BEFORE.clear()
                RECHECK_BEFORE[id(state)] = rb
            ev["recheck_before"] = rb[1][0]
            ra = recheck(trial) if rb[1][0] else [True, [], -1, ""]
            ev["recheck_after"], ev["recheck_exc"] = ra[0], ra[3]
        except theory.ParameterQueryException as e:
            ev["outcome"] = "query"
            ev["query"] = [p for p in e.params if p.startswith("param_")]
            ev["query_other"] = [p for p in e.params if not p.startswith("param_")]
            ev.update({"new_gaps": [], "after_props": [], "before_props": [], "exc": ""})
        except Exception as e:
            ev["outcome"] = "fail"
            ev["exc"] = type(e).__name__ + ": " + str(e)[:120]
            ev.update({"query": [], "query_other": [], "new_gaps": [], "after_props": [], "before_props": []})
    ev["orig_unchanged"] = lines_of(state) == before_lines
    ev["key"] = "%s#%d:%s<-%s:%s:%s%s" % (ev["thm"], idx, gid, ",".join(ev["fact_ids"]), mname, json.dumps(given, sort_keys=True, default=str)[:80],
                                         "+asked" if more else "")
    ev["supplied"] = {k: str(v) for k, v in st.items() if k not in given and k not in ("method_name", "goal_id", "fact_ids")}
    out.emit(ev)
    # "succeeds or asks for further named parameters": introduction asks for the names of the variables it introduces; with
    # fresh names supplied the suggestion is applied again
    if rnd is not None and not more and ev["outcome"] == "query" and ev["query_other"] == ["names"] and mname == "introduction":
        try:
            t, d = state.get_proof_item(ItemID(gid)).th.prop, 0
            while t.is_forall():
                t, d = t.arg.body, d + 1
            return suggest_event(out, thname, item, state, idx, gid, r, rec_step, rnd, more={"names": ", ".join(fresh_names(state, gid, d, "n"))})
        except Exception as e:
            sys.stderr.write("introduction follow-up skipped: %r\n" % e)
    return result


if __name__ == "__main__":
    mode = sys.argv[1]
    if mode == "lineedit":
        out = Out(sys.argv[3])
        n = run_lineedit(out, sys.argv[2], random.Random(int(sys.argv[4]) if len(sys.argv) > 4 else 0))
        out.f.close()
        print(mode, "vectors", n, "events", out.tid)
        sys.exit(0)
    path, seed_, n_per = sys.argv[2], int(sys.argv[3]), int(sys.argv[4])
    theories = [t for t in sys.argv[5].split(",") if t and t != "-"]
    rnd = random.Random(seed_)
    out = Out(path)
    if mode == "edit":
        run_edit(out, theories, rnd, n_per, int(sys.argv[7]) if len(sys.argv) > 7 else 0)
        if len(sys.argv) > 6 and int(sys.argv[6]) > 0:
            run_sessions(out, random.Random(seed_ + 1), int(sys.argv[6]))
    else:
        run_suggest(out, theories, rnd, n_per)
        if len(sys.argv) > 6 and int(sys.argv[6]) > 0:
            run_suggest_sessions(out, random.Random(seed_ + 1), int(sys.argv[6]))
    out.f.close()
    print(mode, "events", out.tid)
