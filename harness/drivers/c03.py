"""C03 driver: term operations, equality/hash/ordering, and heap histories on the real kernel/term.py.

modes
  ops  <vectors.ndjson> <out.ndjson>        every TLC-generated operation vector is performed on real terms
                                            (built twice: all-fresh objects / shared sub-objects)
  eq   <vectors.ndjson> <out.ndjson> <n> <seed>   equality / hash / fast_compare events on pairs and triples
  heap <out.ndjson> <nhist> <seed>          histories of object creation / copy-construction / garbage collection /
                                            address reuse, each action logged (trace validated against C03_Heap)
  share <vectors.ndjson> <out.ndjson>       every history emitted by C03_Share (builds creating SHARED sub-objects, hashes,
                                            one Term.subst_type_inplace) is performed on real Term objects with the same sharing;
                                            projected state before / after (trace validated against C03_ShareTrace)
No verdict is computed here.
"""
import copy
import gc
import json
import random
import sys

from kernel.type import Type, TVar, STVar, TConst, TFun, BoolType, TyInst
from kernel.term import Term, Var, SVar, Const, Comb, Abs, Bound, Inst, Lambda
from kernel import term_ord
from kernel import theory

from harness.codec import enc, encT, dec, decT
from harness.core import digest

theory.thy = theory.EmptyTheory()
NONE = ["none"]


def build(j, memo=None):
    """Real Term from codec JSON; with memo: structurally identical sub-terms become the SAME object."""
    if memo is None:
        return dec(j)
    key = json.dumps(j)
    if key in memo:
        return memo[key]
    k = j[0]
    if k == "comb":
        r = Comb(build(j[1], memo), build(j[2], memo))
    elif k == "abs":
        r = Abs("x", decT(j[1]), build(j[2], memo))
    else:
        r = dec(j)
    memo[key] = r
    return r


def outcome_of(f):
    try:
        return "ok", f()
    except Exception as e:
        return "raised:" + type(e).__name__, None


def ops(vec_path, out_path):
    out = open(out_path, "w")
    tid = 0
    for ln in open(vec_path):
        ln = ln.strip()
        if not ln:
            continue
        v = json.loads(ln)
        for route in ("fresh", "shared"):
            memo = {} if route == "shared" else None
            t = build(v["t"], memo)
            op = v["op"]
            calls = []
            if op == "beta_norm":
                calls.append(("beta_norm", lambda: t.beta_norm()))
                if v["t"][0] == "comb" and v["t"][1][0] == "abs":
                    calls.append(("beta_conv+norm", lambda: t.beta_conv().beta_norm()))
            elif op == "subst_bound":
                u = build(v["u"], memo)
                calls.append(("subst_bound", lambda: t.subst_bound(u)))
            elif op == "abstract_over":
                x = build(v["v"], memo)
                calls.append(("abstract_over", lambda: t.abstract_over(x)))
                calls.append(("Lambda.body", lambda: Lambda(x, t).body))
            elif op == "subst_type":
                ti = TyInst(**{k: decT(T) for k, T in v["ty"]})
                calls.append(("subst_type", lambda: t.subst_type(ti)))

                def inplace():
                    t2 = copy.copy(t)
                    hash(t2)                      # memoise the hash first (history)
                    t2.subst_type_inplace(ti)
                    return t2
                calls.append(("subst_type_inplace", inplace))
                if route == "shared":
                    def inplace_shared():
                        t3 = build(v["t"], {})        # structurally identical sub-terms are ONE object; no rebuilding copy
                        hash(t3)
                        t3.subst_type_inplace(ti)
                        return t3
                    calls.append(("subst_type_inplace_shared", inplace_shared))
            elif op == "subst":
                def mk():
                    inst = Inst()
                    for k, T in v["ty"]:
                        inst.tyinst[k] = decT(T)
                    for k, s in v["sv"]:
                        inst[k] = build(s, memo)
                    return inst
                calls.append(("subst", lambda: t.subst(mk())))
                calls.append(("subst_norm", lambda: t.subst_norm(mk())))
            for name, f in calls:
                oc, r = outcome_of(f)
                tid += 1
                ev = dict(v)
                ev.update({"tid": tid, "kind": "op", "route": route, "call": name, "outcome": oc,
                           "r": enc(r) if r is not None else NONE})
                if name == "subst_norm":
                    ev["op"] = "subst_norm"
                ev["key"] = "%s:%s:%s" % (route, name, digest([v]))
                out.write(json.dumps(ev, separators=(",", ":")) + "\n")
                if name in ("subst_type_inplace", "subst_type_inplace_shared") and r is not None:
                    # history: hash memoised BEFORE the in-place instantiation, then comparison with an equal fresh term
                    fresh = dec(enc(r))
                    oc2, q = outcome_of(lambda: (r == fresh, hash(r) == hash(fresh), sign(term_ord.fast_compare(r, fresh)),
                                                 sign(term_ord.fast_compare(fresh, r)), fresh == r))
                    tid += 1
                    e2 = {"tid": tid, "kind": "eq", "how": "inplace-after-hash", "t1": enc(r), "t2": enc(fresh), "outcome": oc2,
                          "key": "eq:inplace-after-hash:%s" % digest([v])}
                    if q is not None:
                        e2.update({"eq": q[0], "heq": q[1], "c12": q[2], "c21": q[3], "eq21": q[4]})
                    out.write(json.dumps(e2, separators=(",", ":")) + "\n")
                # history: the input term must be unchanged by the operation
                if name not in ("subst_type_inplace", "subst_type_inplace_shared"):
                    tid += 1
                    out.write(json.dumps({"tid": tid, "kind": "unchanged", "route": route, "call": name,
                                          "before": v["t"], "after": enc(t),
                                          "key": "unchanged:%s:%s:%s" % (route, name, digest([v]))}, separators=(",", ":")) + "\n")
    out.close()
    print("ops events", tid)


# ---------------------------------------------------------------------------------------------------
def rename_bound(t, names):
    """alpha-variant with other bound-variable names (possibly clashing with free names)."""
    if t.is_comb():
        return Comb(rename_bound(t.fun, names), rename_bound(t.arg, names))
    if t.is_abs():
        return Abs(names(), t.var_T, rename_bound(t.body, names))
    return copy.copy(t)


def mutate(j, rnd):
    """one-point structural mutation of codec JSON (result may be ill-typed: equality must still be structural)"""
    j = json.loads(json.dumps(j))
    path = []

    def leaves(n, p):
        if n[0] == "comb":
            leaves(n[1], p + [1])
            leaves(n[2], p + [2])
        elif n[0] == "abs":
            path.append(p + ["T"])
            leaves(n[2], p + [2])
        else:
            path.append(p)
    leaves(j, [])
    p = rnd.choice(path)
    n = j
    for k in p[:-1] if p and p[-1] == "T" else p:
        n = n[k]
    if p and p[-1] == "T":
        n[1] = ["tc", "bool", []] if n[1] != ["tc", "bool", []] else ["tv", "a"]
    elif n[0] == "bound":
        n[1] = n[1] + 1
    else:
        c = rnd.random()
        if c < 0.4:
            n[1] = n[1] + "'"
        elif c < 0.7:
            n[2] = ["tc", "bool", []] if n[2] != ["tc", "bool", []] else ["tv", "a"]
        else:
            n[0] = {"var": "svar", "svar": "const", "const": "var"}[n[0]]
    return j


def sign(c):
    return -1 if c < 0 else (1 if c > 0 else 0)


def eq_events(vec_path, out_path, n, seed):
    rnd = random.Random(seed)
    seen = {}
    for ln in open(vec_path):
        if ln.strip():
            v = json.loads(ln)
            seen.setdefault(json.dumps(v["t"]), v["t"])
    univ = list(seen.values())
    rnd.shuffle(univ)
    out = open(out_path, "w")
    tid = 0
    names_pool = ["x", "y", "u", "A", "f", "x'"]

    def emit(kind, t1, t2, how):
        nonlocal tid
        tid += 1
        oc, r = outcome_of(lambda: (t1 == t2, hash(t1) == hash(t2), sign(term_ord.fast_compare(t1, t2)), sign(term_ord.fast_compare(t2, t1)),
                                    t2 == t1))
        ev = {"tid": tid, "kind": kind, "how": how, "t1": enc(t1), "t2": enc(t2), "outcome": oc}
        if r is not None:
            ev.update({"eq": r[0], "heq": r[1], "c12": r[2], "c21": r[3], "eq21": r[4]})
        ev["key"] = "eq:%s:%s" % (how, digest([ev["t1"], ev["t2"]]))
        out.write(json.dumps(ev, separators=(",", ":")) + "\n")
    for j in univ[:n]:
        t = build(j)
        emit("eq", t, build(j), "rebuilt")
        emit("eq", t, build(j, {}), "shared")
        emit("eq", t, rename_bound(t, lambda: rnd.choice(names_pool)), "renamed")
        emit("eq", t, copy.copy(t), "copy")
        emit("eq", t, Term(t), "Term(t)")
        emit("eq", t, t.subst(Inst()), "subst-empty")
        emit("eq", t, t.subst_type(TyInst()), "subst_type-empty")
        emit("eq", t, build(mutate(j, rnd)), "mutated")
        emit("eq", t, build(mutate(mutate(j, rnd), rnd)), "mutated2")
        emit("eq", t, build(rnd.choice(univ)), "other")
        h = hash(t)                          # memoised hash, then compare with a fresh object again
        emit("eq", t, build(j), "rebuilt-after-hash")
        # ordering on triples
        a, b, c = t, build(rnd.choice(univ)), build(mutate(j, rnd))
        tid += 1
        oc, r = outcome_of(lambda: [sign(term_ord.fast_compare(p, q)) for p, q in ((a, b), (b, c), (a, c), (b, a), (c, b), (c, a))])
        ev = {"tid": tid, "kind": "cmp3", "t1": enc(a), "t2": enc(b), "t3": enc(c), "outcome": oc, "c": r or []}
        ev["key"] = "cmp3:%s" % digest([ev["t1"], ev["t2"], ev["t3"]])
        out.write(json.dumps(ev, separators=(",", ":")) + "\n")
    # types
    a, b = TVar("a"), TVar("b")
    sa = STVar("a")
    tys = [BoolType, a, b, sa, TFun(a, a), TFun(a, b), TFun(sa, a), TFun(a, BoolType), TFun(TFun(a, a), a), TFun(a, TFun(a, a)),
           TConst("list", a), TConst("list", b), TConst("prod", a, b), TConst("prod", b, a), TConst("nat")]
    for T1 in tys:
        for T2 in tys:
            tid += 1
            T2c = decT(encT(T2))
            oc, r = outcome_of(lambda: (T1 == T2c, hash(T1) == hash(T2c), sign(term_ord.fast_compare_typ(T1, T2c)),
                                        sign(term_ord.fast_compare_typ(T2c, T1)), Type(T1) == T2c))
            ev = {"tid": tid, "kind": "eqT", "T1": encT(T1), "T2": encT(T2c), "outcome": oc}
            if r is not None:
                ev.update({"eq": r[0], "heq": r[1], "c12": r[2], "c21": r[3], "eqcopy": r[4]})
            ev["key"] = "eqT:%s" % digest([ev["T1"], ev["T2"]])
            out.write(json.dumps(ev, separators=(",", ":")) + "\n")
    out.close()
    print("eq events", tid)


# ---------------------------------------------------------------------------------------------------
def _parts(s):
    if s == "s1":
        return ()
    if s == "s2":
        return (Var("g", TFun(BoolType, BoolType)), Var("q", BoolType))
    return (Bound(0),)


def _top(s, parts):
    """the top node is the LAST object allocated, so that it can take a just-released block"""
    if s == "s1":
        return Var("p", BoolType)
    if s == "s2":
        return Comb(parts[0], parts[1])
    return Abs("x", BoolType, parts[0])


STRUCT_NAMES = ["s1", "s2", "s3"]


def token(o):
    return str(getattr(o, "_id", "none"))


def heap(out_path, nhist, seed):
    """Histories over abstract slots.  Actions: new(slot, struct) / copy(slot, src) [= Term(src)] / free(slot) /
    reuse [= free(slot) immediately followed by a new object that lands on the released address, when the allocator
    cooperates] / eq(a, b).  Addresses and identity tokens are logged as decimal strings (they exceed 31 bits)."""
    rnd = random.Random(seed)
    out = open(out_path, "w")
    tid = 0
    reuse_hits = 0
    reuse_tries = 0

    def log(ev):
        nonlocal tid
        tid += 1
        ev["tid"] = tid
        ev["kind"] = "heap"
        ev["key"] = "heap:%s" % ev["act"]
        out.write(json.dumps(ev, separators=(",", ":")) + "\n")
    for hid in range(nhist):
        slots = {}
        first = True
        nsteps = rnd.randint(4, 9)
        for step in range(nsteps):
            acts = ["new"]
            if slots:
                acts += ["copy", "copy", "free", "eq", "eq", "reuse", "reuse"]
            act = rnd.choice(acts)
            if act == "new":
                s = rnd.choice(STRUCT_NAMES)
                o = _top(s, _parts(s))
                slot = "n%d" % step
                slots[slot] = (o, s)
                log({"hid": hid, "first": first, "act": "new", "a": str(id(o)), "st": s, "tok": token(o)})
            elif act == "copy":
                src = rnd.choice(sorted(slots))
                o = Term(slots[src][0])
                slots["c%d" % step] = (o, slots[src][1])
                log({"hid": hid, "first": first, "act": "copy", "a": str(id(o)), "src": str(id(slots[src][0])),
                     "st": slots[src][1], "tok": token(o)})
            elif act == "free":
                slot = rnd.choice(sorted(slots))
                o, s = slots.pop(slot)
                addr = id(o)
                del o
                log({"hid": hid, "first": first, "act": "free", "a": str(addr)})
            elif act == "reuse":
                slot = rnd.choice(sorted(slots))
                s2 = rnd.choice(STRUCT_NAMES)
                parts = _parts(s2)
                o, s = slots.pop(slot)
                want = id(o)
                tmp = []
                del o                      # released by reference counting; nothing else is allocated in between
                new = None
                reuse_tries += 1
                for _ in range(2000):
                    cand = _top(s2, parts)
                    if id(cand) == want:
                        new = cand
                        break
                    tmp.append(cand)
                del tmp
                log({"hid": hid, "first": first, "act": "free", "a": str(want)})
                first = False
                if new is None:
                    new = _top(s2, parts)
                else:
                    reuse_hits += 1
                slots["r%d" % step] = (new, s2)
                log({"hid": hid, "first": False, "act": "new", "a": str(id(new)), "st": s2, "tok": token(new)})
            elif act == "eq":
                sa, sb = rnd.choice(sorted(slots)), rnd.choice(sorted(slots))
                oa, ob = slots[sa][0], slots[sb][0]
                log({"hid": hid, "first": first, "act": "eq", "a": str(id(oa)), "b": str(id(ob)), "res": bool(oa == ob),
                     "heq": hash(oa) == hash(ob), "ea": enc(oa), "eb": enc(ob)})
            first = False
        # at the end of each history: compare every pair of live objects
        names = sorted(slots)
        for sa in names:
            for sb in names:
                if sa < sb:
                    oa, ob = slots[sa][0], slots[sb][0]
                    log({"hid": hid, "first": False, "act": "eq", "a": str(id(oa)), "b": str(id(ob)), "res": bool(oa == ob),
                         "heq": hash(oa) == hash(ob), "ea": enc(oa), "eb": enc(ob)})
    out.close()
    print("heap events", tid, "address reuse realised", reuse_hits, "of", reuse_tries)


# ---------------------------------------------------------------------------------------------------
FOREIGN_KEY = "inplace-tyinst:memoised-hash-of-another-term-sharing-a-mutated-subobject"


def _type_or_err(o):
    try:
        return encT(o.checked_get_type())
    except Exception:
        return ["err"]


def _perform(hist):
    """Perform a history of C03_Share on real objects.  Returns (objs, pre, ch, outcome): structural encodings and
    children (by object IDENTITY, 1-based, 0 = none) just before the in-place instantiation."""
    objs, pre, ch, outcome = [], None, None, "ok"
    for a in hist:
        if a["act"] == "leaf":
            objs.append(dec([a["nm"][0], a["nm"][1], a["T"]]))
        elif a["act"] == "comb":
            objs.append(Comb(objs[a["f"] - 1], objs[a["a"] - 1]))
        elif a["act"] == "hash":
            hash(objs[a["o"] - 1])
        elif a["act"] == "inplace":
            idx = {id(o): i + 1 for i, o in enumerate(objs)}
            pre = [enc(o) for o in objs]
            ch = [[idx.get(id(o.fun), 0), idx.get(id(o.arg), 0)] if o.is_comb() else [0, 0] for o in objs]
            ti = TyInst(**{k: decT(T) for k, T in a["ti"]})
            root = objs[a["o"] - 1]
            outcome, _ = outcome_of(lambda: root.subst_type_inplace(ti))
    return objs, pre, ch, outcome


def share(vec_path, out_path):
    out = open(out_path, "w")
    tid = 0
    for ln in open(vec_path):
        if not ln.strip():
            continue
        v = json.loads(ln)
        objs, pre, ch, outcome = _perform(v["hist"])
        d = digest([v["hist"]])
        tid += 1
        ev = {"tid": tid, "kind": "sact", "hist": v["hist"], "foreign": v["foreign"], "nobj": v["nobj"], "outcome": outcome,
              "ch": ch, "pre": pre, "post": [enc(o) for o in objs], "pty": [_type_or_err(o) for o in objs],
              "key": "share:sact:%s" % d}
        out.write(json.dumps(ev, separators=(",", ":")) + "\n")
        # observation of ==/hash against structurally rebuilt copies; the objects OUTSIDE the instantiated term that hold a hash
        # memoised before over a sub-object the instantiation changes (class computed by the specification: `foreign`) are
        # observed apart, last (no other object contains one of them)
        own = [i for i in range(1, len(objs) + 1) if i not in v["foreign"]]
        for grp, which, key in ((own, "own", "share:sobs:%s" % d), (v["foreign"], "foreign", FOREIGN_KEY)):
            if not grp:
                continue
            def obs():
                eqs, heqs = [], []
                for i in grp:
                    o = objs[i - 1]
                    fresh = dec(enc(o))
                    eqs.append(bool(o == fresh))
                    heqs.append(hash(o) == hash(fresh))
                return eqs, heqs
            oc, r = outcome_of(obs)
            tid += 1
            ev = {"tid": tid, "kind": "sobs", "group": which, "objs": grp, "hist": v["hist"], "foreign": v["foreign"], "nobj": v["nobj"],
                  "outcome": oc, "eq": r[0] if r else [], "heq": r[1] if r else [], "key": key}
            out.write(json.dumps(ev, separators=(",", ":")) + "\n")
    out.close()
    print("share events", tid)


def share_probe():
    """Which machine of C03_Share is the code?  (selects the configuration that is model-checked; no verdict)"""
    a = STVar("a")
    x = Var("x", a)
    t = Comb(Comb(Const("equals", TFun(a, a, BoolType)), x), x)
    t.subst_type_inplace(TyInst(a=TConst("list", a)))
    once = encT(x.T) == ["tc", "list", [["stv", "a"]]]
    y = Var("x", a)
    p = Comb(Const("f", TFun(a, BoolType)), y)
    hash(p)
    before = getattr(p, "_hash_val", None)
    y.subst_type_inplace(TyInst(a=BoolType))
    parents = hash(p) == hash(Comb(Const("f", TFun(BoolType, BoolType)), Var("x", BoolType)))
    return {"inst_once": once, "parents_invalidated": parents, "memo_field": before is not None}


if __name__ == "__main__":
    mode = sys.argv[1]
    if mode == "ops":
        ops(sys.argv[2], sys.argv[3])
    elif mode == "eq":
        eq_events(sys.argv[2], sys.argv[3], int(sys.argv[4]), int(sys.argv[5]))
    elif mode == "heap":
        heap(sys.argv[2], int(sys.argv[3]), int(sys.argv[4]))
    elif mode == "share":
        share(sys.argv[2], sys.argv[3])
    elif mode == "probe":
        t = Term(Var("x", BoolType))
        pr = {"has_token": hasattr(t, "_id"), "copy_reowns": getattr(t, "_id", None) == id(t)}
        pr.update(share_probe())
        print(json.dumps(pr))
