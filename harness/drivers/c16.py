"""C16 driver: runs the real Omega test / simplex code and logs one event per call.  No verdict is computed here.

modes
  vectors <vectors.ndjson> <out.ndjson> <seed> <tier>   spec -> code: every TLC-enumerated system (factoid matrix) is run through
                                                       omega.solve_matrix (both row orders), OmegaHOL (sample), Simplex (two input
                                                       shapes), SimplexMacro / branch_and_bound / strict simplex (samples)
  all <vectors> <marker> <out_vec> <out_rand> <n> <seed> <tier>   random first, then (when the marker file says "ok") vectors
  random <n> <out.ndjson> <seed> <tier>                seeded random systems up to 5 variables / 8 constraints / coefficients -5..5
                                                       (zero rows, duplicates, paired equalities, planted solutions, unbounded directions)
  one <event.json> <out.ndjson>                        re-run the call recorded in one event (replay)

event  {tid, key, proc, dom "int"|"rat", n, sys [[a_1..a_n, op, b]..]  (a.x op b; op 1 >=, 2 <=, 3 >, 4 <),
        verdict "SAT"|"UNSAT"|"NOCONCL"|"ERROR"|"TIMEOUT", err,
        wit {ok, den, nums[n], miss[n]}      the returned assignment nums/den (miss[k] = 1: the code returned no value for x_k),
        proof {present, accepted, false, hypsok, hyps [[a.., op, b]..], err}   checker result on the exported proof}
"""
import contextlib
import io
import json
import math
import random
import signal
import sys
from fractions import Fraction

from kernel import term, theory
from kernel.term import Term, Var, Int, Real
from kernel.type import IntType, RealType
from kernel.proofterm import ProofTerm
from logic import basic

from prover import omega
from prover import simplex
from prover import simplex_strict

basic.load_theory('real')

GE, LE, GT, LT = 1, 2, 3, 4
LIM = 2 ** 31 - 1


class Timeout(BaseException):
    pass


def _alarm(signum, frame):
    raise Timeout()


signal.signal(signal.SIGALRM, _alarm)


@contextlib.contextmanager
def time_limit(sec):
    signal.setitimer(signal.ITIMER_REAL, sec)
    try:
        yield
    finally:
        signal.setitimer(signal.ITIMER_REAL, 0)


# ------------------------------------------------------------------------------------------------ projections

def to_frac(v):
    if isinstance(v, bool):
        return None
    if isinstance(v, int):
        return Fraction(v)
    if isinstance(v, Fraction):
        return v
    if isinstance(v, float) and math.isfinite(v):
        return Fraction(v)
    return None


def proj_wit(vals):
    """vals: list (one per variable) of int/Fraction/float or None (no value returned for that variable)."""
    n = len(vals)
    miss = [1 if v is None else 0 for v in vals]
    fr = [Fraction(0) if v is None else to_frac(v) for v in vals]
    if any(f is None for f in fr):
        return {"ok": False, "den": 1, "nums": [0] * n, "miss": miss}
    den = 1
    for f in fr:
        den = den * f.denominator // math.gcd(den, f.denominator)
    nums = [int(f * den) for f in fr]
    ok = den <= LIM and all(abs(x) <= LIM for x in nums)
    if not ok:
        return {"ok": False, "den": 1, "nums": [0] * n, "miss": miss}
    return {"ok": True, "den": den, "nums": nums, "miss": miss}


NOWIT = lambda n: {"ok": False, "den": 1, "nums": [0] * n, "miss": [0] * n}
NOPROOF = {"present": False, "accepted": False, "false": False, "hypsok": False, "hyps": [], "err": ""}

CMP = {"greater_eq": GE, "less_eq": LE, "greater": GT, "less": LT}


def _lin(t, names):
    """Linear form of a numeric term by a structural walk over the raw fields: ({var index: Fraction}, const) or None."""
    if t.is_number():
        try:
            return {}, Fraction(t.dest_number())
        except Exception:
            return None
    if t.ty == Term.VAR:
        if t.name in names:
            return {names[t.name]: Fraction(1)}, Fraction(0)
        return None
    if t.ty != Term.COMB:
        return None
    f = t.fun
    if f.ty == Term.CONST and f.name == "uminus":
        r = _lin(t.arg, names)
        return None if r is None else ({k: -v for k, v in r[0].items()}, -r[1])
    if f.ty == Term.CONST and f.name == "of_int":
        return _lin(t.arg, names)
    if f.ty == Term.COMB and f.fun.ty == Term.CONST and f.fun.name in ("plus", "minus", "times"):
        a, b = _lin(f.arg, names), _lin(t.arg, names)
        if a is None or b is None:
            return None
        op = f.fun.name
        if op == "times":
            if not a[0]:
                return {k: a[1] * v for k, v in b[0].items()}, a[1] * b[1]
            if not b[0]:
                return {k: b[1] * v for k, v in a[0].items()}, a[1] * b[1]
            return None
        sg = 1 if op == "plus" else -1
        d = dict(a[0])
        for k, v in b[0].items():
            d[k] = d.get(k, Fraction(0)) + sg * v
        return d, a[1] + sg * b[1]
    return None


def linrow(t, n, names):
    """A comparison  l op r  as a row [a_1..a_n, op, b] meaning a.x op b  (l - r op 0), or None."""
    if t.ty != Term.COMB or t.fun.ty != Term.COMB or t.fun.fun.ty != Term.CONST or t.fun.fun.name not in CMP:
        return None
    l, r = _lin(t.fun.arg, names), _lin(t.arg, names)
    if l is None or r is None:
        return None
    co = [l[0].get(k, Fraction(0)) - r[0].get(k, Fraction(0)) for k in range(n)]
    b = r[1] - l[1]
    if any(c.denominator != 1 for c in co) or b.denominator != 1:
        return None
    row = [int(c) for c in co] + [CMP[t.fun.fun.name], int(b)]
    if any(abs(x) > 10 ** 6 for x in row):
        return None
    return row


def is_false(t):
    return t.ty == Term.CONST and t.name == "false"


def proof_info(pt, n, names):
    info = dict(NOPROOF)
    info["present"] = True
    th = pt.th
    try:
        prf = pt.export()
        th = theory.check_proof(prf, no_gaps=True)
        info["accepted"] = True
    except Timeout:
        raise
    except Exception as e:
        info["err"] = type(e).__name__ + ": " + str(e)[:120]
    info["false"] = is_false(th.prop)
    rows = [linrow(h, n, names) for h in th.hyps]
    info["hypsok"] = all(r is not None for r in rows)
    info["hyps"] = [r for r in rows if r is not None]
    return info


# ------------------------------------------------------------------------------------------------ event plumbing

class Out:
    def __init__(self, path):
        self.f = open(path, "w")
        self.tid = 0

    def emit(self, proc, dom, n, rows, tag, verdict, err="", wit=None, proof=None):
        self.tid += 1
        e = {"tid": self.tid, "key": "%s|%s|%s" % (proc, tag, json.dumps(rows, separators=(",", ":"))),
             "proc": proc, "tag": tag, "dom": dom, "n": n, "sys": rows, "verdict": verdict, "err": err,
             "wit": wit if wit is not None else NOWIT(n), "proof": proof if proof is not None else dict(NOPROOF)}
        self.f.write(json.dumps(e, separators=(",", ":")) + "\n")

    def close(self):
        self.f.close()


def guarded(fn, sec):
    """Run fn() -> (verdict, wit, proof); exceptions of the code under test become ERROR, a time-out TIMEOUT."""
    try:
        with time_limit(sec):
            with contextlib.redirect_stdout(io.StringIO()):
                return fn() + ("",)
    except Timeout:
        return "TIMEOUT", None, None, "time limit %ss" % sec
    except RecursionError:
        return "ERROR", None, None, "RecursionError"
    except Exception as e:
        return "ERROR", None, None, type(e).__name__ + ": " + str(e)[:100]


# ------------------------------------------------------------------------------------------------ Omega

def f_rows(m):
    """factoid matrix [[a.., c]..] (0 <= a.x + c)  ->  rows a.x >= -c"""
    return [list(f[:-1]) + [GE, -f[-1]] for f in m]


def call_omega(m):
    n = len(m[0]) - 1

    def go():
        res, val = omega.solve_matrix([list(f) for f in m])
        if res == "SAT":
            return "SAT", proj_wit([val.get(i) for i in range(n)]), None
        if res == "UNSAT":
            return "UNSAT", None, None
        return "NOCONCL", None, None
    return guarded(go, 5)


def int_term(f, xs):
    parts = [Int(c) * x for c, x in zip(f[:-1], xs) if c != 0] + [Int(f[-1])]
    return term.less_eq(IntType)(Int(0), sum(parts[1:], parts[0]))


def call_omegahol(m):
    n = len(m[0]) - 1
    xs = [Var("x%d" % i, IntType) for i in range(n)]
    names = {"x%d" % i: i for i in range(n)}

    def go():
        h = omega.OmegaHOL([int_term(f, xs) for f in m])
        r = h.solve()
        if isinstance(r, ProofTerm):
            return "UNSAT", None, proof_info(r, n, names)
        if isinstance(r, dict):
            vals = [None] * n
            for i, v in r.items():
                t = h.vars[i] if 0 <= i < len(h.vars) else None
                if t is not None and t.ty == Term.VAR and t.name in names:
                    vals[names[t.name]] = v
            return "SAT", proj_wit(vals), None
        return "NOCONCL", None, None
    return guarded(go, 20)


# ------------------------------------------------------------------------------------------------ simplex

def mk_ineqs(mod, rows, shape):
    """rows [a.., op, b] -> InEquation objects of module `mod` (simplex or simplex_strict).
    shape "nz": jars for the non-zero coefficients (a zero row keeps one jar 0*x0); "all": one jar per variable."""
    out = []
    for r in rows:
        a, op, b = r[:-2], r[-2], r[-1]
        idx = [i for i in range(len(a)) if a[i] != 0] if shape == "nz" else list(range(len(a)))
        if not idx:
            idx = [0]
        jars = [mod.Jar(a[i], "x%d" % i) for i in idx]
        if mod is simplex_strict:
            bound = simplex_strict.Pair(b, 1 if op == GT else (-1 if op == LT else 0))
        else:
            bound = b
        out.append(mod.GreaterEq(jars, bound) if op in (GE, GT) else mod.LessEq(jars, bound))
    return out


UNSAT_EXC = (simplex.UNSATException, simplex.AssertLowerException, simplex.AssertUpperException,
             simplex_strict.UNSATException, simplex_strict.AssertLowerException, simplex_strict.AssertUpperException)


def call_simplex(rows, n, shape, mod=simplex):
    def go():
        s = mod.Simplex()
        s.add_ineqs(*mk_ineqs(mod, rows, shape))
        try:
            s.handle_assertion()
        except UNSAT_EXC:
            return "UNSAT", None, None
        if mod is simplex_strict:
            return "SAT", None, None          # the assignment is symbolic in delta: not projected
        return "SAT", proj_wit([s.mapping.get("x%d" % i) for i in range(n)]), None
    return guarded(go, 5)


class BudgetDeque(simplex.deque):
    """branch_and_bound swallows every exception (bare except) and need not terminate on unbounded systems:
    the work list reports itself empty once the node budget is used up; the driver then logs TIMEOUT."""
    budget = 0
    used = 0
    exhausted = False

    def popleft(self):
        BudgetDeque.used += 1
        return super().popleft()

    def __len__(self):
        if BudgetDeque.used >= BudgetDeque.budget and super().__len__() > 0:
            BudgetDeque.exhausted = True
            return 0
        return super().__len__()


def call_bnb(rows, n, shape):
    fired = []

    def go():
        s = simplex.Simplex()
        s.add_ineqs(*mk_ineqs(simplex, rows, shape))
        BudgetDeque.budget, BudgetDeque.used, BudgetDeque.exhausted = 200, 0, False
        old = simplex.deque
        simplex.deque = BudgetDeque
        try:
            r = simplex.branch_and_bound(s, [], [])
        finally:
            simplex.deque = old
        if BudgetDeque.exhausted:
            return "TIMEOUT", None, None
        if isinstance(r, dict):
            return "SAT", proj_wit([r.get("x%d" % i) for i in range(n)]), None
        if isinstance(r, simplex.IntSimplexTree):
            return "UNSAT", None, None
        return "NOCONCL", None, None
    # a time-out raised inside branch_and_bound is swallowed by its bare except: re-arm and remember it
    def handler(signum, frame):
        fired.append(1)
        BudgetDeque.budget = 0
        raise Timeout()
    old_h = signal.signal(signal.SIGALRM, handler)
    signal.setitimer(signal.ITIMER_REAL, 5, 0.2)
    try:
        with contextlib.redirect_stdout(io.StringIO()):
            res = go() + ("",)
    except Timeout:
        res = ("TIMEOUT", None, None, "time limit")
    except Exception as e:
        res = ("ERROR", None, None, type(e).__name__ + ": " + str(e)[:100])
    finally:
        signal.setitimer(signal.ITIMER_REAL, 0)
        signal.signal(signal.SIGALRM, old_h)
    if fired and res[0] != "SAT":
        res = ("TIMEOUT", None, None, "time limit")
    return res


def num_term(T, c):
    return Int(c) if T == IntType else Real(c)


def cmp_terms(rows, n, T):
    """a_1 * x_1 + ... op b  with the non-zero summands (a zero row: 0 * x0); returns terms and the order of first occurrence."""
    xs = [Var("x%d" % i, T) for i in range(n)]
    tms, order = [], []
    mk = {GE: term.greater_eq, LE: term.less_eq, GT: term.greater, LT: term.less}
    for r in rows:
        a, op, b = r[:-2], r[-2], r[-1]
        idx = [i for i in range(n) if a[i] != 0] or [0]
        for i in idx:
            if i not in order:
                order.append(i)
        parts = [num_term(T, a[i]) * xs[i] for i in idx]
        tms.append(mk[op](T)(sum(parts[1:], parts[0]), num_term(T, b)))
    return tms, order


def call_macro(rows, n, which):
    T = IntType if which == "intsimplexmacro" else RealType
    names = {"x%d" % i: i for i in range(n)}

    def go():
        tms, order = cmp_terms(rows, n, T)
        if which == "simplexmacro":
            r = simplex.SimplexMacro().get_proof_term(args=tms)
        elif which == "strictmacro":
            r = simplex_strict.StrictSimplexMacro().get_proof_term(args=tms)
        else:
            r = simplex.IntegerSimplexMacro().get_proof_term(args=tms)
        if isinstance(r, ProofTerm):
            return "UNSAT", None, proof_info(r, n, names)
        if isinstance(r, dict):
            if which == "strictmacro":
                return "SAT", None, None
            vals = [None] * n
            for k, i in enumerate(order):          # term_to_ineq renames variables x_0, x_1, .. in order of first occurrence
                vals[i] = r.get("x_%d" % k)
            return "SAT", proj_wit(vals), None
        return "NOCONCL", None, None
    return guarded(go, 30)


# ------------------------------------------------------------------------------------------------ drivers

def flip(rows):
    """the same constraints, every second one written with <= (a.x >= b  ==  -a.x <= -b)"""
    out = []
    for k, r in enumerate(rows):
        if k % 2 == 1 and r[-2] in (GE, LE):
            out.append([-x for x in r[:-2]] + [LE if r[-2] == GE else GE, -r[-1]])
        else:
            out.append(list(r))
    return out


def run_system(out, m, tag, rng, p_hol, p_macro, p_bnb, p_strict):
    """m: factoid matrix.  One event per procedure call."""
    n = len(m[0]) - 1
    rows = f_rows(m)
    v, w, p, err = call_omega(m)
    out.emit("omega", "int", n, rows, tag, v, err, w, p)
    if len(m) > 1:
        mr = list(reversed(m))
        if mr != m:
            v2, w, p, err = call_omega(mr)
            out.emit("omega", "int", n, f_rows(mr), tag + "r", v2, err, w, p)
    if rng.random() < p_hol or (v == "UNSAT" and rng.random() < 4 * p_hol):
        v, w, p, err = call_omegahol(m)
        out.emit("omegahol", "int", n, rows, tag, v, err, w, p)
    fr = flip(rows)
    for shape, rs in (("nz", rows), ("all", fr)):
        v, w, p, err = call_simplex(rs, n, shape)
        out.emit("simplex", "rat", n, rs, tag + shape, v, err, w, p)
    if rng.random() < p_macro or (v == "UNSAT" and rng.random() < 4 * p_macro):
        v, w, p, err = call_macro(fr, n, "simplexmacro")
        out.emit("simplexmacro", "rat", n, fr, tag, v, err, w, p)
    if rng.random() < p_bnb:
        v, w, p, err = call_bnb(fr, n, "nz")
        out.emit("bnb", "int", n, fr, tag, v, err, w, p)
    if rng.random() < p_bnb / 8:
        v, w, p, err = call_macro(fr, n, "intsimplexmacro")
        out.emit("intsimplexmacro", "int", n, fr, tag, v, err, w, p)
    if rng.random() < p_strict:
        # make some constraints strict
        st = [list(r) for r in fr]
        for r in st:
            if rng.random() < 0.5:
                r[-2] = GT if r[-2] == GE else LT
        v, w, p, err = call_simplex(st, n, "nz", simplex_strict)
        out.emit("strict", "rat", n, st, tag, v, err, w, p)
        if rng.random() < 0.25 or v == "UNSAT":
            v, w, p, err = call_macro(st, n, "strictmacro")
            out.emit("strictmacro", "rat", n, st, tag, v, err, w, p)


def run_ordered(out, m, tag, rng, p_macro, p_bnb):
    """ordered systems with a repeated left-hand side (the ORDER of assertion is the input): simplex family only"""
    n = len(m[0]) - 1
    rows = f_rows(m)
    fr = flip(rows)
    for shape, rs in (("nz", rows), ("all", fr)):
        v, w, p, err = call_simplex(rs, n, shape)
        out.emit("simplex", "rat", n, rs, tag + shape, v, err, w, p)
    if rng.random() < p_macro:
        v, w, p, err = call_macro(rows, n, "simplexmacro")
        out.emit("simplexmacro", "rat", n, rows, tag, v, err, w, p)
    if rng.random() < p_bnb:
        v, w, p, err = call_bnb(rows, n, "nz")
        out.emit("bnb", "int", n, rows, tag, v, err, w, p)


def repeat_system(rng):
    """2-3 variables, 3-5 rows: one or two linear forms bounded twice (different constants, sometimes the negated form),
    the other rows share variables with them; random order (weak-then-tight and tight-then-weak both occur)"""
    n = rng.choice([2, 3, 3])
    k = rng.randint(3, 5)
    cmax = rng.choice([1, 1, 2, 3])

    def form():
        while True:
            a = [rng.randint(-cmax, cmax) if rng.random() < 0.8 else 0 for _ in range(n)]
            if any(a):
                return a
    rows = []
    f = form()
    c = rng.randint(-4, 4)
    rows.append(f + [c])
    rows.append(f + [c + rng.choice([-3, -2, -1, 1, 2, 3])])
    while len(rows) < k:
        r = rng.random()
        if r < 0.25:
            g = list(rng.choice(rows)[:-1])
            rows.append((g if rng.random() < 0.6 else [-x for x in g]) + [rng.randint(-4, 4)])
        else:
            rows.append(form() + [rng.randint(-4, 4)])
    rng.shuffle(rows)
    return rows


def rand_system(rng):
    if rng.random() < 0.3:
        return repeat_system(rng)
    n = rng.choice([1, 2, 2, 3, 3, 4, 5])
    k = rng.randint(1, 8)
    cmax = rng.choice([1, 2, 3, 5])
    plant = None
    style = rng.random()
    if style < 0.45:
        plant = [rng.randint(-2, 2) for _ in range(n)]          # a planted integer solution inside every T-spec box
    rows = []
    while len(rows) < k:
        r = rng.random()
        if rows and r < 0.08:
            rows.append(list(rng.choice(rows)))                  # duplicate row
            continue
        if r < 0.14:
            a = [0] * n                                          # zero row
        else:
            dens = rng.choice([0.4, 0.7, 1.0])
            a = [rng.randint(-cmax, cmax) if rng.random() < dens else 0 for _ in range(n)]
        c = rng.randint(-2 * cmax, 2 * cmax)
        if plant is not None:
            # slack >= 0 at the planted point
            c = -sum(x * y for x, y in zip(a, plant)) + rng.choice([0, 0, 0, 1, 2, 5])
        rows.append(a + [c])
        if rng.random() < 0.12 and len(rows) < k and plant is None:
            rows.append([-x for x in a] + [-c + rng.choice([0, 0, 1, -1])])    # (near-)equality as paired inequalities
        elif rng.random() < 0.10 and len(rows) < k and plant is not None:
            rows.append([-x for x in a] + [-rows[-1][-1] + 2 * (sum(x * y for x, y in zip(a, plant)) + rows[-1][-1])])
    rng.shuffle(rows)
    return rows[:8]


def do_vectors(vec, outp, sd, tier):
    rng = random.Random(sd * 7919 + 16)
    out = Out(outp)
    ps = (0.012, 0.012, 0.03, 0.03) if tier == "quick" else (0.01, 0.01, 0.03, 0.03)
    with open(vec) as f:
        for ln in f:
            ln = ln.strip()
            if ln:
                j = json.loads(ln)
                m = [list(r) for r in j["m"]]
                if j.get("fam", "v") == "p":
                    run_ordered(out, m, "p", rng, 0.06, 0.06)
                else:
                    run_system(out, m, "v", rng, *ps)
    out.close()


def boxed_system(rng):
    """2 (sometimes 3) variables in a box [-b, b], plus 2-4 slabs  lo <= a.x <= lo + w  /  half-planes with coefficients of
    absolute value <= 3 (rows are factoids a.x + c >= 0)"""
    n = rng.choice([2, 2, 2, 3])
    b = rng.choice([3, 4, 5]) if n == 2 else rng.choice([2, 3])
    rows = []
    for i in range(n):
        e = [0] * n
        e[i] = 1
        rows.append(e + [b])
        rows.append([-x for x in e] + [b])
    plant = [rng.randint(-b, b) for _ in range(n)] if rng.random() < 0.6 else None
    for _ in range(rng.randint(2, 4)):
        a = [rng.randint(-3, 3) for _ in range(n)]
        if not any(a):
            a[rng.randrange(n)] = rng.choice([-3, -2, 2, 3])
        if plant is not None:
            c = -sum(x * y for x, y in zip(a, plant)) + rng.choice([0, 0, 1, 2])
        else:
            c = rng.randint(-8, 8)
        rows.append(a + [c])
        if rng.random() < 0.35:
            rows.append([-x for x in a] + [-c + rng.choice([0, 1, 2, 3])])     # the other side of a thin slab
    box, rest = rows[:2 * n], rows[2 * n:]
    rng.shuffle(rest)
    return box + rest if rng.random() < 0.7 else rest + box


def do_random(cnt, outp, sd, tier):
    rng = random.Random(sd * 104729 + 1600)
    out = Out(outp)
    out.tid = 10 ** 7
    for i in range(cnt):
        m = rand_system(rng)
        run_system(out, m, "r", rng, 0.2, 0.2, 0.3, 0.25)
    # boxed integer systems cut by thin slabs: the branch-and-bound tree gets deep and the same variable is split at the same
    # value in sibling subtrees; every one goes through branch_and_bound (the box lies inside the T-spec's search box)
    for i in range(max(200, cnt // 3)):
        m = boxed_system(rng)
        run_system(out, m, "b", rng, 0.05, 0.05, 1.0, 0.0)
    # ... and many more of them through branch_and_bound ALONE (a recurring split that matters shows about once in a thousand)
    for i in range(max(3000, cnt)):
        m = boxed_system(rng)
        fr = flip(f_rows(m))
        v, w, p, err = call_bnb(fr, len(m[0]) - 1, "nz")
        out.emit("bnb", "int", len(m[0]) - 1, fr, "bb", v, err, w, p)
    out.close()


def main(argv):
    mode = argv[0]
    if mode == "vectors":
        do_vectors(argv[1], argv[2], int(argv[3]), argv[4])
    elif mode == "random":
        do_random(int(argv[1]), argv[2], int(argv[3]), argv[4])
    elif mode == "all":
        # random systems first (no dependency), then the TLC vectors once the check says they are complete
        import os
        import time
        vec, marker, out_vec, out_rand, cnt, sd, tier = argv[1], argv[2], argv[3], argv[4], int(argv[5]), int(argv[6]), argv[7]
        do_random(cnt, out_rand, sd, tier)
        if len(argv) > 8:
            open(argv[8], "w").write("ok")
        t0 = time.time()
        while not os.path.exists(marker):
            if time.time() - t0 > 7200:
                raise SystemExit("no vectors after 2 h")
            time.sleep(0.2)
        if open(marker).read().strip() == "ok":
            do_vectors(vec, out_vec, sd, tier)
    elif mode == "one":
        e = json.load(open(argv[1]))
        out = Out(argv[2])
        out.tid = e.get("tid", 1) - 1
        n, rows, proc, tag = e["n"], e["sys"], e["proc"], e["tag"]
        m = [list(r[:-2]) + [-r[-1]] for r in rows]          # only meaningful for omega* events (rows are a.x >= -c)
        if proc == "omega":
            res = call_omega(m)
        elif proc == "omegahol":
            res = call_omegahol(m)
        elif proc == "simplex":
            res = call_simplex(rows, n, "all" if tag.endswith("all") else "nz")
        elif proc == "strict":
            res = call_simplex(rows, n, "nz", simplex_strict)
        elif proc == "bnb":
            res = call_bnb(rows, n, "nz")
        else:
            res = call_macro(rows, n, proc)
        v, w, p, err = res
        out.emit(proc, e["dom"], n, rows, tag, v, err, w, p)
        out.close()
    else:
        raise SystemExit("unknown mode " + mode)


if __name__ == "__main__":
    main(sys.argv[1:])
