"""X07 driver: the proof-file bookkeeping of integral/compstate.py on real CompFile / Goal / Calculation objects.

modes
  replay   <tlc.log> <out.ndjson> <seed>     every behaviour printed by spec/X07_CompFile.tla (<<"X07", json>>) is performed on a real
                                             CompFile, twice: live ("A") and the way app/integral.py works ("B": before every operation the
                                             file is exported, re-parsed into a new CompFile, the node is found with get_by_label).  The last
                                             operation is logged (the earlier ones are the last operations of shorter behaviours), then
                                             get_by_label is probed with every label over 0..2 up to length 3 and the file is reloaded.
  rand     <out.ndjson> <n> <seed>           n seeded random sessions of 8..24 operations over a richer alphabet (integrals, definitions,
                                             conditions, inequalities, ill-formed parts, induction from 1, case splits, more rules)
  examples <out.ndjson> <seed> [<max>]       every recorded file of integral/examples: loaded, reloaded, labels probed, cleared at seeded
                                             random nodes and the cleared steps performed again
  rules    <out.ndjson>                      Rule.export() -> compstate.parse_rule -> export() for every rule class
  event    <in.ndjson> <out.ndjson>          recorded events (replay files) are re-executed from their recorded session
Events carry NO verdict: only the projection of the real objects (spec/X07_Trace.tla judges).  Expressions are interned through the
structural codec of the C19 driver (raw fields only), rules through Rule.export(), item projections / exports through their JSON text.
"""
import hashlib
import json
import os
import random
import re
import sys

from integral import compstate, parser, rules
from integral import expr as E
from integral.context import Context

from harness.drivers.c19 import enc, quiet, book_of

EXPRS = {1: "n + 0", 2: "n", 3: "0", 4: "n + 1", 5: "1", 6: "n + 2"}
CONDS = {91: "n >= 0", 92: "n = 0", 93: "n != 0"}
DEF = "f(n) = n + 0"
TLC_RULES = {1: {"name": "FullSimplify"}, 2: {"name": "Equation", "new_expr": "n + 0"}, 3: {"name": "Equation", "new_expr": "n"}}
KIND = {"Goal": "goal", "FuncDef": "def", "Calculation": "calc", "CalculationStep": "step", "RewriteGoalProof": "rw"}
BINDERS = ("int", "iint", "deriv", "evalat", "sum", "lim")


class Unobservable(Exception):
    pass


class Unexportable(Exception):
    pass


def P(s):
    return quiet(parser.parse_expr, s)


# ------------------------------------------------------------------------------------------------ interning
class Intern:
    def __init__(self, tlc):
        self.ex, self.ru, self.st, self.dg = {}, {}, {}, {}
        self.nex, self.nru, self.nst = 1000, 100, 100
        if tlc:
            if Intern._seed is None:
                ex, ru = {}, {}
                for i, s in EXPRS.items():
                    ex[self.key(P(s))] = i
                for a, sa in EXPRS.items():
                    for b, sb in EXPRS.items():
                        ex[self.key(P("%s = %s" % (sa, sb)))] = 10 * a + b
                for i, s in CONDS.items():
                    ex[self.key(P(s))] = i
                ex[self.key(P(DEF))] = 81
                ex[self.key(P("f(n)"))] = 82
                for i, r in TLC_RULES.items():
                    ru[self.rkey(mk_rule(r))] = i
                Intern._seed = (ex, ru)
            self.ex, self.ru = dict(Intern._seed[0]), dict(Intern._seed[1])
            self.st["n"] = 1

    _seed = None

    @staticmethod
    def key(e):
        return json.dumps(enc(e), separators=(",", ":"))

    @staticmethod
    def rkey(rule):
        d = rule.export()
        return json.dumps({k: v for k, v in d.items() if k != "latex_str"}, sort_keys=True, separators=(",", ":"))

    def E(self, e):
        k = self.key(e)
        if k not in self.ex:
            self.nex += 1
            self.ex[k] = self.nex
        return self.ex[k]

    def R(self, rule):
        try:
            k = self.rkey(rule)
        except Exception as ex:
            k = "unexportable:" + type(rule).__name__ + ":" + type(ex).__name__
        if k not in self.ru:
            self.nru += 1
            self.ru[k] = self.nru
        return self.ru[k]

    def S(self, s):
        s = str(s)
        if s not in self.st:
            self.nst += 1
            self.st[s] = self.nst
        return self.st[s]

    def D(self, obj):
        k = hashlib.sha1(json.dumps(obj, sort_keys=True, separators=(",", ":")).encode()).hexdigest()
        if k not in self.dg:
            self.dg[k] = len(self.dg) + 1
        return self.dg[k]


def plain(j):
    """the encoded expression contains no binder (Expr.__eq__ is structural there)"""
    if isinstance(j, list):
        if j and j[0] in BINDERS:
            return False
        return all(plain(x) for x in j)
    return True


def unpat(j):
    """pattern symbols of a definition back to variables (context.add_definition stores expr_to_pattern of the sides)"""
    if isinstance(j, list):
        if len(j) == 2 and j[0] == "symbol":
            return ["var", j[1]]
        return [unpat(x) for x in j]
    return j


def mk_rule(d):
    return quiet(compstate.parse_rule, json.loads(json.dumps(d)))


# ------------------------------------------------------------------------------------------------ projection (walk)
def tri(f):
    try:
        return "t" if quiet(f) else "f"
    except RecursionError:
        return "x"
    except Exception:
        return "x"


def sides(it, e):
    if isinstance(e, E.Expr) and e.ty == E.OP and len(e.args) == 2:
        return it.E(e.args[0]), it.E(e.args[1]), str(e.op)
    return 0, 0, ""


def node(lab, k, e=0, l=0, r=0, pd="", pk=0, cs=(), x=0, y=0):
    return {"lab": list(lab), "k": k, "e": e, "l": l, "r": r, "pd": pd, "pk": pk, "cs": list(cs), "x": x, "y": y,
            "fin": "-", "lc": "-", "pl": False, "sg": [], "fo": False, "lem": [], "dfs": [], "cnd": [], "hyp": []}


def conds_of(it, c):
    return [it.E(x) for x in list(c.data)]


class Walk:
    """nodes (X07_Tree records + what the code reports) and the real object behind every label"""

    def __init__(self, it, file, item):
        self.it, self.file = it, file
        self.nodes, self.objs = [], {}
        try:
            self.base_l = len(file.ctx.get_lemmas())
            self.base_d = len(file.ctx.get_definitions())
            self.base_c = len(file.ctx.get_conds().data)
            self.base_h = len(file.ctx.get_induct_hyps())
            self.facts_ok = True
        except Exception:
            self.facts_ok = False
        name = type(item).__name__
        if name == "FuncDef":
            l, r, pd = sides(it, item.eq)
            self.add((), item, node((), "def", it.E(item.eq), l, r, pd, 0, conds_of(it, item.conds)))
        elif name == "Goal":
            self.goal((), item)
        elif name == "Calculation":
            self.calc((), item)
        else:
            raise Unobservable("item of type " + name)

    def add(self, lab, obj, n):
        self.nodes.append(n)
        self.objs[tuple(lab)] = obj

    def facts(self, n, g):
        if not self.facts_ok:
            return
        try:
            it, ctx = self.it, g.ctx
            n["lem"] = [[it.E(x.lhs), it.E(x.rhs)] for x in ctx.get_lemmas()[self.base_l:]]
            n["dfs"] = [[self.pat(x.lhs), self.pat(x.rhs)] for x in ctx.get_definitions()[self.base_d:]]
            n["cnd"] = [it.E(c) for c in ctx.get_conds().data[self.base_c:]]
            n["hyp"] = [[it.E(x.lhs), it.E(x.rhs)] for x in ctx.get_induct_hyps()[self.base_h:]]
            n["fo"] = True
        except Exception:
            n["fo"] = False
            n["lem"], n["dfs"], n["cnd"], n["hyp"] = [], [], [], []

    def pat(self, e):
        k = json.dumps(unpat(enc(e)), separators=(",", ":"))
        if k not in self.it.ex:
            self.it.nex += 1
            self.it.ex[k] = self.it.nex
        return self.it.ex[k]

    def calc(self, lab, c, kind="calc", obj=None):
        it = self.it
        self.add(lab, obj if obj is not None else c, node(lab, kind, it.E(c.start), cs=conds_of(it, c.conds)))
        for k, st in enumerate(list(c.steps)):
            self.add(tuple(lab) + (k,), st, node(tuple(lab) + (k,), "step", it.E(st.res), x=it.R(st.rule), y=int(st.id)))

    def goal(self, lab, g):
        it = self.it
        lab = tuple(lab)
        l, r, pd = sides(it, g.goal)
        pr = g.proof
        pname = type(pr).__name__
        pk = {"NoneType": 0, "CalculationProof": 1, "InductionProof": 2, "CaseProof": 3, "RewriteGoalProof": 4}.get(pname)
        if pk is None:
            raise Unobservable("proof of type " + pname)
        n = node(lab, "goal", it.E(g.goal), l, r, pd, pk, conds_of(it, g.conds))
        n["fin"] = tri(g.is_finished)
        n["sg"] = [tri(s.is_finished) for s in list(g.sub_goals)]
        self.facts(n, g)
        if pk == 2:
            n["x"], n["y"] = it.S(pr.induct_var), it.E(pr.start)
        elif pk == 3:
            n["x"] = it.E(pr.split_cond)
        if pk in (1, 4):
            n["lc"] = tri(pr.is_finished)
        self.add(lab, g, n)
        if pk == 1:
            self.calc(lab + (0,), pr.lhs_calc)
            self.calc(lab + (1,), pr.rhs_calc)
            try:
                n["pl"] = plain(enc(pr.lhs_calc.last_expr)) and plain(enc(pr.rhs_calc.last_expr))
            except Exception:
                n["pl"] = False
        elif pk == 2:
            self.goal(lab + (0,), pr.base_case)
            self.goal(lab + (1,), pr.induct_case)
        elif pk == 3:
            self.goal(lab + (0,), pr.case_1)
            self.goal(lab + (1,), pr.case_2)
        elif pk == 4:
            self.calc(lab + (0,), pr.begin, "rw", pr)


def summary(it, item):
    name = type(item).__name__
    try:
        gf, gfo = [it.E(x) for x in item.get_facts()], True
    except Exception:
        gf, gfo = [], False
    if name == "Calculation":
        return {"k": "calc", "e": it.E(item.start), "l": 0, "r": 0, "pd": "", "gf": gf, "gfo": gfo}
    if name not in ("FuncDef", "Goal"):
        raise Unobservable("item of type " + name)
    e = item.eq if name == "FuncDef" else item.goal
    l, r, pd = sides(it, e)
    return {"k": KIND.get(name, name), "e": it.E(e), "l": l, "r": r, "pd": pd, "gf": gf, "gfo": gfo}


def walk(it, file, item):
    """a Walk; anything that cannot be read through the public attributes is `not observable`, never a crash"""
    try:
        return Walk(it, file, item)
    except Unobservable:
        raise
    except RecursionError:
        raise Unobservable("walk: RecursionError")
    except Exception as ex:
        raise Unobservable("walk: %s: %s" % (type(ex).__name__, str(ex)[:100]))


class View:
    """projection of a whole file: walks, digests, summaries"""

    def __init__(self, it, file):
        try:
            content = list(file.content)
        except Exception as ex:
            raise Unobservable("file.content: " + type(ex).__name__)
        self.walks = [walk(it, file, x) for x in content]
        self.digs = [it.D(w.nodes) for w in self.walks]
        try:
            self.items = [summary(it, x) for x in content]
        except Unobservable:
            raise
        except Exception as ex:
            raise Unobservable("summary: " + type(ex).__name__)


# ------------------------------------------------------------------------------------------------ sessions
class Out:
    def __init__(self, path):
        self.f = open(path, "w")
        self.tid = 0
        self.counts = {}

    def emit(self, ev):
        self.tid += 1
        ev["tid"] = self.tid
        self.counts[ev["kind"]] = self.counts.get(ev["kind"], 0) + 1
        self.f.write(json.dumps(ev, separators=(",", ":")) + "\n")

    def close(self):
        self.f.close()


_BASE = None


def base_ctx():
    global _BASE
    if _BASE is None:
        _BASE = Context()
        quiet(_BASE.load_book, "base")
    return _BASE


def reparse(file):
    """what every request of app/integral.py does with the content the client sends back"""
    data = json.loads(json.dumps(quiet(file.export)))
    new = compstate.CompFile(file.ctx, file.name)
    for item in data["content"]:
        # parse_rule deletes the 'loc' entries of the dictionaries it is given: it gets a copy
        new.add_item(quiet(compstate.parse_item, new, json.loads(json.dumps(item))))
    return new, data


def exc_info(ex):
    return type(ex).__name__, isinstance(ex, AssertionError)


def opdesc(o):
    nm = o["nm"]
    if nm == "addgoal":
        return "goal(%s%s)" % (o["goal"], (" if " + ",".join(o["conds"])) if o["conds"] else "")
    if nm == "adddef":
        return "def(%s)" % o["eq"]
    if nm == "reload":
        return "reload"
    at = "%d@%s" % (o["i"], ".".join(str(x + 1) for x in o["lab"]))
    if nm == "perform":
        r = o["rule"]
        return "perform[%s](%s%s,%d)%s" % (at, r.get("name"), "".join(":%s" % r[k] for k in sorted(r) if k not in ("name", "str", "latex_str")), o["id"], o.get("via", "id")[0])
    if nm == "byind":
        return "induction[%s](%s,%s)" % (at, o["var"], o["start"])
    if nm == "bycase":
        return "case[%s](%s)" % (at, o["cond"])
    if nm == "byrw":
        return "rewrite[%s](from %d)" % (at, o["j"])
    return "%s[%s]" % (nm, at)


class Session:
    def __init__(self, out, src, it, mode_b=False, name="session"):
        self.out, self.src, self.it, self.mode_b = out, src, it, mode_b
        self.file = compstate.CompFile(base_ctx(), name)
        self.hist = []

    def key(self):
        return "%s%s:%s" % (self.src, "/B" if self.mode_b else "", ";".join(opdesc(o) for o in self.hist))[:900]

    def view(self):
        return View(self.it, self.file)

    def find(self, i, lab):
        """the real object for (item, label): through get_by_label when working like the server, else through the attributes"""
        item = self.file.content[i - 1]
        w = walk(self.it, self.file, item)
        if tuple(lab) not in w.objs:
            raise KeyError("no node %s" % (lab,))
        if self.mode_b:
            got = item.get_by_label(compstate.Label(list(lab)))
            # RewriteGoalProof: the server performs on proof.begin
            return got, w
        return w.objs[tuple(lab)], w

    def do(self, o):
        """perform one operation on the real objects; returns (oc, exc, own, abstract op)"""
        it, f, nm = self.it, self.file, o["nm"]
        a = {"nm": nm, "i": o.get("i", 0), "lab": list(o.get("lab", [])), "id": o.get("id", 0), "rule": 0, "a": 0, "b": 0, "cs": [],
             "hasn": False, "nsl": []}
        dom = True
        try:
            if nm == "adddef":
                eq = P(o["eq"])
                cs = [P(c) for c in o["conds"]]
                a.update({"i": len(f.content) + 1, "a": it.E(eq), "cs": [it.E(c) for c in cs]})
                quiet(lambda: f.add_definition(o["eq"] if o.get("as_str") else eq, conds=(list(o["conds"]) if o.get("as_str") else cs)))
            elif nm == "addgoal":
                g = P(o["goal"])
                cs = [P(c) for c in o["conds"]]
                a.update({"i": len(f.content) + 1, "a": it.E(g), "cs": [it.E(c) for c in cs]})
                quiet(lambda: f.add_goal(o["goal"] if o.get("as_str") else g, conds=(list(o["conds"]) if o.get("as_str") else cs)))
            elif nm == "bycalc":
                obj, _ = self.find(o["i"], o["lab"])
                quiet(obj.proof_by_calculation)
            elif nm == "byind":
                obj, _ = self.find(o["i"], o["lab"])
                st = P(o["start"])
                a.update({"a": it.S(o["var"]), "b": it.E(st)})
                start = int(o["start"]) if (o.get("int_start") and re.fullmatch(r"\d+", o["start"])) else st
                quiet(lambda: obj.proof_by_induction(o["var"], start))
            elif nm == "bycase":
                obj, _ = self.find(o["i"], o["lab"])
                a["a"] = it.E(P(o["cond"]))
                quiet(lambda: obj.proof_by_case(o["cond"]))
            elif nm == "byrw":
                obj, _ = self.find(o["i"], o["lab"])
                begin = f.content[o["j"] - 1]
                a.update({"a": o["j"], "cs": conds_of(it, begin.conds)})
                quiet(lambda: obj.proof_by_rewrite_goal(begin=begin))
            elif nm == "perform":
                obj, w = self.find(o["i"], o["lab"])
                calc = obj.begin if type(obj).__name__ == "RewriteGoalProof" else obj
                rule = mk_rule(o["rule"])
                a["rule"] = it.R(rule)
                n = len(calc.steps)
                dom = -1 <= o["id"] <= n - 1
                via = o.get("via", "id")
                # what app/integral.py does: perform on the selected object, then ask for the label of the new step
                if via == "step" and 0 <= o["id"] <= n - 1:
                    sel, sl = calc.steps[o["id"]], list(o["lab"]) + [o["id"]]
                    quiet(lambda: sel.perform_rule(rule))
                    self.next_label(a, sel, sl)
                elif via == "end" and o["id"] == n - 1:
                    quiet(lambda: calc.perform_rule(rule))
                    self.next_label(a, obj, list(o["lab"]))
                else:
                    quiet(lambda: calc.perform_rule(rule, o["id"]))
            elif nm == "clear":
                obj, _ = self.find(o["i"], o["lab"])
                quiet(obj.clear)
            elif nm == "pclear":
                obj, _ = self.find(o["i"], o["lab"])
                quiet(obj.proof.clear)
            else:
                raise ValueError("x07: unknown operation " + nm)
            return "ok", "", False, a, dom
        except Unobservable:
            raise
        except RecursionError:
            return "exc", "RecursionError", False, a, dom
        except Exception as ex:
            return "exc", type(ex).__name__, isinstance(ex, AssertionError), a, dom

    def next_label(self, a, sel, lab):
        try:
            a["nsl"] = list(compstate.get_next_step_label(sel, compstate.Label(list(lab))).data)
            a["hasn"] = True
        except Exception:
            pass

    def step(self, o, log=True, expect=None):
        """one operation (or reload) of the session, logged as an event when asked"""
        if o["nm"] == "reload":
            self.reload(log=log, cont=True)
            self.hist.append(o)
            return "ok"
        if self.mode_b:
            # the server: a new CompFile from the exported content, for every request
            try:
                self.file = reparse(self.file)[0]
            except Exception:
                pass       # reported by the reload events
        try:
            before = self.view() if log else None
        except Unobservable as ex:
            self.out.emit({"kind": "unobs", "src": self.src, "key": self.key(), "why": str(ex)})
            before, log = None, False
        try:
            oc, exc, own, a, dom = self.do(o)
        except Unobservable as ex:
            self.hist.append(o)
            self.out.emit({"kind": "unobs", "src": self.src, "key": self.key(), "why": str(ex)})
            return "unobs"
        self.hist.append(o)
        if not log:
            return oc
        try:
            after = self.view()
        except Unobservable as ex:
            self.out.emit({"kind": "unobs", "src": self.src, "key": self.key(), "why": str(ex)})
            return oc
        i = a["i"]
        ev = {"kind": "op", "src": self.src, "key": self.key(), "op": a, "oc": oc, "exc": exc, "own": own, "dom": dom,
              "bd": before.digs, "ad": after.digs, "items": after.items,
              "bt": before.walks[i - 1].nodes if 1 <= i <= len(before.walks) else [],
              "at": after.walks[i - 1].nodes if 1 <= i <= len(after.walks) else [],
              "via": o.get("via", ""), "modeb": self.mode_b, "hasx": False, "expect": [], "hist": json.dumps(self.hist)}
        if expect is not None and 1 <= i <= len(expect):
            ev["hasx"], ev["expect"] = True, expect[i - 1]
        self.out.emit(ev)
        return oc

    def labels(self, universe="grid", extra=0, rnd=None):
        """get_by_label of every item: universe = "grid" (every label over 0..2 up to length 3), "walk" (the labels of the nodes plus
        `extra` seeded perturbations of them) or an explicit list of labels"""
        for i, item in enumerate(list(self.file.content)):
            try:
                w = walk(self.it, self.file, item)
            except Unobservable:
                continue
            if universe == "grid":
                labs = [()] + [(x,) for x in range(3)] + [(x, y) for x in range(3) for y in range(3)] + \
                       [(x, y, z) for x in range(3) for y in range(3) for z in range(3)]
            elif universe == "walk":
                valid = sorted(w.objs)
                labs = list(valid)
                r = rnd or random.Random(0)
                for _ in range(extra):
                    b = list(r.choice(valid))
                    c = r.randrange(4)
                    if c == 0:
                        b.append(r.randrange(4))
                    elif c == 1 and b:
                        b[r.randrange(len(b))] += r.randrange(1, 4)
                    elif c == 2:
                        b += [r.randrange(3), r.randrange(3)]
                    elif b:
                        b[-1] = len([x for x in valid if len(x) == len(b) and x[:-1] == tuple(b[:-1])])
                    labs.append(tuple(b))
                labs = sorted(set(labs))
            else:
                labs = [tuple(x) for x in universe]
            byid = {}
            for lab, obj in w.objs.items():
                byid.setdefault(id(obj), lab)
            probes = []
            for lab in labs:
                p = {"lab": list(lab), "oc": "own", "rl": [], "rk": "", "exc": ""}
                try:
                    # both public forms of a label: the list and the dotted 1-based string
                    lb = compstate.Label(list(lab)) if (len(lab) % 2 == 0) else compstate.Label("".join("%d." % (x + 1) for x in lab))
                    got = quiet(item.get_by_label, lb)
                    p["oc"] = "node"
                    p["rk"] = KIND.get(type(got).__name__, type(got).__name__)
                    if id(got) in byid:
                        p["rl"] = list(byid[id(got)])
                    else:
                        p["rl"], p["rk"] = [99], "unknown:" + p["rk"]
                except AssertionError:
                    p["oc"], p["exc"] = "own", "AssertionError"
                except Exception as ex:
                    p["oc"], p["exc"] = "foreign", type(ex).__name__
                probes.append(p)
            self.out.emit({"kind": "labels", "src": self.src, "key": self.key() + "|labels:%d" % (i + 1), "i": i + 1, "t": w.nodes,
                           "probes": probes, "modeb": self.mode_b, "hist": json.dumps(self.hist)})

    def reload(self, log=True, cont=False):
        it = self.it
        ev = {"kind": "reload", "src": self.src, "key": self.key() + "|reload", "oc": "ok", "exc": "", "bd": [], "ad": [], "ex1": [], "ex2": [],
              "modeb": self.mode_b, "hist": json.dumps(self.hist)}
        new = None
        try:
            ev["bd"] = self.view().digs
            try:
                quiet(self.file.export)
            except RecursionError:
                raise
            except Exception as ex:
                ev["oc"], ev["exc"] = "excexport", type(ex).__name__
                raise Unexportable()
            new, data = reparse(self.file)
            ev["ex1"] = [it.D(x) for x in data["content"]]
            old, self.file = self.file, new
            try:
                ev["ad"] = self.view().digs
            finally:
                self.file = old
            ev["ex2"] = [it.D(x) for x in json.loads(json.dumps(quiet(new.export)))["content"]]
        except Unobservable as ex:
            ev = {"kind": "unobs", "src": self.src, "key": ev["key"], "why": str(ex)}
        except Unexportable:
            pass
        except RecursionError:
            ev["oc"], ev["exc"] = "exc", "RecursionError"
        except Exception as ex:
            ev["oc"], ev["exc"] = "exc", type(ex).__name__
        if log:
            self.out.emit(ev)
        if cont and new is not None and ev.get("oc") == "ok":
            self.file = new
        return ev


# ------------------------------------------------------------------------------------------------ behaviours of the specification
def concrete(s):
    """an operation of spec/X07_CompFile.tla -> an operation on the real objects"""
    nm = s["nm"]
    lab = list(s["lab"])
    if nm == "adddef":
        return {"nm": nm, "eq": DEF, "conds": []}
    if nm == "addgoal":
        return {"nm": nm, "goal": "%s = %s" % (EXPRS[s["a"]], EXPRS[s["b"]]), "conds": [CONDS[91]] if s["res"] else []}
    if nm == "byind":
        return {"nm": nm, "i": s["i"], "lab": lab, "var": "n", "start": "0"}
    if nm == "bycase":
        return {"nm": nm, "i": s["i"], "lab": lab, "cond": CONDS[92]}
    if nm == "byrw":
        return {"nm": nm, "i": s["i"], "lab": lab, "j": s["a"]}
    if nm == "perform":
        return {"nm": nm, "i": s["i"], "lab": lab, "id": s["id"] if s["keep"] else -1, "rule": TLC_RULES[s["rule"]]}
    return {"nm": nm, "i": s["i"], "lab": lab}


def mode_replay(logp, outp, seed):
    out = Out(outp)
    rnd = random.Random(seed)
    nb = 0
    for ln in open(logp):
        if not ln.startswith('<<"X07"'):
            continue
        m = re.match(r'<<"X07", (".*")>>\s*$', ln)
        if not m:
            continue
        beh = json.loads(json.loads(m.group(1)))
        nb += 1
        steps = [concrete(s) for s in beh["steps"]]
        for o in steps:
            if o["nm"] == "perform":
                o["via"] = rnd.choice(["id", "step", "end"])
            if o["nm"] == "byind":
                o["int_start"] = rnd.random() < 0.5
            if o["nm"] in ("addgoal", "adddef"):
                o["as_str"] = rnd.random() < 0.5
        for mode_b in (False, True):
            s = Session(out, "tlc", Intern(True), mode_b=mode_b)
            for k, o in enumerate(steps):
                last = k == len(steps) - 1
                # exhaustive behaviours: the earlier steps are the last steps of shorter behaviours; simulated long ones are logged whole
                s.step(dict(o), log=(last or len(steps) > 4), expect=beh["final"] if last else None)
            if not mode_b:
                s.labels()
                s.reload()
    out.emit({"kind": "stats", "src": "tlc", "key": "stats", "behaviours": nb})
    out.close()


# ------------------------------------------------------------------------------------------------ random sessions
R_DEFS = [("f(n) = n + 1", []), ("g(x) = x ^ 2", []), ("h(n) = 1 / n", ["n > 0"]), ("c = 2", [])]
R_GOALS = [("n + 0 = n", []), ("n * 1 = n", ["n >= 0"]), ("f(n) = n + 1", ["n >= 0"]), ("(INT x:[0,1]. x) = 1/2", []),
           ("(INT x:[0,1]. x ^ n) = 1 / (n + 1)", ["n >= 0"]), ("1 / n = 1 / n", []), ("1 / n = 1 / n", ["n >= 1"]), ("x + 1 > x", []),
           ("sin(x) ^ 2 + cos(x) ^ 2 = 1", []), ("g(2) = 4", []), ("(INT x:[0,a]. 2 * x) = a ^ 2", ["a > 0"]), ("n = n + 0", []),
           ("log(x) = log(x)", []), ("(INT x:[1,2]. 1 / x) = log(2)", []), ("n <= n + 1", []), ("f(n + 1) = f(n) + 1", ["n >= 0"])]
R_CASES = ["n = 0", "x = 1", "x ^ 2 = 1", "a = 1 / 2", "n > 0", "sqrt(x) = 1"]
R_STARTS = ["0", "0", "1", "2", "m"]
R_TARGETS = ["n", "n + 0", "1/2", "a ^ 2", "n + 1", "1", "x", "1 / (n + 1)", "4", "log(2)", "n + 1 + 0", "0"]


def r_rule(rnd, nprev):
    c = rnd.randrange(12)
    if c <= 3:
        return {"name": "FullSimplify"}
    if c <= 5:
        return {"name": "Equation", "new_expr": rnd.choice(R_TARGETS)}
    if c == 6:
        return {"name": "ExpandDefinition", "func_name": rnd.choice(["f", "g", "h", "c"])}
    if c == 7:
        return {"name": "ApplyInductHyp", "loc": "subterms"}
    if c == 8:
        return {"name": "DefiniteIntegralIdentity"}
    if c == 9:
        return {"name": "FullSimplify", "loc": rnd.choice(["0", "1", "0.0"])}
    if c == 10:
        return {"name": "ExpandPolynomial"}
    return {"name": "Substitution", "var_name": "u", "var_subst": rnd.choice(["x + 1", "2 * x"])}


def mode_rand(outp, n, seed):
    out = Out(outp)
    for k in range(n):
        rnd = random.Random(seed * 1000003 + k)
        s = Session(out, "rand%d.%d" % (seed, k), Intern(False), mode_b=(k % 3 == 2), name="session%d" % k)
        nops = rnd.randrange(8, 25)
        for _ in range(nops):
            o = rand_op(rnd, s)
            if o is None:
                continue
            s.step(o)
            if rnd.random() < 0.12:
                s.labels("walk", extra=6, rnd=rnd)
        s.labels("walk", extra=10, rnd=rnd)
        s.reload()
    out.emit({"kind": "stats", "src": "rand", "key": "stats", "behaviours": n})
    out.close()


def rand_op(rnd, s):
    f = s.file
    n = len(f.content)
    c = rnd.random()
    if n == 0 or (c < 0.10 and n < 6):
        if rnd.random() < 0.25:
            eq, cs = rnd.choice(R_DEFS)
            return {"nm": "adddef", "eq": eq, "conds": list(cs), "as_str": rnd.random() < 0.5}
        g, cs = rnd.choice(R_GOALS)
        return {"nm": "addgoal", "goal": g, "conds": list(cs), "as_str": rnd.random() < 0.5}
    if c < 0.16:
        return {"nm": "reload"}
    i = rnd.randrange(1, n + 1)
    try:
        w = walk(s.it, f, f.content[i - 1])
    except Unobservable:
        return None
    goals = [x for x in w.nodes if x["k"] == "goal"]
    calcs = [x for x in w.nodes if x["k"] in ("calc", "rw")]
    open_goals = [x for x in goals if x["pk"] == 0]
    c = rnd.random()
    if goals and (c < 0.30 or not calcs):
        g = rnd.choice(open_goals) if (open_goals and rnd.random() < 0.85) else rnd.choice(goals)
        d = rnd.random()
        if d < 0.50:
            return {"nm": "bycalc", "i": i, "lab": g["lab"]}
        if d < 0.68:
            return {"nm": "byind", "i": i, "lab": g["lab"], "var": rnd.choice(["n", "n", "n", "x"]), "start": rnd.choice(R_STARTS), "int_start": rnd.random() < 0.5}
        if d < 0.84:
            return {"nm": "bycase", "i": i, "lab": g["lab"], "cond": rnd.choice(R_CASES)}
        js = [j for j in range(1, i) if type(f.content[j - 1]).__name__ == "Goal"]
        if js:
            return {"nm": "byrw", "i": i, "lab": g["lab"], "j": rnd.choice(js)}
        return {"nm": "bycalc", "i": i, "lab": g["lab"]}
    if calcs and c < 0.82:
        cl = rnd.choice(calcs)
        ns = len([x for x in w.nodes if x["k"] == "step" and x["lab"][:-1] == cl["lab"]])
        d = rnd.random()
        ident = ns - 1 if d < 0.6 else rnd.randrange(-1, ns)
        return {"nm": "perform", "i": i, "lab": cl["lab"], "id": ident, "rule": r_rule(rnd, i - 1), "via": rnd.choice(["id", "step", "end", "end"])}
    x = rnd.choice(w.nodes)
    if x["k"] == "goal" and x["pk"] != 0 and rnd.random() < 0.4:
        return {"nm": "pclear", "i": i, "lab": x["lab"]}
    return {"nm": "clear", "i": i, "lab": x["lab"]}


# ------------------------------------------------------------------------------------------------ recorded example files
BOOKS = ("base", "tongji", "UCDavis", "MIT", "interesting")


def example_files():
    exdir = os.path.join(os.path.dirname(compstate.__file__), "examples")
    books = book_of(exdir)
    res = []
    for fn in sorted(os.listdir(exdir)):
        if not fn.endswith(".json") or fn == "index.json" or fn[:-5] in BOOKS:
            continue
        try:
            data = json.load(open(os.path.join(exdir, fn), encoding="utf-8"))
        except Exception:
            continue
        if "content" not in data:
            continue
        res.append((fn[:-5], books.get(fn[:-5], "base"), data))
    return res


def mode_examples(outp, seed, maxfiles=0, only=None):
    out = Out(outp)
    files = example_files()
    rnd0 = random.Random(seed)
    if only:
        files = [x for x in files if x[0] == only]
    elif maxfiles and maxfiles < len(files):
        files = sorted(rnd0.sample(files, maxfiles))
    nload = 0
    for name, book, data in files:
        rnd = random.Random("%d:%s" % (seed, name))
        s = Session(out, "ex:" + name, Intern(False), name=name)
        try:
            s.file = quiet(compstate.CompFile, book, name)
            for item in data["content"]:
                s.file.add_item(quiet(compstate.parse_item, s.file, json.loads(json.dumps(item))))
        except Exception as ex:
            out.emit({"kind": "exload", "src": "ex:" + name, "key": "exload:" + name, "exc": type(ex).__name__})
            continue
        nload += 1
        s.hist = [{"nm": "load", "file": name, "book": book}]
        s.key = (lambda s=s, name=name: "ex:%s:%s" % (name, ";".join(opdesc(o) for o in s.hist[1:]))[:900])
        s.reload()
        s.labels("walk", extra=4, rnd=rnd)
        # clear at seeded random nodes, perform the cleared steps again (fresh rule objects parsed from their export)
        for _ in range(3):
            cands = []
            for i, item in enumerate(s.file.content):
                try:
                    w = walk(s.it, s.file, item)
                except Unobservable:
                    continue
                for nd in w.nodes:
                    if nd["k"] in ("step", "calc", "rw", "goal"):
                        cands.append((i + 1, nd, w))
            if not cands:
                break
            i, nd, w = rnd.choice(cands)
            redo = []
            if nd["k"] == "step":
                c = tuple(nd["lab"][:-1])
                k0 = nd["lab"][-1]
            elif nd["k"] in ("calc", "rw"):
                c, k0 = tuple(nd["lab"]), 0
            else:
                c, k0 = None, 0
            if c is not None:
                k = k0
                while c + (k,) in w.objs:
                    try:
                        redo.append((k - 1, json.loads(json.dumps(w.objs[c + (k,)].rule.export()))))
                    except Exception:
                        break
                    k += 1
            s.step({"nm": "clear", "i": i, "lab": list(nd["lab"])})
            for ident, rj in redo[:6]:
                if s.step({"nm": "perform", "i": i, "lab": list(c), "id": ident, "rule": rj, "via": rnd.choice(["id", "end", "step"])}) != "ok":
                    break
        s.reload()
    out.emit({"kind": "stats", "src": "ex", "key": "stats", "behaviours": nload})
    out.close()


# ------------------------------------------------------------------------------------------------ rule export / parse
def rule_instances():
    e = P
    R = rules
    return [
        ("Simplify", lambda: R.Simplify()), ("Linearity", lambda: R.Linearity()), ("CommonIntegral", lambda: R.CommonIntegral()),
        ("FunctionTable", lambda: R.FunctionTable()), ("ApplyIdentity", lambda: R.ApplyIdentity(e("sin(x) ^ 2"), e("1 - cos(x) ^ 2"))),
        ("DefiniteIntegralIdentity", lambda: R.DefiniteIntegralIdentity()), ("SeriesExpansionIdentity", lambda: R.SeriesExpansionIdentity(index_var="n")),
        ("SeriesExpansionIdentity/old", lambda: R.SeriesExpansionIdentity(old_expr=e("exp(x)"), index_var="k")),
        ("SeriesEvaluationIdentity", lambda: R.SeriesEvaluationIdentity()), ("IndefiniteIntegralIdentity", lambda: R.IndefiniteIntegralIdentity()),
        ("ReplaceSubstitution", lambda: R.ReplaceSubstitution()), ("DerivativeSimplify", lambda: R.DerivativeSimplify()),
        ("SimplifyIdentity", lambda: R.SimplifyIdentity()), ("OnSubterm", lambda: R.OnSubterm(R.FullSimplify())),
        ("OnLocation", lambda: R.OnLocation(R.FullSimplify(), "0.1")), ("OnLocation/OnSubterm", lambda: R.OnLocation(R.OnSubterm(R.ApplyInductHyp()), "1")),
        ("OnSubterm/OnLocation", lambda: R.OnSubterm(R.OnLocation(R.FullSimplify(), "0"))), ("SimplifyPower", lambda: R.SimplifyPower()),
        ("ReduceLimit", lambda: R.ReduceLimit()), ("FullSimplify", lambda: R.FullSimplify()), ("ApplyEquation", lambda: R.ApplyEquation(e("f(x) = x"))),
        ("ApplyInductHyp", lambda: R.ApplyInductHyp()), ("Substitution", lambda: R.Substitution("u", e("x + 1"))),
        ("SubstitutionInverse", lambda: R.SubstitutionInverse("u", e("u - 1"))), ("ExpandPolynomial", lambda: R.ExpandPolynomial()),
        ("Equation", lambda: R.Equation(None, e("x"))), ("Equation/old", lambda: R.Equation(e("x + 0"), e("x"))),
        ("IntegrationByParts", lambda: R.IntegrationByParts(e("x"), e("exp(x)"))), ("SplitRegion", lambda: R.SplitRegion(e("1"))),
        ("IntegrateByEquation", lambda: R.IntegrateByEquation(e("INT x:[0,1]. x"))), ("ElimInfInterval", lambda: R.ElimInfInterval()),
        ("ElimInfInterval/a", lambda: R.ElimInfInterval(e("1"))), ("LHopital", lambda: R.LHopital()), ("DerivIntExchange", lambda: R.DerivIntExchange()),
        ("ExpandDefinition", lambda: R.ExpandDefinition("f")), ("FoldDefinition", lambda: R.FoldDefinition("f")),
        ("IntegralEquation", lambda: R.IntegralEquation()), ("LimitEquation", lambda: R.LimitEquation("x", e("oo"))),
        ("IntSumExchange", lambda: R.IntSumExchange()), ("VarSubsOfEquation", lambda: R.VarSubsOfEquation([{"var": "x", "expr": "1"}])),
        ("MergeSummation", lambda: R.MergeSummation()), ("SummationSimplify", lambda: R.SummationSimplify()),
        ("DerivEquation", lambda: R.DerivEquation("x")), ("SolveEquation", lambda: R.SolveEquation(e("x"))),
    ]


def mode_rules(outp):
    out = Out(outp)
    it = Intern(False)
    seen = set()
    for name, mk in rule_instances():
        ev = {"kind": "rule", "src": "rules", "key": "rule:" + name, "rule": name, "oc": "ok", "exc": "", "ex1": 0, "ex2": 0, "inmut": False}
        try:
            r = quiet(mk)
            d1 = json.loads(json.dumps(r.export()))
        except Exception as ex:
            out.emit({"kind": "unobs", "src": "rules", "key": "rule:" + name, "why": "cannot build / export: " + type(ex).__name__})
            continue
        seen.add(type(r).__name__)
        ev["ex1"] = it.D(d1)
        try:
            arg = json.loads(json.dumps(d1))
            r2 = quiet(compstate.parse_rule, arg)
            ev["inmut"] = arg != d1          # parse_rule changed the dictionary it was given
            ev["ex2"] = it.D(json.loads(json.dumps(r2.export())))
        except Exception as ex:
            ev["oc"], ev["exc"] = "exc", type(ex).__name__
        out.emit(ev)
    # rule classes of integral/rules.py that the list above does not know (added later): named, not judged
    import inspect
    missing = sorted(n for n, c in vars(rules).items() if inspect.isclass(c) and issubclass(c, rules.Rule) and c is not rules.Rule and n not in seen)
    out.emit({"kind": "stats", "src": "rules", "key": "stats", "behaviours": len(seen), "unlisted": missing})
    out.close()


# ------------------------------------------------------------------------------------------------ re-execution of recorded events
def mode_event(inp, outp):
    out = Out(outp)
    for ln in open(inp):
        ln = ln.strip()
        if not ln:
            continue
        e = json.loads(ln)
        src = str(e.get("src", ""))
        if e["kind"] == "rule":
            tmp = outp + ".rules"
            mode_rules(tmp)
            for l2 in open(tmp):
                e2 = json.loads(l2)
                if e2.get("key") == e["key"]:
                    out.emit(e2)
            continue
        hist = json.loads(e.get("hist") or "[]")
        if src.startswith("ex:"):
            name = src[3:]
            books = book_of(os.path.join(os.path.dirname(compstate.__file__), "examples"))
            data = json.load(open(os.path.join(os.path.dirname(compstate.__file__), "examples", name + ".json"), encoding="utf-8"))
            s = Session(out, src, Intern(False), name=name)
            s.file = quiet(compstate.CompFile, books.get(name, "base"), name)
            for item in data["content"]:
                s.file.add_item(quiet(compstate.parse_item, s.file, json.loads(json.dumps(item))))
            s.hist = [hist[0]] if hist else []
            s.key = (lambda s=s, name=name: "ex:%s:%s" % (name, ";".join(opdesc(o) for o in s.hist[1:]))[:900])
            ops = hist[1:]
        else:
            s = Session(out, src, Intern(src == "tlc"), mode_b=bool(e.get("modeb")))
            ops = hist
        for k, o in enumerate(ops):
            s.step(dict(o), log=(e["kind"] == "op" and k == len(ops) - 1), expect=None)
        if e["kind"] == "labels":
            s.labels(universe=[tuple(p["lab"]) for p in e["probes"]])
        elif e["kind"] == "reload":
            s.reload()
    out.close()


def main(argv):
    mode = argv[0]
    if mode == "replay":
        mode_replay(argv[1], argv[2], int(argv[3]))
    elif mode == "rand":
        mode_rand(argv[1], int(argv[2]), int(argv[3]))
    elif mode == "examples":
        mode_examples(argv[1], int(argv[2]), int(argv[3]) if len(argv) > 3 else 0)
    elif mode == "rules":
        mode_rules(argv[1])
    elif mode == "event":
        mode_event(argv[1], argv[2])
    else:
        raise SystemExit("unknown mode " + mode)


if __name__ == "__main__":
    main(sys.argv[1:])
