"""C12 driver: executes ONE history of loader operations in this (fresh) process and logs an event per operation.

usage:  python -m harness.drivers.c12 run <script.json> <out.ndjson>
        python -m harness.drivers.c12 modtrace <module> <out.json>     (which theories does importing <module> load?)
        python -m harness.drivers.c12 graph <out.json>                 (imports and items of the library files; lazy-import table)

script = {"hid": str, "lib": path | null, "ops": [op...]}
  {"op": "import", "module": "data.real"}
  {"op": "load", "name": th, "limit": null | "start" | [ty, name]}
  {"op": "fault", "name": th}          load with an exception injected while th's own items are parsed (half way)
  {"op": "touch", "name": th, "const": cname}     append a constant item to the scratch copy of th's file, new mtime
  {"op": "reimport", "name": th, "imports": [..]} give the scratch copy of th's file another import list, new mtime
  {"op": "items", "names": [th...]}    dump per-item extension names of the cached theories (canonical process only)
Nothing under the repository is written: with "lib" set, the two path helpers of logic/basic.py are redirected to the
scratch directory before the first load (path resolution only).  No verdict is computed here.
"""
import hashlib
import importlib
import json
import os
import re
import sys
import time
import types


def install_smt_shim():
    m = types.ModuleType("smt")
    m.__path__ = [os.path.join(os.getcwd(), "smt")]
    sys.modules["smt"] = m


def canon(v):
    from kernel.type import Type
    from kernel.term import Term
    from kernel.thm import Thm
    from harness.codec import enc, encT, encS
    if isinstance(v, Type):
        return encT(v)
    if isinstance(v, Term):
        return enc(v)
    if isinstance(v, Thm):
        return encS(v)
    if isinstance(v, dict):
        return {str(k): canon(x) for k, x in sorted(v.items(), key=lambda kv: str(kv[0]))}
    if isinstance(v, (list, tuple)):
        return [canon(x) for x in v]
    if isinstance(v, (set, frozenset)):
        return sorted(str(canon(x)) for x in v)
    if isinstance(v, (str, int, float, bool)) or v is None:
        return v
    return "<%s>" % type(v).__name__


def project(thy):
    d = thy.data
    full = {k: canon(v) for k, v in sorted(d.items()) if k != "theorems_svar"}
    dig = hashlib.sha1(json.dumps(full, sort_keys=True).encode()).hexdigest()
    names = [[0, n] for n in sorted(d.get("type_sig", {}))] + [[1, n] for n in sorted(d.get("term_sig", {}))] + \
            [[2, n] for n in sorted(d.get("theorems", {}))]
    return dig, names


def run(script_path, out_path):
    script = json.load(open(script_path))
    install_smt_shim()
    from logic import basic
    from kernel import theory
    from server import items
    if script.get("lib"):
        lib = script["lib"]
        basic.user_dir = lambda username="master": lib + "/"
        basic.user_file = lambda filename, username="master": os.path.join(lib, filename + ".json")
    out = open(out_path, "w")
    tid = 0
    edits = []
    reimports = []
    hist = []
    for op in script["ops"]:
        ev = {"hid": script["hid"], "op": op["op"], "hist": list(hist), "edits": list(edits), "reimports": [list(r) for r in reimports]}
        t0 = time.time()
        try:
            if op["op"] == "import":
                ev["module"] = op["module"]
                importlib.import_module(op["module"])
            elif op["op"] in ("load", "fault"):
                lim = op.get("limit")
                ev["name"] = op["name"]
                ev["limit"] = ["none", "none"] if lim is None else (["start", "start"] if lim == "start" else list(lim))
                if op["op"] == "fault":
                    orig_load, orig_parse = basic.load_json_data, items.parse_item
                    state = {"active": False, "n": 0, "at": None}

                    def load_json_data(filename, username="master"):
                        data = orig_load(filename, username)
                        if filename == op["name"] and "content" in data:
                            state["active"] = True
                            state["n"] = 0
                            state["at"] = max(1, len(data["content"]) // 2)
                        else:
                            state["active"] = False
                        return data

                    def parse_item(data):
                        if state["active"]:
                            state["n"] += 1
                            if state["n"] == state["at"]:
                                state["active"] = False
                                raise RuntimeError("verif: injected failure while parsing %s" % op["name"])
                        return orig_parse(data)
                    basic.load_json_data, items.parse_item = load_json_data, parse_item
                    try:
                        basic.load_theory(op["name"])
                    finally:
                        basic.load_json_data, items.parse_item = orig_load, orig_parse
                else:
                    basic.load_theory(op["name"], limit=None if lim is None else (lim if lim == "start" else tuple(lim)))
            elif op["op"] == "touch":
                ev["name"] = op["name"]
                path = basic.user_file(op["name"])
                data = json.load(open(path, encoding="utf-8"))
                data["content"].append({"ty": "def.ax", "name": op["const"], "type": "bool"})
                old = os.path.getmtime(path)
                json.dump(data, open(path, "w", encoding="utf-8"))
                dt = op.get("mtime_delta", 10)      # a changed file may also carry an OLDER modification time (restored backup, cp -p)
                os.utime(path, (old + dt, old + dt))
                edits.append([op["name"], op["const"]])
                ev["edits"] = list(edits)
            elif op["op"] == "reimport":
                # the scratch copy of th's file gets another import list (and a new modification time)
                ev["name"] = op["name"]
                path = basic.user_file(op["name"])
                data = json.load(open(path, encoding="utf-8"))
                data["imports"] = list(op["imports"])
                old = os.path.getmtime(path)
                json.dump(data, open(path, "w", encoding="utf-8"))
                os.utime(path, (old + 10, old + 10))
                reimports.append([op["name"], list(op["imports"])])
                ev["reimports"] = [list(r) for r in reimports]
            elif op["op"] == "items":
                tab = {}
                for th in op["names"]:
                    c = basic.load_theory_cache(th)
                    tab[th] = [[it.ty, it.name, it.error is None,
                                [[e.ty, e.name] for e in it.get_extension()] if it.error is None else []]
                               for it in c["content"]]
                ev["items"] = tab
            ev["outcome"] = "ok"
        except BaseException as e:  # noqa
            ev["outcome"] = "exc:" + type(e).__name__
            ev["message"] = str(e)[:200]
        ev["secs"] = round(time.time() - t0, 2)
        if op["op"] in ("load", "fault") and ev["outcome"] == "ok":
            ev["digest"], ev["installed"] = project(theory.thy)
        else:
            ev["digest"], ev["installed"] = "none", []
        tid += 1
        ev["tid"] = tid
        out.write(json.dumps(ev, separators=(",", ":")) + "\n")
        out.flush()
        hist.append([op["op"], op.get("name", op.get("module", ""))])
    out.close()


def modtrace(module, out_path):
    """Nested trace of holpy-module executions and basic.load_theory calls caused by importing `module` first."""
    install_smt_shim()
    import importlib.abc
    import importlib.machinery
    root = os.getcwd()
    events = []

    class Finder(importlib.abc.MetaPathFinder):
        def find_spec(self, name, path, target=None):
            spec = importlib.machinery.PathFinder.find_spec(name, path, target)
            if spec is None or spec.origin is None or not str(spec.origin).startswith(root) or spec.loader is None:
                return None
            loader = spec.loader
            orig = loader.exec_module

            def exec_module(mod, _orig=orig, _name=name):
                events.append(["begin", _name])
                try:
                    _orig(mod)
                finally:
                    events.append(["end", _name])
            try:
                loader.exec_module = exec_module
            except Exception:
                return None
            return spec
    from logic import basic          # the loader itself must be importable without side effect
    orig_load = basic.load_theory

    def load_theory(filename, **kw):
        events.append(["load", filename])
        try:
            return orig_load(filename, **kw)
        finally:
            events.append(["endload", filename])
    basic.load_theory = load_theory
    sys.meta_path.insert(0, Finder())
    err = None
    try:
        importlib.import_module(module)
    except BaseException as e:  # noqa
        err = type(e).__name__ + ": " + str(e)[:200]
    json.dump({"module": module, "events": events, "error": err, "preloaded": sorted(m for m in sys.modules if m.split(".")[0] in
              ("data", "prover", "logic", "kernel", "server", "syntax", "imperative", "smt", "integral", "util"))}, open(out_path, "w"))


def graph(out_path):
    src = open("logic/basic.py").read()
    lazy = re.findall(r"if filename == '(\w+)':\s*\n\s*from (\S+) import (\S+)", src)
    lib = {}
    for fn in sorted(os.listdir("library")):
        if fn.endswith(".json"):
            d = json.load(open(os.path.join("library", fn), encoding="utf-8"))
            lib[fn[:-5]] = {"imports": d["imports"], "items": [[it["ty"], it.get("name", "")] for it in d["content"]]}
    json.dump({"lazy": [[t, "%s.%s" % (p, m)] for t, p, m in lazy], "library": lib}, open(out_path, "w"))


if __name__ == "__main__":
    if sys.argv[1] == "run":
        run(sys.argv[2], sys.argv[3])
    elif sys.argv[1] == "modtrace":
        modtrace(sys.argv[2], sys.argv[3])
    elif sys.argv[1] == "graph":
        graph(sys.argv[2])
