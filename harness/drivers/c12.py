"""C12 driver: executes ONE history of loader operations in this (fresh) process and logs an event per operation.

usage:  python -m harness.drivers.c12 run <script.json> <out.ndjson>
        python -m harness.drivers.c12 modtrace <module> <out.json>     (which theories does importing <module> load?)
        python -m harness.drivers.c12 graph <out.json>                 (imports and items of the library files; lazy-import table)

script = {"hid": str, "lib": path | null, "ops": [op...]}
  {"op": "import", "module": "data.real"}
  {"op": "load", "name": th, "limit": null | "start" | [ty, name]}
  {"op": "fault", "name": th}          load with an exception injected while th's own items are parsed (half way)
  {"op": "touch", "name": th, "const": cname [, "at": index | "before": [ty, name]]}    insert a constant item into the scratch copy of
                                       th's file (default: append), new mtime;  {"op": "touch", "name": th, "delete": index |
                                       "delete_item": [ty, name]} deletes an item
  {"op": "reimport", "name": th, "imports": [..]} give the scratch copy of th's file another import list, new mtime
  {"op": "create", "name": new, "copy": th | null [, "imports": [..]]}   new file = copy of th's current file (optionally other imports);
                                       without "copy": a theory without items
  {"op": "remove", "name": th}         delete th's file from the scratch library
Every event carries "fs": the log of the file operations done so far, [kind, file, arg, position, imports] with kind in
create (arg = copied theory) / remove / ins (arg = constant name) / del / reimport, from which the trace specification computes
the current content of the scratch library; "hist": [op, name, json of the operation] of the earlier operations.
  {"op": "items", "names": [th...]}    dump per-item extension names of the cached theories (canonical process only)
Nothing under the repository is written: with "lib" set, the two path helpers of logic/basic.py are redirected to the
scratch directory before the first load (path resolution only).  No verdict is computed here.
"""
import hashlib
import importlib
import json
import os
import re
import sys
import time
import types


def install_smt_shim():
    m = types.ModuleType("smt")
    m.__path__ = [os.path.join(os.getcwd(), "smt")]
    sys.modules["smt"] = m


def canon(v):
    from kernel.type import Type
    from kernel.term import Term
    from kernel.thm import Thm
    from harness.codec import enc, encT, encS
    if isinstance(v, Type):
        return encT(v)
    if isinstance(v, Term):
        return enc(v)
    if isinstance(v, Thm):
        return encS(v)
    if isinstance(v, dict):
        return {str(k): canon(x) for k, x in sorted(v.items(), key=lambda kv: str(kv[0]))}
    if isinstance(v, (list, tuple)):
        return [canon(x) for x in v]
    if isinstance(v, (set, frozenset)):
        return sorted(str(canon(x)) for x in v)
    if isinstance(v, (str, int, float, bool)) or v is None:
        return v
    return "<%s>" % type(v).__name__


def project(thy):
    d = thy.data
    full = {k: canon(v) for k, v in sorted(d.items()) if k != "theorems_svar"}
    dig = hashlib.sha1(json.dumps(full, sort_keys=True).encode()).hexdigest()
    names = [[0, n] for n in sorted(d.get("type_sig", {}))] + [[1, n] for n in sorted(d.get("term_sig", {}))] + \
            [[2, n] for n in sorted(d.get("theorems", {}))]
    return dig, names


def _write_json(path, data, mtime):
    with open(path, "w", encoding="utf-8") as f:
        json.dump(data, f)
    os.utime(path, (mtime, mtime))


def run(script_path, out_path):
    install_smt_shim()
    from logic import basic          # noqa: the loader must be importable without side effect
    run_script(json.load(open(script_path)), out_path)


def run_script(script, out_path):
    from logic import basic
    from kernel import theory
    from server import items
    if script.get("lib"):
        lib = script["lib"]
        basic.user_dir = lambda username="master": lib + "/"
        basic.user_file = lambda filename, username="master": os.path.join(lib, filename + ".json")
    out = open(out_path, "w")
    tid = 0
    fs = []          # log of the successful file operations on the scratch library: [kind, file, arg, pos, imports]
    hist = []
    last_mtime = {}

    def scratch_path(name):
        assert script.get("lib"), "file operations need a scratch library"
        return basic.user_file(name)

    def new_mtime(path, name, dt=10):
        # every version of a file gets a modification time of its own (dt may be negative: restored backup, cp -p)
        old = os.path.getmtime(path) if os.path.exists(path) else last_mtime.get(name, time.time() - 1000)
        return old + dt

    for op in script["ops"]:
        ev = {"hid": script["hid"], "op": op["op"], "hist": [list(h) for h in hist], "fs": [list(x) for x in fs]}
        t0 = time.time()
        try:
            if op["op"] == "import":
                ev["module"] = op["module"]
                importlib.import_module(op["module"])
            elif op["op"] in ("load", "fault"):
                lim = op.get("limit")
                ev["name"] = op["name"]
                ev["limit"] = ["none", "none"] if lim is None else (["start", "start"] if lim == "start" else list(lim))
                if op["op"] == "fault":
                    orig_load, orig_parse = basic.load_json_data, items.parse_item
                    state = {"active": False, "n": 0, "at": None}

                    def load_json_data(filename, username="master"):
                        data = orig_load(filename, username)
                        if filename == op["name"] and "content" in data:
                            state["active"] = True
                            state["n"] = 0
                            state["at"] = max(1, len(data["content"]) // 2)
                        else:
                            state["active"] = False
                        return data

                    def parse_item(data):
                        if state["active"]:
                            state["n"] += 1
                            if state["n"] == state["at"]:
                                state["active"] = False
                                raise RuntimeError("verif: injected failure while parsing %s" % op["name"])
                        return orig_parse(data)
                    basic.load_json_data, items.parse_item = load_json_data, parse_item
                    try:
                        basic.load_theory(op["name"])
                    finally:
                        basic.load_json_data, items.parse_item = orig_load, orig_parse
                else:
                    basic.load_theory(op["name"], limit=None if lim is None else (lim if lim == "start" else tuple(lim)))
            elif op["op"] == "touch":
                # position-aware edit of the scratch copy of th's file: insert a new constant item (default: append; "at": index;
                # "before": [ty, name] = in front of that item) or delete an item ("delete": index; "delete_item": [ty, name])
                ev["name"] = op["name"]
                path = scratch_path(op["name"])
                data = json.load(open(path, encoding="utf-8"))
                content = data["content"]

                def index_of(key):
                    for k, it in enumerate(content):
                        if it.get("ty") == key[0] and it.get("name", "") == key[1]:
                            return k
                    raise KeyError("no item %s in %s" % (key, op["name"]))
                if "delete" in op or "delete_item" in op:
                    pos = op["delete"] if "delete" in op else index_of(op["delete_item"])
                    if not 0 <= pos < len(content):
                        raise IndexError("delete position %d outside %s" % (pos, op["name"]))
                    del content[pos]
                    entry = ["del", op["name"], "", pos, []]
                else:
                    pos = len(content) if op.get("at") is None else op["at"]
                    if "before" in op:
                        pos = index_of(op["before"])
                    if not 0 <= pos <= len(content):
                        raise IndexError("insert position %d outside %s" % (pos, op["name"]))
                    content.insert(pos, {"ty": "def.ax", "name": op["const"], "type": "bool"})
                    entry = ["ins", op["name"], op["const"], pos, []]
                mt = new_mtime(path, op["name"], op.get("mtime_delta", 10))
                _write_json(path, data, mt)
                fs.append(entry)
            elif op["op"] == "reimport":
                # the scratch copy of th's file gets another import list (and a new modification time)
                ev["name"] = op["name"]
                path = scratch_path(op["name"])
                data = json.load(open(path, encoding="utf-8"))
                data["imports"] = list(op["imports"])
                _write_json(path, data, new_mtime(path, op["name"]))
                fs.append(["reimport", op["name"], "", 0, list(op["imports"])])
            elif op["op"] == "create":
                # a new file in the scratch library: a copy of the CURRENT file of theory op["copy"], optionally with other imports
                ev["name"] = op["name"]
                path = scratch_path(op["name"])
                if op.get("copy"):
                    data = json.load(open(scratch_path(op["copy"]), encoding="utf-8"))
                else:                      # a theory without items
                    data = {"name": op["name"], "imports": [], "description": "", "content": []}
                if op.get("imports") is not None:
                    data["imports"] = list(op["imports"])
                mt = new_mtime(path, op["name"]) if (os.path.exists(path) or op["name"] in last_mtime) else time.time()
                _write_json(path, data, mt)
                fs.append(["create", op["name"], op.get("copy") or "", 0, list(data["imports"])])
            elif op["op"] == "remove":
                ev["name"] = op["name"]
                path = scratch_path(op["name"])
                last_mtime[op["name"]] = os.path.getmtime(path)
                os.remove(path)
                fs.append(["remove", op["name"], "", 0, []])
            elif op["op"] == "items":
                tab = {}
                for th in op["names"]:
                    c = basic.load_theory_cache(th)
                    tab[th] = [[it.ty, it.name, it.error is None,
                                [[e.ty, e.name] for e in it.get_extension()] if it.error is None else []]
                               for it in c["content"]]
                ev["items"] = tab
            ev["outcome"] = "ok"
        except BaseException as e:  # noqa
            ev["outcome"] = "exc:" + type(e).__name__
            ev["message"] = str(e)[:200]
        ev["fs"] = [list(x) for x in fs]
        ev["secs"] = round(time.time() - t0, 2)
        if op["op"] in ("load", "fault") and ev["outcome"] == "ok":
            ev["digest"], ev["installed"] = project(theory.thy)
        else:
            ev["digest"], ev["installed"] = "none", []
        tid += 1
        ev["tid"] = tid
        out.write(json.dumps(ev, separators=(",", ":")) + "\n")
        out.flush()
        hist.append([op["op"], op.get("name", op.get("module", "")), json.dumps(op, sort_keys=True, separators=(",", ":"))])
    out.close()


def modtrace(module, out_path):
    """Nested trace of holpy-module executions and basic.load_theory calls caused by importing `module` first."""
    install_smt_shim()
    import importlib.abc
    import importlib.machinery
    root = os.getcwd()
    events = []

    class Finder(importlib.abc.MetaPathFinder):
        def find_spec(self, name, path, target=None):
            spec = importlib.machinery.PathFinder.find_spec(name, path, target)
            if spec is None or spec.origin is None or not str(spec.origin).startswith(root) or spec.loader is None:
                return None
            loader = spec.loader
            orig = loader.exec_module

            def exec_module(mod, _orig=orig, _name=name):
                events.append(["begin", _name])
                try:
                    _orig(mod)
                finally:
                    events.append(["end", _name])
            try:
                loader.exec_module = exec_module
            except Exception:
                return None
            return spec
    from logic import basic          # the loader itself must be importable without side effect
    orig_load = basic.load_theory

    def load_theory(filename, **kw):
        events.append(["load", filename])
        try:
            return orig_load(filename, **kw)
        finally:
            events.append(["endload", filename])
    basic.load_theory = load_theory
    sys.meta_path.insert(0, Finder())
    err = None
    try:
        importlib.import_module(module)
    except BaseException as e:  # noqa
        err = type(e).__name__ + ": " + str(e)[:200]
    json.dump({"module": module, "events": events, "error": err, "preloaded": sorted(m for m in sys.modules if m.split(".")[0] in
              ("data", "prover", "logic", "kernel", "server", "syntax", "imperative", "smt", "integral", "util"))}, open(out_path, "w"))


def graph(out_path):
    src = open("logic/basic.py").read()
    lazy = re.findall(r"if filename == '(\w+)':\s*\n\s*from (\S+) import (\S+)", src)
    lib = {}
    for fn in sorted(os.listdir("library")):
        if fn.endswith(".json"):
            d = json.load(open(os.path.join("library", fn), encoding="utf-8"))
            lib[fn[:-5]] = {"imports": d["imports"], "items": [[it["ty"], it.get("name", "")] for it in d["content"]]}
    json.dump({"lazy": [[t, "%s.%s" % (p, m)] for t, p, m in lazy], "library": lib}, open(out_path, "w"))


if __name__ == "__main__":
    if sys.argv[1] == "run":
        run(sys.argv[2], sys.argv[3])
        sys.stdout.flush()
        sys.stderr.flush()
        os._exit(0)                   # the events are on disk: skip the interpreter's teardown of a few hundred thousand terms
    elif sys.argv[1] == "modtrace":
        modtrace(sys.argv[2], sys.argv[3])
    elif sys.argv[1] == "graph":
        graph(sys.argv[2])
