"""C05 driver: hands goals to the trusted (level-0) arithmetic steps of the real checker and logs what they assert.

modes
  probe                                   print {"macros": [...]}: the level-0 arithmetic macros found in kernel.theory.global_macros
  vec  <vectors.ndjson> <out.ndjson>      spec -> code: every TLC-generated goal is given to EVERY trusted step as the one-step proof
                                          `0: <macro> goal` through theory.check_proof at the default trust level
  all  <vectors> <out_vec> <out_rand> <n> <seed>   both of the following in one process
  rand <out.ndjson> <n> <seed>            seeded larger inputs: deeper mixed-type ground terms whose right-hand sides come from the code's
                                          OWN evaluators (nat_eval / int_eval / real_eval applied across types), near-equal rationals,
                                          decimal sums that force the float path of const_inequality, polynomial identities with free
                                          variables (real_norm: t = the code's own normal form of t, textbook identities, perturbations),
                                          real powers with compound natural-number exponents (nested truncated subtraction, closed
                                          and with free nat variables), equivalences of comparisons (real_eq_comparison), huge constants,
                                          near-equal irrational constants q + c * sqrt r from 10^1 to 10^60 (fam_surd)
Events: {tid, key, src, goal, acc: [{m, h: [hyps], c: conclusion}] (accepted), rej: [m, ...] (refused with one of the checker's own
         exceptions), raised: [[m, exception class], ...] (foreign exception)}
Terms are projected to the applied form of spec/C05_HolArith.tla by reading raw fields only (no Term.__eq__, is_number,
dest_number, printer or parser: those are under test).  No verdict is computed here.
"""
import json
import random
import sys
from fractions import Fraction

from kernel.type import Type, TFun, TConst, BoolType, NatType, IntType, RealType
from kernel.term import Term, Var, Const, Comb
from kernel import term as kterm
from kernel import theory
from kernel.proof import Proof
from logic import basic
from data import nat, integer, real

basic.load_theory('realintegral')
from integral import inequality  # noqa: E402  (registers const_inequality)

from harness.core import digest  # noqa: E402

BASE = {"nat": NatType, "int": IntType, "real": RealType, "bool": BoolType}
ARITH_MODULES = ("data.nat", "data.integer", "data.real", "integral.inequality")
REFUSALS = {"AssertionError", "ConvException", "CheckProofException", "TermException", "TypeCheckException", "NotImplementedError",
            "TacticException", "MatchException", "TheoryException", "TypeMatchException", "InvalidDerivationException"}
NONE = ["#none", [], [], 0]
OTHER = ["#other", [], [], 0]


def trusted_macros():
    """The computation steps the checker accepts without expansion at the default trust level (macro.level == 0)."""
    out = []
    for name, m in theory.global_macros.items():
        if m.level == 0 and type(m).__module__ in ARITH_MODULES and getattr(m, "sig", None) is Term:
            out.append(name)
    return sorted(out)


# ---------------------------------------------------------------------------------------------------------------------
# structural projection  Term -> applied form   (raw fields only)
# ---------------------------------------------------------------------------------------------------------------------

def _base(T):
    return T.ty == Type.TCONST and len(T.args) == 0


def flatT(T):
    out = []
    while T.ty == Type.TCONST and T.name == "fun" and len(T.args) == 2:
        if not _base(T.args[0]):
            return None
        out.append(T.args[0].name)
        T = T.args[1]
    if not _base(T):
        return None
    out.append(T.name)
    return out


def _binval(t):
    """value of a bit0/bit1 chain over zero/one of type nat, else None"""
    if t.ty == Term.CONST:
        if t.name == "zero" and flatT(t.T) == ["nat"]:
            return 0
        if t.name == "one" and flatT(t.T) == ["nat"]:
            return 1
        return None
    if t.ty == Term.COMB and t.fun.ty == Term.CONST and t.fun.name in ("bit0", "bit1") and flatT(t.fun.T) == ["nat", "nat"]:
        v = _binval(t.arg)
        if v is None:
            return None
        return 2 * v + (1 if t.fun.name == "bit1" else 0)
    return None


def limbs(v):
    """base-10^4 limbs, least significant first, each as a node (spec/lib/BigInt.tla)"""
    out = []
    while v > 0:
        out.append(["#l", [], [], v % 10000])
        v //= 10000
    return out


def project(t, lossless=False):
    """lossless: keep numerals beyond 31 bits (only for computing event keys; TLC cannot read them)"""
    args = []
    h = t
    while h.ty == Term.COMB:
        args.append(h.arg)
        h = h.fun
    args.reverse()
    if h.ty == Term.VAR:
        ts = flatT(h.T)
        if args or ts is None or len(ts) != 1:
            return OTHER
        return ["#var", [ts[0], h.name], [], 0]
    if h.ty != Term.CONST:
        return OTHER
    ts = flatT(h.T)
    if ts is None or len(args) != len(ts) - 1:
        return OTHER
    if h.name in ("bit0", "bit1") and len(args) == 1:
        v = _binval(t)
        if v is not None:
            if v < 2 ** 31 or lossless:
                return ["#bin", ["nat"], [], v]
            return ["#bign", ["nat"], limbs(v), 0]     # TLC's integers are 32-bit: never a JSON number >= 2^31
    return [h.name, ts, [project(a, lossless) for a in args], 0]


def build(n):
    """applied form -> Term (only for the vectors written by the specification)"""
    h, tys, args, k = n
    if h == "#bin":
        return kterm.Binary(k)
    if h == "#bign":
        return kterm.Binary(sum(a[3] * 10000 ** i for i, a in enumerate(args)))
    if h == "#var":
        return Var(tys[1], BASE[tys[0]])
    f = Const(h, TFun(*[BASE[x] for x in tys]))
    for a in args:
        f = Comb(f, build(a))
    return f


# ---------------------------------------------------------------------------------------------------------------------
# one-step proofs
# ---------------------------------------------------------------------------------------------------------------------

def attempt(macro, goal):
    prf = Proof()
    prf.add_item(0, macro, args=goal)
    try:
        th = theory.check_proof(prf)          # default trust level (check_level = 0)
    except RecursionError:
        return [macro, "RecursionError", "raised"]
    except Exception as e:
        nm = type(e).__name__
        return [macro, nm, "rejected" if nm in REFUSALS else "raised"]
    return {"m": macro, "h": [project(h) for h in th.hyps], "c": project(th.prop)}


class Log:
    def __init__(self, path, macros):
        self.f = open(path, "w")
        self.tid = 0
        self.macros = macros
        self.seen = set()

    def goal(self, src, g, only=None):
        pg = project(g)
        d = digest(project(g, lossless=True))
        if (d, only) in self.seen:
            return None
        self.seen.add((d, only))
        self.tid += 1
        ms = self.macros if only is None else [m for m in self.macros if m in only]
        runs = [attempt(m, g) for m in ms]
        ev = {"tid": self.tid, "key": "%s:%s" % (src, d), "src": src, "goal": pg,
              "acc": [r for r in runs if isinstance(r, dict)],
              "rej": [r[0] for r in runs if not isinstance(r, dict) and r[2] == "rejected"],
              "raised": [r[:2] for r in runs if not isinstance(r, dict) and r[2] == "raised"]}
        self.f.write(json.dumps(ev, separators=(",", ":")) + "\n")
        return ev

    def close(self):
        self.f.close()


def mode_vec(vec_path, out_path):
    log = Log(out_path, trusted_macros())
    n = 0
    for ln in open(vec_path):
        ln = ln.strip()
        if not ln:
            continue
        node = json.loads(ln)["g"]
        g = build(node)
        if project(g) != node:      # the codec must be the inverse of the decoder on the vectors: machinery, not a verdict
            raise RuntimeError("projection of the built goal differs from the vector: %r" % (node,))
        log.goal("vec", g)
        n += 1
    log.close()
    print(json.dumps({"goals": n, "macros": log.macros}))


# ---------------------------------------------------------------------------------------------------------------------
# seeded larger inputs
# ---------------------------------------------------------------------------------------------------------------------

def C(name, *tys):
    return Const(name, TFun(*[BASE[x] for x in tys]))


def num(T, v):
    return kterm.Number(BASE[T], v)


def b2(name, T, a, b):
    return C(name, T, T, T)(a, b)


def rel(name, T, a, b):
    return C(name, T, T, "bool")(a, b)


def neg(g):
    return C("neg", "bool", "bool")(g)


RELS = ["equals", "less", "less_eq", "greater", "greater_eq"]


class Gen:
    def __init__(self, rng, variables=False, floaty=False):
        self.rng = rng
        self.variables = variables
        self.floaty = floaty

    def leaf(self, T):
        r = self.rng
        if self.variables and r.random() < 0.45:
            return Var(r.choice({"nat": ["m", "n"], "int": ["i", "j"], "real": ["x", "y"]}[T]), BASE[T])
        k = r.choice([0, 1, 1, 2, 2, 3, 3, 4, 5, 7, 10, 12])
        if T != "nat" and r.random() < 0.2:
            k = -k
        if T == "real" and r.random() < 0.2:
            return num(T, Fraction(k, r.choice([2, 3, 4, 10])))
        return num(T, k)

    def term(self, T, d):
        r = self.rng
        if d <= 0 or r.random() < 0.15:
            return self.leaf(T)
        x = r.random()
        if T == "nat":
            if x < 0.25:
                return b2("plus", T, self.term(T, d - 1), self.term(T, d - 1))
            if x < 0.55:
                return b2("minus", T, self.term(T, d - 1), self.term(T, d - 1))
            if x < 0.75:
                return b2("times", T, self.term(T, d - 1), self.term(T, d - 1))
            if x < 0.85:
                return C("Suc", T, T)(self.term(T, d - 1))
            if x < 0.9:
                return C("power", T, "nat", T)(self.term(T, d - 1), num("nat", r.choice([0, 1, 2, 3])))
            if x < 0.95:
                return b2(r.choice(["nat_divide", "nat_modulus"]), T, self.term(T, d - 1), self.term(T, d - 1))
            return C("of_nat", "nat", "nat")(self.term(T, d - 1))
        if T == "int":
            if x < 0.22:
                return b2("plus", T, self.term(T, d - 1), self.term(T, d - 1))
            if x < 0.47:
                return b2("minus", T, self.term(T, d - 1), self.term(T, d - 1))
            if x < 0.67:
                return b2("times", T, self.term(T, d - 1), self.term(T, d - 1))
            if x < 0.8:
                return C("uminus", T, T)(self.term(T, d - 1))
            if x < 0.95:
                return C("of_nat", "nat", T)(self.term("nat", d - 1))
            return C("power", T, "nat", T)(self.term(T, d - 1), num("nat", r.choice([0, 1, 2, 3])))
        if x < 0.17:
            return b2("plus", T, self.term(T, d - 1), self.term(T, d - 1))
        if x < 0.34:
            return b2("minus", T, self.term(T, d - 1), self.term(T, d - 1))
        if x < 0.48:
            return b2("times", T, self.term(T, d - 1), self.term(T, d - 1))
        if x < 0.6:
            return b2("real_divide", T, self.term(T, d - 1), self.term(T, d - 1))
        if x < 0.67:
            return C("uminus", T, T)(self.term(T, d - 1))
        if x < 0.71:
            return C("real_inverse", T, T)(self.term(T, d - 1))
        if x < 0.8:
            return C("of_nat", "nat", T)(self.term("nat", d - 1))
        if x < 0.86:
            return C("of_int", "int", T)(self.term("int", d - 1))
        if x < 0.92:
            return C("power", T, "nat", T)(self.term(T, d - 1), num("nat", r.choice([0, 1, 2, 3])))
        if x < 0.96 or not self.floaty:
            return C("power", T, "real", T)(self.term(T, d - 1), num("real", r.choice([0, 1, 2, 3, -1, -2])))
        return C(r.choice(["abs", "abs", "sqrt"]), T, T)(self.term(T, d - 1))


def typed_number(T, v):
    """the numeral of type T with the Python value v, or None when there is none"""
    if isinstance(v, float) or isinstance(v, complex):
        return None
    if isinstance(v, Fraction) and v.denominator == 1:
        v = v.numerator
    if T == "nat" and not (isinstance(v, int) and v >= 0):
        return None
    if T == "int" and not isinstance(v, int):
        return None
    if abs(v) > 10 ** 30:
        return None
    return num(T, v)


def fam_codeval(log, rng, n):
    """right-hand sides computed by the code's own evaluators, every evaluator applied at every type"""
    g = Gen(rng)
    evs = [nat.nat_eval, integer.int_eval, real.real_eval]
    for _ in range(n):
        T = rng.choice(["nat", "int", "real"])
        l = g.term(T, rng.choice([2, 3, 3, 4]))
        vals = []
        for ev in evs:
            try:
                v = ev(l)
            except Exception:
                continue
            if v not in vals:
                vals.append(v)
        for v in vals:
            for w in (v, v + 1):
                r = typed_number(T, w)
                if r is None:
                    continue
                log.goal("codeval", rel("equals", T, l, r))
                if w == v:
                    k = rng.choice(RELS[1:])
                    log.goal("codeval", rel(k, T, l, r))
                    log.goal("codeval", neg(rel(rng.choice(RELS), T, l, r)))
                    log.goal("codeval", rel(rng.choice(RELS), T, r, l))


def fam_pairs(log, rng, n):
    g = Gen(rng)
    for _ in range(n):
        T = rng.choice(["nat", "int", "real"])
        a, b = g.term(T, rng.choice([1, 2, 3])), g.term(T, rng.choice([0, 1, 2]))
        k = rng.choice(RELS)
        log.goal("pairs", rel(k, T, a, b) if rng.random() < 0.8 else neg(rel(k, T, a, b)))


def fam_near(log, rng, n, qs=(3, 7, 10, 6, 9, 11, 13)):
    """near-equal rationals that fit in 31 bits; thirds and sevenths that sum to integers"""
    T = "real"
    for _ in range(n):
        b, d = rng.randrange(20000, 32000), rng.randrange(20000, 32000)
        a = rng.randrange(1, b)
        c = a * d // b + rng.choice([0, 0, 1])
        x, y = num(T, Fraction(a, b)), num(T, Fraction(c, d))
        wrap = rng.random() < 0.5
        if wrap:   # the absolute value makes real_eval give up: const_inequality falls back to floats
            x = C("abs", T, T)(x)
        for k in rng.sample(RELS, 2):
            log.goal("near", rel(k, T, x, y))
        log.goal("near", neg(rel("equals", T, x, y)))
    for q in qs:
        for p in range(1, q):
            for form in (0, 1):
                one = num(T, 1)
                parts = [b2("real_divide", T, C("abs", T, T)(one) if form else one, num(T, q)) for _ in range(q)]
                s = parts[0]
                for t in parts[1:p + 1]:
                    s = b2("plus", T, s, t)
                tot = num(T, Fraction(p + 1, q))
                for k in RELS:
                    log.goal("near", rel(k, T, s, tot))
                log.goal("near", neg(rel("equals", T, s, tot)))


def fam_floaty(log, rng, n):
    """sums of decimals wrapped in abs / sqrt-of-square: real_eval gives up, const_inequality compares floats with exact rationals"""
    T = "real"
    for _ in range(n):
        den = rng.choice([10, 10, 100, 5, 3, 7, 1000])
        ks = [rng.randrange(1, 40) for _ in range(rng.choice([2, 2, 3, 4]))]
        parts = []
        for k in ks:
            w = rng.random()
            if w < 0.5:
                a = C("abs", T, T)(num(T, k))
            elif w < 0.75:
                a = C("sqrt", T, T)(num(T, k * k))
            else:
                a = C("abs", T, T)(num(T, -k))
            parts.append(b2("real_divide", T, a, num(T, den)))
        s = parts[0]
        for t in parts[1:]:
            s = b2("plus", T, s, t)
        tot = num(T, Fraction(sum(ks), den))
        for k in RELS:
            log.goal("floaty", rel(k, T, s, tot), only=("const_inequality", "real_const_ineq", "real_compare", "real_const_eq", "real_eval"))
        log.goal("floaty", neg(rel("equals", T, s, tot)), only=("const_inequality", "real_const_ineq"))


def fam_big(log, rng, n):
    """magnitudes beyond native machine precision (2^53: doubles stop being exact; 2^62/2^64: machine words; 2^31: the oracle's
    native integers): exact quotients (a*b)/b, non-exact ones, products / sums / differences crossing the boundaries, negative
    ones, at nat / int / real where the evaluators apply.  Right-hand sides are the exact value and its neighbours (Python integer
    arithmetic is used to BUILD the statements; TLC judges them with limb arithmetic)."""
    R = "real"
    anchors = [2 ** 53, 2 ** 53 + 1, 2 ** 53 - 1, 2 ** 62 + 1, 2 ** 64 - 1, 10 ** 20 + 1, 3 * 10 ** 15 + 1]
    rand = [rng.randrange(2 ** 52, 2 ** 70) for _ in range(n)]

    def quotient(a, d, deep):
        forms = [b2("real_divide", R, num(R, a * d), num(R, d))]                 # a numeral that is not in normal form
        if deep:
            forms += [b2("real_divide", R, b2("times", R, num(R, a), num(R, d)), num(R, d)),
                      b2("real_divide", R, C("of_int", "int", R)(b2("times", "int", num("int", a), num("int", d))), C("of_nat", "nat", R)(num("nat", d))),
                      b2("real_divide", R, num(R, -a * d), num(R, d)), b2("real_divide", R, num(R, a * d), num(R, -d))]
        for i, l in enumerate(forms):
            v = -a if i >= 3 else a
            if i > 0:
                for k, w in (("less", v), ("greater", v), ("equals", v), ("equals", v - 1)):
                    log.goal("big", rel(k, R, l, num(R, w)))
                continue
            for k in RELS:
                log.goal("big", rel(k, R, l, num(R, v)))
            log.goal("big", rel("equals", R, l, num(R, v + 1)))
            log.goal("big", rel("equals", R, l, num(R, v - 1)))
            log.goal("big", rel("less_eq", R, l, num(R, v - 1)))
            log.goal("big", rel("greater_eq", R, l, num(R, v + 1)))
            log.goal("big", neg(rel("equals", R, l, num(R, v))))
            log.goal("big", rel("equals", R, b2("plus", R, l, num(R, 1)), num(R, v + 1)))       # inside a larger expression
            log.goal("big", rel("equals", R, b2("minus", R, l, num(R, v)), num(R, 0)))
    for j, a in enumerate(anchors):
        quotient(a, (3, 2, 7, 10, 12345, 2 ** 40 + 1, 3)[j], deep=(j < 2))
    for j, a in enumerate(rand):
        quotient(a, rng.choice([2, 3, 5, 7, 10, 1000003, 2 ** 33 + 1]), deep=(j % 5 == 0))
    # non-exact quotients
    for a in anchors[:4] + rand[:max(3, n // 3)]:
        d = rng.choice([3, 7, 10, 2 ** 33 + 1])
        l = b2("real_divide", R, num(R, a * d + 1), num(R, d))
        for r in (num(R, a), num(R, a + 1), num(R, Fraction(a * d + 1, d)), num(R, Fraction(a * d + 2, d))):
            k = rng.choice(RELS)
            log.goal("big", rel("equals", R, l, r))
            log.goal("big", rel(k, R, l, r))
    # sums, differences and products crossing the boundaries, at every type
    pairs = [(2 ** 53 - 1, 2), (2 ** 53, 1), (2 ** 27 + 1, 2 ** 27 - 1), (2 ** 32, 2 ** 32), (2 ** 62, 2 ** 62), (94906267, 94906265),
             (2 ** 31 - 1, 2), (10 ** 10 + 1, 10 ** 10 - 1)]
    pairs += [(rng.randrange(2 ** 20, 2 ** 45), rng.randrange(2 ** 20, 2 ** 45)) for _ in range(max(3, n // 3))]
    for i, (a, b) in enumerate(pairs):
        for T in (("nat", "int", "real") if i < 3 else (("nat", "int", "real")[i % 3],)):
            for op in ("plus", "times", "minus"):
                for x, y in ((a, b), (b, a)) if op == "minus" else ((a, b),):
                    l = b2(op, T, num(T, x), num(T, y))
                    v = {"plus": x + y, "times": x * y, "minus": x - y}[op]
                    if T == "nat" and v < 0:
                        v = 0
                    if T != "nat" and op == "times" and i % 2 == 1:
                        l, v = b2(op, T, num(T, -x), num(T, y)), -v
                    log.goal("big", rel("equals", T, l, num(T, v)))
                    log.goal("big", rel("equals", T, l, num(T, v + 1)))
                    log.goal("big", rel(rng.choice(RELS[1:]), T, l, num(T, v if i % 2 == 0 or v == 0 else v - 1)))
    for T in ("nat", "int", "real"):      # magnitudes around the limit of the oracle's native integers
        for a, b in ((32768, 32768), (32767, 32768), (46340, 46341), (2 ** 15, 2 ** 15 - 1), (2 ** 29, 2), (2 ** 30 - 1, 1)):
            for v in (a * b, a * b + 1):
                log.goal("big", rel("equals", T, b2("times", T, num(T, a), num(T, b)), num(T, v)))
                log.goal("big", rel("less", T, b2("times", T, num(T, a), num(T, b)), num(T, v)))
    # big powers and the float path (abs / sqrt make real_eval give up)
    for a in anchors[:3]:
        log.goal("big", rel("equals", R, C("power", R, "nat", R)(num(R, 2), num("nat", 64)), num(R, 2 ** 64)))
        log.goal("big", rel("less", R, C("power", R, "nat", R)(num(R, 2), num("nat", 64)), num(R, 2 ** 64)))
        w = C("abs", R, R)(num(R, -a * 3))
        for k in RELS:
            log.goal("big", rel(k, R, b2("real_divide", R, w, num(R, 3)), num(R, a)))
        log.goal("big", rel("greater", R, b2("real_divide", R, w, num(R, 3)), num(R, a - 1)))
        log.goal("big", rel("less", R, b2("plus", R, C("abs", R, R)(num(R, a)), num(R, 1)), num(R, a + 1)))
        log.goal("big", rel("greater", R, b2("plus", R, C("abs", R, R)(num(R, a)), num(R, 1)), num(R, a)))
    # PRELUDE histories: an approximate evaluation (the factor exp 0 makes the evaluators fall back to floats; such a goal is not
    # judged) of a power BEFORE the exact evaluation of the same power in the same process -- a step must not reuse what an
    # earlier, approximate step computed
    for base, ex in ((3, 40), (7, 30), (5, 35)):
        fl = b2("times", R, num(R, base), C("exp", R, R)(num(R, 0)))
        log.goal("prelude", rel("greater_eq", R, C("power", R, "nat", R)(fl, num("nat", ex)), num(R, 1)))
        pw = C("power", R, "nat", R)(num(R, base), num("nat", ex))
        exact = base ** ex
        for k in RELS:
            log.goal("prelude", rel(k, R, pw, num(R, exact)))
            log.goal("prelude", rel(k, R, pw, num(R, int(float(exact)))))
        log.goal("prelude", rel("equals", R, b2("plus", R, pw, num(R, 1)), pw))


SURD_ONLY = ("const_inequality", "real_compare", "real_const_eq", "real_const_ineq", "real_eval")
SURD_BIG = ("const_inequality", "real_const_eq")       # beyond 10^9 (the other steps spend most of their time refusing long numerals)


def fam_surd(log, rng, ks, full):
    """Near-equal IRRATIONAL constants  q + c * sqrt r  (decided exactly by spec/C05_Surd.tla: squaring in limb arithmetic).
    For n = 10^k (and, when full, a random n of the same size), from magnitudes where doubles still separate the two sides up to
    10^60 where both roots round to the same double:  sqrt n ? sqrt (n+1),  sqrt (n^2 +- 1) ? n,  sqrt (n^2) ? n,
    1 + sqrt n ? 1 + sqrt (n+1),  1 + sqrt (n^2+1) ? sqrt ((n+1)^2+1),  2 sqrt n ? sqrt (4n+1),  sqrt 2 * n ? sqrt (2n^2+1),
    negated and inverted roots, roots of near-equal fractions, equal irrationals written differently (sqrt (4n) = 2 sqrt n),
    and differences of near-equal numbers scaled back to order 1 ((sqrt (n^2+1) - n) * 4n ? 1: cancellation).  Every pair is
    posed with all five relations and as a disequality (when full: both orders, the negation of every relation, and every shape
    at every magnitude), so each pair yields true and false statements.  Python integers only BUILD the terms; no truth value is computed here."""
    T = "real"
    sq = lambda a: C("sqrt", T, T)(a)                          # noqa: E731
    R = lambda v: num(T, v)                                    # noqa: E731
    P = lambda a, b: b2("plus", T, a, b)                       # noqa: E731
    M = lambda a, b: b2("minus", T, a, b)                      # noqa: E731
    X = lambda a, b: b2("times", T, a, b)                      # noqa: E731
    D = lambda a, b: b2("real_divide", T, a, b)                # noqa: E731
    U = lambda a: C("uminus", T, T)(a)                         # noqa: E731
    A = lambda a: C("abs", T, T)(a)                            # noqa: E731

    def pose(a, b, both, only=SURD_ONLY):
        for x, y in ((a, b), (b, a)) if both else ((a, b),):
            for k in RELS:
                log.goal("surd", rel(k, T, x, y), only=only)
                if full and k != "equals":
                    log.goal("surd", neg(rel(k, T, x, y)), only=only)
            log.goal("surd", neg(rel("equals", T, x, y)), only=only)

    for k in ks:
        ns = [10 ** k] + ([rng.randrange(10 ** k, 10 ** (k + 1))] if full else [])
        for n in ns:
            wide = full or k in (1, 8)                 # quick tier: the rarer shapes at two magnitudes only
            every = None if (k in (1, 8) and n == 10 ** k) else (SURD_ONLY if k <= 9 else SURD_BIG)   # at two magnitudes: EVERY trusted step
            only = SURD_ONLY if k <= 9 else SURD_BIG
            pose(sq(R(n)), sq(R(n + 1)), True, only=every)
            pose(sq(R(n * n + 1)), R(n), True, only=every)
            pose(sq(R(n * n - 1)), R(n), full, only=only)
            pose(P(R(1), sq(R(n * n + 1))), sq(R((n + 1) ** 2 + 1)), full, only=only)
            pose(X(sq(R(2)), R(n)), sq(R(2 * n * n + 1)), full, only=only)
            # cancellation: the difference of two near-equal numbers, scaled back to order 1
            pose(X(M(sq(R(n * n + 1)), R(n)), R(4 * n)), R(1), False, only=only)             # ~ 2
            pose(X(M(sq(R(n * n + 1)), R(n)), R(2 * n)), R(1), False, only=only)             # just below 1
            if not wide:
                continue
            pose(sq(R(n * n)), R(n), full, only=only)
            pose(P(R(1), sq(R(n))), P(R(1), sq(R(n + 1))), full, only=only)
            pose(P(sq(R(n)), R(Fraction(1, 3))), P(R(Fraction(1, 3)), sq(R(n + 1))), False, only=only)
            pose(M(sq(R((n + 1) ** 2 + 1)), R(1)), sq(R(n * n + 1)), False, only=only)
            pose(X(R(2), sq(R(n))), sq(R(4 * n + 1)), full, only=only)
            pose(X(sq(R(2)), R(n)), sq(R(2 * n * n)), False, only=only)                      # equal irrationals
            pose(sq(R(4 * n)), X(R(2), sq(R(n))), False, only=only)                          # equal irrationals
            pose(U(sq(R(n + 1))), U(sq(R(n))), False, only=only)
            pose(sq(R(-n - 1)), U(sq(R(n))), False, only=only)                               # sqrt (-x) = - sqrt x in HOL
            pose(D(sq(R(n)), R(3)), D(sq(R(n + 1)), R(3)), False, only=only)
            pose(D(R(1), sq(R(n))), D(R(1), sq(R(n + 1))), False, only=only)
            pose(C("real_inverse", T, T)(sq(R(n + 1))), D(R(1), sq(R(n))), False, only=only)
            pose(sq(R(Fraction(n, n + 1))), sq(R(Fraction(n + 1, n + 2))), False, only=only)
            pose(sq(R(Fraction(n * n + 1, 4))), R(Fraction(n, 2)), False, only=only)
            pose(X(A(M(R(n), sq(R(n * n + 1)))), R(4 * n)), R(1), False, only=only)
            pose(X(M(sq(R(n + 1)), sq(R(n))), R(2)), R(0), False, only=only)                 # two irrational surds: outside the fragment


def fam_odd(log, rng):
    """constants at types where the library gives them no meaning, other logical shapes: exercised, never judged"""
    three, two, zero = num("nat", 3), num("nat", 2), num("nat", 0)
    gs = [rel("equals", "nat", b2("plus", "nat", C("uminus", "nat", "nat")(three), three), zero),
          rel("equals", "nat", b2("plus", "nat", b2("real_divide", "nat", num("nat", 1), two), b2("real_divide", "nat", num("nat", 1), two)), num("nat", 1)),
          rel("equals", "int", b2("real_divide", "int", num("int", 6), num("int", 3)), num("int", 2)),
          rel("equals", "int", C("power", "int", "int", "int")(num("int", 2), num("int", 2)), num("int", 4)),
          rel("equals", "real", C("of_nat", "nat", "real")(b2("minus", "nat", two, three)), num("real", 0)),
          rel("equals", "real", C("of_nat", "nat", "real")(b2("minus", "nat", two, three)), num("real", -1)),
          rel("equals", "bool", rel("less", "real", num("real", 1), num("real", 2)), Const("true", BoolType)),
          Const("true", BoolType), Const("false", BoolType),
          C("conj", "bool", "bool", "bool")(rel("less", "real", num("real", 1), num("real", 2)), rel("less", "real", num("real", 2), num("real", 1))),
          rel("equals", "real", b2("real_divide", "real", num("real", 2), num("real", 0)), num("real", 0)),
          rel("equals", "real", b2("real_divide", "real", num("real", 1), num("real", 0)), num("real", 0)),
          rel("equals", "real", b2("real_divide", "real", num("real", 0), num("real", 0)), num("real", 0)),
          rel("equals", "real", C("real_inverse", "real", "real")(num("real", 0)), num("real", 0)),
          rel("less", "real", b2("real_divide", "real", num("real", 1), num("real", 0)), num("real", 1)),
          rel("equals", "real", C("power", "real", "real", "real")(num("real", 0), num("real", -1)), num("real", 0)),
          rel("equals", "real", C("power", "real", "real", "real")(num("real", 0), num("real", 0)), num("real", 1)),
          rel("equals", "real", C("power", "real", "real", "real")(num("real", -2), num("real", 3)), num("real", -8)),
          rel("equals", "real", C("power", "real", "real", "real")(num("real", -2), num("real", -2)), num("real", Fraction(1, 4))),
          rel("equals", "real", C("power", "real", "real", "real")(num("real", 4), num("real", Fraction(1, 2))), num("real", 2)),
          rel("equals", "real", C("power", "real", "real", "real")(num("real", 2), num("real", Fraction(4, 2))), num("real", 4)),
          rel("equals", "real", C("sqrt", "real", "real")(num("real", 4)), num("real", 2)),
          rel("equals", "real", C("sqrt", "real", "real")(num("real", -4)), num("real", -2)),
          rel("equals", "nat", C("power", "nat", "nat", "nat")(b2("minus", "nat", two, three), two), num("nat", 1)),
          rel("equals", "nat", C("power", "nat", "nat", "nat")(zero, zero), num("nat", 1))]
    for g in gs:
        log.goal("odd", g)
        log.goal("odd", neg(g))


def fam_poly(log, rng, n):
    """real_norm: identities with free variables"""
    T = "real"
    x, y = Var("x", RealType), Var("y", RealType)
    m, k = Var("m", NatType), Var("n", NatType)
    om, ok = C("of_nat", "nat", T)(m), C("of_nat", "nat", T)(k)
    two_n = num("nat", 2)
    P = lambda a, b: b2("plus", T, a, b)      # noqa: E731
    M = lambda a, b: b2("minus", T, a, b)     # noqa: E731
    X = lambda a, b: b2("times", T, a, b)     # noqa: E731
    D = lambda a, b: b2("real_divide", T, a, b)   # noqa: E731
    pw = lambda a, e: C("power", T, "nat", T)(a, e)   # noqa: E731
    rp = lambda a, e: C("power", T, "real", T)(a, e)  # noqa: E731
    R = lambda v: num(T, v)                   # noqa: E731
    only = ("real_norm", "real_eval", "real_const_eq", "const_inequality")
    ids = [(pw(P(x, y), two_n), P(P(pw(x, two_n), X(X(R(2), x), y)), pw(y, two_n))),
           (X(P(x, y), M(x, y)), M(pw(x, two_n), pw(y, two_n))),
           (P(D(x, R(2)), D(x, R(2))), x), (D(x, x), R(1)), (X(x, D(R(1), x)), R(1)), (D(X(x, y), y), x), (M(x, x), R(0)),
           (rp(x, R(2)), X(x, x)), (rp(x, R(1)), x), (rp(x, R(0)), R(1)), (pw(x, num("nat", 0)), R(1)), (rp(R(0), x), R(0)),
           (D(x, R(0)), R(0)), (X(D(x, R(0)), R(0)), x), (D(P(x, y), R(2)), P(D(x, R(2)), D(y, R(2)))), (D(x, M(R(1), R(1))), x),
           (C("of_nat", "nat", T)(b2("minus", "nat", m, k)), M(om, ok)), (C("of_nat", "nat", T)(b2("plus", "nat", m, k)), P(om, ok)),
           (C("of_nat", "nat", T)(b2("times", "nat", m, k)), X(om, ok)), (C("of_nat", "nat", T)(b2("minus", "nat", m, m)), R(0)),
           (P(C("of_nat", "nat", T)(b2("minus", "nat", m, k)), ok), om),
           (C("of_nat", "nat", T)(b2("plus", "nat", b2("minus", "nat", num("nat", 2), num("nat", 3)), m)), om),
           (C("of_nat", "nat", T)(b2("plus", "nat", b2("minus", "nat", num("nat", 2), num("nat", 3)), m)), M(om, R(1))),
           (C("of_nat", "nat", T)(C("Suc", "nat", "nat")(m)), P(om, R(1))), (pw(x, b2("plus", "nat", m, k)), X(pw(x, m), pw(x, k))),
           (pw(x, b2("minus", "nat", num("nat", 2), num("nat", 3))), R(1)), (pw(x, b2("minus", "nat", num("nat", 2), num("nat", 3))), D(R(1), x)),
           (C("uminus", T, T)(C("uminus", T, T)(x)), x), (X(C("uminus", T, T)(x), C("uminus", T, T)(y)), X(x, y)),
           (C("real_inverse", T, T)(C("real_inverse", T, T)(x)), x), (X(x, C("real_inverse", T, T)(x)), R(1)),
           (D(R(1), D(R(1), x)), x), (D(x, R(Fraction(1, 2))), X(R(2), x)), (D(D(x, R(2)), R(3)), D(x, R(6))),
           (pw(D(x, R(2)), two_n), D(pw(x, two_n), R(4))), (rp(R(4), R(Fraction(1, 2))), R(2)), (rp(R(-2), R(3)), R(-8)),
           (X(rp(R(2), R(-1)), R(2)), R(1)), (rp(R(0), R(-1)), R(0)), (P(x, rp(R(0), R(0))), P(x, R(1)))]
    for a, b in ids:
        log.goal("poly", rel("equals", T, a, b), only=only)
        log.goal("poly", rel("equals", T, b, a), only=only)
    g = Gen(rng, variables=True)
    for _ in range(n):
        t = g.term(T, rng.choice([2, 3, 3, 4]))
        try:
            nf = real.from_poly(real.convert_to_poly(t))     # the code's OWN normal form
        except Exception:
            nf = None
        if nf is not None:
            log.goal("poly", rel("equals", T, t, nf), only=only)
        u = g.term(T, rng.choice([1, 2, 3]))
        log.goal("poly", rel("equals", T, t, u), only=only)
        if nf is not None and rng.random() < 0.5:
            log.goal("poly", rel("equals", T, b2("plus", T, t, u), b2("plus", T, u, nf)), only=only)
            log.goal("poly", rel("equals", T, b2("times", T, t, u), b2("times", T, nf, u)), only=only)


def fam_exponent(log, rng, n):
    """real powers whose NATURAL-NUMBER exponent is a compound nat expression with (nested, underflowing) truncated subtraction,
    closed and with free nat variables.  Right-hand sides: the code's own polynomial normal form, the power with the exponent as
    computed by the code's nat evaluator and by its int evaluator (i.e. untruncated), 1 and the base.  Judged by TLC on the grid,
    the exponent with the arithmetic of natural numbers."""
    T = "real"
    x, y = Var("x", RealType), Var("y", RealType)
    m, k = Var("m", NatType), Var("n", NatType)
    nm = lambda v: num("nat", v)                               # noqa: E731
    NM = lambda a, b: b2("minus", "nat", a, b)                 # noqa: E731
    NP = lambda a, b: b2("plus", "nat", a, b)                  # noqa: E731
    pw = lambda a, e: C("power", T, "nat", T)(a, e)            # noqa: E731
    X = lambda a, b: b2("times", T, a, b)                      # noqa: E731
    only = ("real_norm", "real_eval", "real_const_eq", "const_inequality", "real_const_ineq", "real_compare")
    bases = [x, b2("plus", T, x, num(T, 1)), num(T, 2), num(T, -2), X(x, y)]

    def pose(base, e):
        t = pw(base, e)
        rhs = [num(T, 1), base]
        try:
            rhs.append(real.from_poly(real.convert_to_poly(t)))          # the code's OWN normal form
        except Exception:
            pass
        for ev in (nat.nat_eval, integer.int_eval):                      # the exponent as the code's evaluators see it
            try:
                v = ev(e)
            except Exception:
                continue
            if isinstance(v, int) and 0 <= v <= 12:
                rhs.append(pw(base, nm(v)))
        for r in rhs:
            log.goal("exponent", rel("equals", T, t, r), only=only)
        if len(rhs) > 2:
            log.goal("exponent", rel("equals", T, X(t, y), X(y, rhs[-1])), only=only)

    # deterministic core: b - (c - d) with c < d, and shapes with a free variable whose untruncated value differs
    exps = [NM(nm(b), NM(nm(c), nm(d))) for b in (0, 2, 3, 5) for c, d in ((2, 3), (1, 2), (0, 3))]
    exps += [NP(NM(k, NP(k, nm(1))), nm(1)), NM(NP(k, nm(2)), NM(k, NP(k, nm(1)))), NM(nm(5), NM(k, NP(k, nm(1)))),
             NM(NP(k, nm(3)), NM(nm(2), nm(3))), NP(NM(m, k), k), NM(NP(m, k), NM(k, NP(k, m))), NM(nm(2), nm(1)),
             NM(NM(nm(4), nm(2)), nm(2)), NM(nm(2), nm(3)), NP(NM(nm(2), nm(3)), nm(2)), C("Suc", "nat", "nat")(NM(nm(1), nm(2)))]
    for i, e in enumerate(exps):
        pose(bases[i % 3], e)
        if i % 4 == 0:
            pose(bases[3 + (i // 4) % 2], e)

    def exp_term(d):
        r = rng.random()
        if d <= 0 or r < 0.2:
            return rng.choice([k, k, m]) if rng.random() < 0.35 else nm(rng.choice([0, 1, 1, 2, 2, 3, 4, 5]))
        if r < 0.65:
            return NM(exp_term(d - 1), exp_term(d - 1))
        if r < 0.9:
            return NP(exp_term(d - 1), exp_term(d - 1))
        if r < 0.96:
            return C("Suc", "nat", "nat")(exp_term(d - 1))
        return b2("times", "nat", exp_term(d - 1), exp_term(d - 1))
    for _ in range(n):
        pose(rng.choice(bases[:4]), exp_term(rng.choice([2, 2, 3])))


def fam_eqcmp(log, rng, n):
    """real_eq_comparison: equivalences between comparisons"""
    T = "real"
    g = Gen(rng, variables=True)
    gc = Gen(rng)
    for i in range(n):
        gg = g if i % 2 == 0 else gc
        a, b, c = gg.term(T, 1), gg.term(T, 1), gg.leaf(T)
        k1, k2 = rng.choice(RELS[1:]), rng.choice(RELS[1:])
        left = rel(k1, T, a, b)
        cands = [rel(k1, T, b2("plus", T, a, c), b2("plus", T, b, c)), rel(k2, T, b2("minus", T, a, b), num(T, 0)),
                 rel(k2, T, b, a), rel(k1, T, b2("times", T, num(T, 2), a), b2("times", T, num(T, 2), b)),
                 rel(k1, T, b2("times", T, num(T, -1), a), b2("times", T, num(T, -1), b))]
        log.goal("eqcmp", rel("equals", "bool", left, rng.choice(cands)), only=("real_eq_comparison",))


def mode_rand(out_path, n, seed):
    rng = random.Random(seed * 7919 + 5)
    log = Log(out_path, trusted_macros())
    small = n < 1000
    fam_odd(log, rng)
    fam_codeval(log, rng, n)
    fam_pairs(log, rng, n)
    fam_near(log, random.Random(seed * 31 + 1), max(20, n // 10), qs=(3, 7, 10) if small else (3, 7, 10, 6, 9, 11, 13))
    fam_floaty(log, random.Random(seed * 31 + 2), max(30, n // 4))
    fam_big(log, random.Random(seed * 31 + 3), max(4, n // 40))
    fam_poly(log, random.Random(seed * 31 + 4), max(40, n // 3))
    fam_exponent(log, random.Random(seed * 31 + 6), max(25, n // 6))
    fam_eqcmp(log, random.Random(seed * 31 + 5), max(40, n // 20))
    fam_surd(log, random.Random(seed * 31 + 7), (1, 2, 7, 8, 16, 20, 40, 60) if small else tuple(range(1, 31)) + (35, 40, 50, 60),
             full=not small)
    log.close()
    print(json.dumps({"goals": log.tid, "macros": log.macros}))


def main(argv):
    sys.setrecursionlimit(20000)
    if argv[0] == "probe":
        print(json.dumps({"macros": trusted_macros(),
                          "all_level0": sorted(k for k, m in theory.global_macros.items() if m.level == 0)}))
    elif argv[0] == "vec":
        mode_vec(argv[1], argv[2])
    elif argv[0] == "rand":
        mode_rand(argv[1], int(argv[2]), int(argv[3]))
    elif argv[0] == "all":      # vec + rand in one process (loading the theories is the expensive part)
        mode_rand(argv[3], int(argv[4]), int(argv[5]))
        mode_vec(argv[1], argv[2])
    else:
        raise SystemExit("unknown mode " + argv[0])


if __name__ == "__main__":
    main(sys.argv[1:])
