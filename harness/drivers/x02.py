"""X02 driver: proof terms are built, exported, embedded, checked, printed and parsed back on the REAL code; line identifiers
are edited on real nested Proof objects.  Projection only - no verdict is computed here (spec/X02_Trace.tla does that).

modes
  vectors <tlc.log> <out.ndjson> [all_upto sample seed]  spec -> code: the behaviours printed by spec/X02_Export.tla (<<"X02V", json>>)
  random  <n> <out.ndjson> <seed>             code-driven: seeded larger DAGs (more rules, duplicates, repeated gaps, atoms), random hosts
  library <out.ndjson> <seed> <n_per> <th,..> the proof terms of the library's macros on recorded proofs
  idsvec  <tlc.log> <out.ndjson>              spec -> code: behaviours of spec/X02_ItemId.tla (<<"X02I", json>>) on real Proof/ItemID
  idsrnd  <n> <out.ndjson> <seed>             seeded longer edit histories on deeper shapes

export event (kind "export"):  nodes [rule, arg, prems (1-based), th, aid], root, gaps, pfx, sub, built,
   exp = {ok, exc, lines}, host, emb = {ok, exc, lines}, chk = {ok, exc, lines}, rt = {examined, ok, exc, lines}
   line = {id, rule, arg, prevs, th};  sequents and arguments are interned through the structural codec (no Term.__eq__)
"""
import json
import random
import sys
import traceback

import flask.json
flask.json.JSONEncoder = json.JSONEncoder

from kernel import theory
from kernel.type import Type, TVar, STVar, TFun, BoolType, TyInst
from kernel.term import Term, Var, SVar, Const, Inst, Eq, Implies, Forall, Lambda
from kernel.thm import Thm
from kernel.proof import Proof, ProofItem, ItemID
from kernel.proofterm import ProofTerm
from logic import basic, context

from harness.codec import enc, encT, dec
from harness.core import digest

NONE_TH = {"h": [], "c": -1}
MAX_NODES = 400


# ------------------------------------------------------------------------------------------------ interning (projection)
class Intern:
    def __init__(self):
        self.terms = {}
        self.args = {}

    def term_json(self, s):
        return self.terms.setdefault(s, len(self.terms))

    def term(self, t):
        return self.term_json(json.dumps(enc(t)))

    def seq(self, th):
        if th is None:
            return dict(NONE_TH)
        return {"h": sorted({self.term(h) for h in th.hyps}), "c": self.term(th.prop)}

    def seq_json(self, j):
        return {"h": sorted({self.term_json(json.dumps(h)) for h in j["h"]}), "c": self.term_json(json.dumps(j["c"]))}

    def arg(self, a):
        return self.args.setdefault(akey(a), len(self.args))


def akey(a):
    if a is None:
        return "None"
    if isinstance(a, Term):
        return "t" + json.dumps(enc(a))
    if isinstance(a, Type):
        return "T" + json.dumps(encT(a))
    if isinstance(a, Inst):
        return "I" + json.dumps([[k, akey(v)] for k, v in sorted(a.items())]) + json.dumps([[k, akey(v)] for k, v in sorted(a.tyinst.items())])
    if isinstance(a, TyInst):
        return "Y" + json.dumps([[k, akey(v)] for k, v in sorted(a.items())])
    if isinstance(a, (tuple, list)):
        return "(" + ",".join(akey(x) for x in a) + ")"
    if isinstance(a, dict):
        return "{" + ",".join("%s:%s" % (k, akey(v)) for k, v in sorted(a.items())) + "}"
    if isinstance(a, ItemID):
        return "id" + str(a)
    return "s:" + str(a)


def flat(prf, out=None):
    out = [] if out is None else out
    for it in prf.items:
        out.append(it)
        if it.subproof:
            flat(it.subproof, out)
    return out


def id_list(x):
    return list(ItemID(x).id)


def proj_lines(I, prf):
    return [{"id": list(it.id.id), "rule": it.rule, "arg": I.arg(it.args), "prevs": [id_list(p) for p in it.prevs],
             "th": I.seq(it.th)} for it in flat(prf)]


def exc_str(e):
    return (type(e).__name__ + ": " + str(e)[:160]).replace("\n", " ")


class Out:
    def __init__(self, path):
        self.f = open(path, "w")
        self.tid = 0
        self.seen = set()

    def emit(self, ev):
        self.tid += 1
        ev["tid"] = self.tid
        self.f.write(json.dumps(ev, separators=(",", ":")) + "\n")

    def close(self):
        self.f.close()


# ------------------------------------------------------------------------------------------------ hosts (enclosing proofs)
def make_host(before, goal_th, later=True):
    """before = list (one entry per level, outermost first) of lists of assumption terms stated in front of the goal / of the
    block that contains the goal.  [] = no enclosing proof.  Returns (Proof or None, goal id tuple, visible assume lines)."""
    if not before:
        return None, (), []
    top = Proof()
    prf, prefix, visible = top, (), []
    for lvl, assums in enumerate(before):
        for a in assums:
            i = len(prf.items)
            prf.add_item(prefix + (i,), "assume", args=a)
            visible.append((prefix + (i,), Thm.assume(a)))
        i = len(prf.items)
        if lvl == len(before) - 1:
            prf.add_item(prefix + (i,), "sorry", th=goal_th)
            goal = prefix + (i,)
            if later:
                prf.add_item(prefix + (i + 1,), "implies_intr", args=(assums[0] if assums else goal_th.prop), prevs=[goal])
        else:
            item = ProofItem(prefix + (i,), "subproof")
            item.subproof = Proof()
            prf.items.append(item)
            if later:
                prf.add_item(prefix + (i + 1,), "implies_intr", args=(assums[0] if assums else goal_th.prop), prevs=[prefix + (i,)])
            prf, prefix = item.subproof, prefix + (i,)
    return top, goal, visible


# ------------------------------------------------------------------------------------------------ one behaviour on the real code
def proof_vars(prf):
    vs, svs, ok = {}, {}, True

    def coll(t):
        nonlocal ok
        for v in t.get_vars():
            if vs.setdefault(v.name, v.T) != v.T:
                ok = False
        for v in t.get_svars():
            if svs.setdefault(v.name, v.T) != v.T:
                ok = False

    def ca(a):
        if isinstance(a, Term):
            coll(a)
        elif isinstance(a, Inst):
            for _, v in a.items():
                coll(v)
        elif isinstance(a, (tuple, list)):
            for x in a:
                ca(x)
    for it in flat(prf):
        if it.th is not None:
            for h in list(it.th.hyps) + [it.th.prop]:
                coll(h)
        ca(it.args)
    if set(vs) & set(svs):
        pass
    return vs, svs, ok


def run_behaviour(I, ev, pt, hostf, sub, use_none_prefix=False):
    """export -> embed -> check -> print -> parse, each step projected.  hostf(goal sequent) -> (enclosing Proof or None, goal id)"""
    from server import server, method
    gaps = getattr(pt, "gaps", None)
    if gaps is not None:       # not observable otherwise: the field is absent and the clause is not judged
        ev["gaps"] = [json.loads(s) for s in sorted({json.dumps(I.seq(g), sort_keys=True) for g in gaps})]
    host, goal = hostf(pt.th)
    ev["pfx"], ev["sub"] = list(goal), bool(sub)
    ev["host"] = []
    ev["exp"] = {"ok": False, "exc": "", "lines": []}
    ev["emb"] = {"ok": False, "na": False, "exc": "", "lines": []}
    ev["chk"] = {"ok": False, "exc": "", "lines": []}
    ev["rt"] = {"examined": False, "ok": False, "exc": "", "lines": []}
    if host is not None:
        try:
            theory.check_proof(host)
        except Exception as e:         # the enclosing proof is the harness's own: cannot happen on a sane kernel
            ev["built"] = False
            ev["exp"]["exc"] = "host: " + exc_str(e)
            return
        ev["host"] = proj_lines(I, host)
    # ---- export
    try:
        if host is None and use_none_prefix:
            prf = pt.export(subproof=sub)
        else:
            prf = pt.export(prefix=ItemID(goal), subproof=sub)
        ev["exp"] = {"ok": True, "exc": "", "lines": proj_lines(I, prf)}
    except Exception as e:
        ev["exp"]["exc"] = exc_str(e)
        return
    # ---- embed the way the callers do
    try:
        if host is None:
            whole = prf
        elif sub:
            g = host.find_item(ItemID(goal))
            g.rule = "subproof"
            g.subproof = prf
            whole = host
        elif not hasattr(method.ProofState, "add_line_before"):
            ev["emb"]["na"] = True          # the callers' way of making room is not observable on this tree
            return
        else:
            st = method.ProofState()
            st.prf = host
            st.add_line_before(ItemID(goal), len(prf.items) - 1)
            for it in prf.items:
                par = st.prf
                for k in it.id.id[:-1]:
                    par = par.items[k].subproof
                par.items[it.id.id[-1]] = it
            whole = st.prf
        ev["emb"] = {"ok": True, "na": False, "exc": "", "lines": proj_lines(I, whole)}
    except Exception as e:
        ev["emb"]["exc"] = exc_str(e)
        return
    # ---- check (gaps allowed)
    try:
        theory.check_proof(whole)
        ev["chk"] = {"ok": True, "exc": "", "lines": proj_lines(I, whole)}
    except Exception as e:
        ev["chk"]["exc"] = exc_str(e)
        return
    # ---- print, JSON, parse (parse_proof checks again)
    vs, svs, ok = proof_vars(whole)
    if not ok:
        ev["rt"]["exc"] = "one name at two types: no context can declare the variables"
        return
    try:
        context.set_context(None, vars=vs, svars=svs)
    except Exception as e:
        ev["rt"]["exc"] = "context: " + exc_str(e)
        return
    ev["rt"]["examined"] = True
    data = []
    try:
        st = method.ProofState()
        st.prf = whole
        data = json.loads(json.dumps(st.export_proof()))
        st2 = server.parse_proof(data)
        ev["rt"].update({"ok": True, "lines": proj_lines(I, st2.prf)})
    except Exception as e:
        ev["rt"]["exc"] = exc_str(e)
        # which printed line does not parse on its own (projection for the report; the verdict does not use it)
        from syntax import parser
        for line in data:
            try:
                parser.parse_proof_rule(line)
            except Exception:
                ev["rt"]["line"] = {"rule": str(line.get("rule")), "args": str(line.get("args"))[:80], "th": str(line.get("th"))[:80]}
                break


# ------------------------------------------------------------------------------------------------ spec -> code
def dec_arg(a):
    k = a["k"]
    if k == "none":
        return None
    if k == "term":
        return dec(a["t"])
    if k == "inst":
        return Inst(**{nm: dec(t) for nm, t in a["sv"]})
    if k == "str":
        return a["s"]
    raise ValueError("argument kind %r" % k)


def dec_thm(j):
    return Thm(dec(j["c"]), tuple(dec(h) for h in j["h"]))


HOSTS = {"H0": lambda A, B: [], "H1": lambda A, B: [[A, Implies(A, B)]], "H2": lambda A, B: [[A], [Implies(A, B)]]}


def tlc_lines(path, tag):
    pre = '<<"%s", ' % tag
    for ln in open(path, errors="replace"):
        if ln.startswith(pre):
            yield json.loads(json.loads(ln.strip()[len(pre):-2]))


def vectors(tlc_log, out_path, all_upto=99, sample=0, seed=0):
    """behaviours with <= all_upto nodes are all replayed, of the larger ones a seeded sample"""
    basic.load_theory("logic_base")
    A, B = Var("A", BoolType), Var("B", BoolType)
    out = Out(out_path)
    I = Intern()
    n = 0
    vs, seen = [], set()
    for v in tlc_lines(tlc_log, "X02V"):
        key = "v:" + digest(v)
        if key not in seen:
            seen.add(key)
            vs.append((key, v))
    big = [kv for kv in vs if len(kv[1]["nodes"]) > all_upto]
    random.Random(seed).shuffle(big)
    keep = {k for k, _ in big[:sample]}
    print("behaviours printed", len(vs), "larger than", all_upto, ":", len(big))
    for key, v in vs:
        if len(v["nodes"]) > all_upto and key not in keep:
            continue
        n += 1
        ev = {"kind": "export", "fam": "tlc", "key": key, "host_id": v["host"], "built": True, "nodes": [], "root": len(v["nodes"]), "xth": []}
        pts = []
        try:
            for nd in v["nodes"]:
                arg = dec_arg(nd["arg"])
                prevs = [pts[i - 1] for i in nd["prems"]]
                if nd["rule"] == "atom":
                    pt = ProofTerm.atom(ItemID(tuple(nd["aid"])), dec_thm(nd["th"]))
                elif nd["rule"] == "sorry":
                    pt = ProofTerm.sorry(dec_thm(nd["th"]))
                else:
                    pt = ProofTerm(nd["rule"], arg, prevs)
                pts.append(pt)
                ev["nodes"].append({"rule": nd["rule"], "arg": I.arg(arg), "prems": list(nd["prems"]), "th": I.seq(pt.th), "aid": list(nd["aid"])})
                ev["xth"].append(I.seq_json(nd["th"]))
        except Exception as e:
            ev["built"] = False
            ev["exc"] = exc_str(e)
            out.emit(ev)
            continue
        # the S specification's hosts; H0 alternates between prefix=None and prefix=ItemID()
        before = HOSTS[v["host"]](A, B)
        run_behaviour(I, ev, pts[-1], lambda th: make_host(before, th)[:2], v["sub"], use_none_prefix=(n % 2 == 0))
        out.emit(ev)
    out.close()
    print("vectors", n, "events", out.tid)


# ------------------------------------------------------------------------------------------------ projecting a real proof term
def project_pt(I, root):
    """the DAG of a real ProofTerm: nodes in dependency order, one node per OBJECT (sharing = the same object)"""
    order, index = [], {}
    stack = [(root, False)]
    while stack:
        pt, done = stack.pop()
        if id(pt) in index:
            continue
        if done:
            index[id(pt)] = len(order) + 1
            order.append(pt)
            continue
        stack.append((pt, True))
        for p in reversed(pt.prevs):
            if id(p) not in index:
                stack.append((p, False))
        if len(order) + len(stack) > 8 * MAX_NODES:
            return None
    if len(order) > MAX_NODES:
        return None
    nodes = []
    for pt in order:
        atom = pt.rule == "atom"
        nodes.append({"rule": pt.rule, "arg": I.arg(None if atom else pt.args), "prems": [index[id(p)] for p in pt.prevs],
                      "th": I.seq(pt.th), "aid": id_list(pt.args) if atom else []})
    return nodes


# ------------------------------------------------------------------------------------------------ code-driven random proof terms
def rnd_family(n, out_path, seed):
    basic.load_theory("logic_base")
    rnd = random.Random(seed)
    a = TVar("a")
    A, B, C = Var("A", BoolType), Var("B", BoolType), Var("C", BoolType)
    x, y = Var("x", a), Var("y", a)
    f = Var("f", TFun(a, a))
    R = Var("R", TFun(a, BoolType))
    P, Q = SVar("P", BoolType), SVar("Q", BoolType)
    sz = SVar("z", STVar("a"))
    props = [A, B, C, Implies(A, B), Implies(B, C), Implies(A, A), Eq(A, B), R(x), Eq(x, y), Forall(x, R(x)), Implies(P, P),
             Implies(P, Q), Eq(f(x), y)]
    terms = [A, B, x, y, f(x), f(y), f, R, Lambda(x, f(x)), Lambda(x, R(x))(y), Lambda(x, f(x))(y), sz]
    thnames = ["trueI", "conjI", "conjD1", "disjI1", "iffD1", "exI"]
    thnames = [t for t in thnames if theory.thy.has_theorem(t)]
    out = Out(out_path)
    I = Intern()
    for it in range(n):
        depth = rnd.choice([0, 0, 1, 1, 2])
        before = [[rnd.choice(props[:9]) for _ in range(rnd.randint(0 if lvl < depth - 1 else 1, 2))] for lvl in range(depth)]
        # the ids of the visible assumption lines (independent of the goal's sequent)
        _, goal, visible = make_host(before, Thm(A), later=False)
        pts = []

        def add(pt):
            pts.append(pt)
        for idv, th in visible:
            if rnd.random() < 0.6:
                add(ProofTerm.atom(ItemID(idv), th))
        size = rnd.randint(4, 40)
        tries = 0

        def pick():
            return pts[-1 - min(int(rnd.expovariate(0.4)), len(pts) - 1)]

        def eqs():
            return [p for p in pts if p.prop.is_equals()]
        while len(pts) < size and tries < 1200:
            tries += 1
            k = rnd.random()
            try:
                if k < 0.10 or not pts:
                    add(ProofTerm.assume(rnd.choice(props)))
                elif k < 0.16:
                    # a gap: a fresh statement, or the sequent of an existing node (gap next to a derivation / repeated gap)
                    th = pick().th if rnd.random() < 0.6 else Thm(rnd.choice(props), *rnd.sample(props[:5], rnd.randint(0, 2)))
                    add(ProofTerm.sorry(th))
                elif k < 0.20:
                    add(ProofTerm.reflexive(rnd.choice(terms)))
                elif k < 0.23 and thnames:
                    add(ProofTerm.theorem(rnd.choice(thnames)))
                elif k < 0.25:
                    add(ProofTerm.beta_conv(rnd.choice([Lambda(x, R(x))(y), Lambda(x, f(x))(y), Lambda(x, f(x))(f(y))])))
                elif k < 0.31:
                    # the same derivation once more, as a NEW object
                    o = pick()
                    if o.rule not in ("atom", "sorry"):
                        add(ProofTerm(o.rule, o.args, list(o.prevs)))
                elif k < 0.40:
                    p = pick()
                    add(p.implies_intr(rnd.choice(list(p.hyps) + props[:3]) if rnd.random() < 0.8 else rnd.choice(props)))
                elif k < 0.52:
                    # modus ponens with a premise that exists, or whose implication is assumed / left as a gap for the purpose
                    p2 = pick()
                    cands = [p for p in pts if p.prop.is_implies() and p.prop.arg1 == p2.prop]
                    if cands and rnd.random() < 0.6:
                        p1 = rnd.choice(cands)
                    else:
                        imp = Implies(p2.prop, rnd.choice(props[:6]))
                        p1 = ProofTerm.assume(imp) if rnd.random() < 0.6 else ProofTerm.sorry(Thm(imp))
                        add(p1)
                    add(ProofTerm("implies_elim", None, [p1, p2]))
                elif k < 0.60:
                    # discharge and re-assume: another derivation of (a weakening of) a sequent that is already there
                    p = pick()
                    h = rnd.choice(list(p.hyps)) if p.hyps else rnd.choice(props[:3])
                    pi = p.implies_intr(h)
                    add(pi)
                    hs = [q for q in pts if q.prop == h]
                    ph = rnd.choice(hs) if hs and rnd.random() < 0.7 else ProofTerm.assume(h)
                    if ph not in pts:
                        add(ph)
                    add(ProofTerm("implies_elim", None, [pi, ph]))
                elif k < 0.66:
                    c = eqs()
                    if c:
                        p = rnd.choice(c)
                        q = ProofTerm("symmetric", None, [p])
                        add(q)
                        if rnd.random() < 0.5:
                            add(ProofTerm("symmetric", None, [q]))      # states the sequent of p again
                elif k < 0.72:
                    c = eqs()
                    if c:
                        p1 = rnd.choice(c)
                        cands = [p for p in c if p.prop.lhs == p1.prop.rhs]
                        p2 = rnd.choice(cands) if cands and rnd.random() < 0.7 else ProofTerm.reflexive(p1.prop.rhs)
                        if p2 not in pts:
                            add(p2)
                        add(ProofTerm("transitive", None, [p1, p2]))
                elif k < 0.78:
                    p = pick()
                    c = [q for q in eqs() if q.prop.lhs == p.prop]
                    p1 = rnd.choice(c) if c and rnd.random() < 0.6 else ProofTerm.reflexive(p.prop)
                    if p1 not in pts:
                        add(p1)
                    add(ProofTerm("equal_elim", None, [p1, p]))
                elif k < 0.83:
                    add(ProofTerm("forall_intr", rnd.choice([x, y, A]), [pick()]))
                elif k < 0.87:
                    cands = [p for p in pts if p.prop.is_forall()]
                    if cands:
                        add(ProofTerm("forall_elim", rnd.choice([x, y, f(x)]), [rnd.choice(cands)]))
                elif k < 0.92:
                    inst = Inst(**{nm: rnd.choice([A, B, Implies(A, B)]) for nm in rnd.sample(["P", "Q"], rnd.randint(0, 2))})
                    if rnd.random() < 0.2:
                        inst.tyinst["a"] = rnd.choice([BoolType, a])
                    add(ProofTerm("substitution", inst, [pick()]))
                elif k < 0.95:
                    ty = TyInst(a=rnd.choice([BoolType, a, TFun(a, a)])) if rnd.random() < 0.85 else TyInst()
                    add(ProofTerm("subst_type", ty, [pick()]))
                else:
                    c = eqs()
                    if len(c) >= 1:
                        add(ProofTerm("combination", None, [rnd.choice(c), rnd.choice(c)]))
                if pts and (len(pts[-1].th.hyps) > 4 or pts[-1].prop.size() > 40):
                    pts.pop()
            except Exception:
                continue

        def reach(p, seen):
            if id(p) not in seen:
                seen.add(id(p))
                for q in p.prevs:
                    reach(q, seen)
            return seen
        roots = [p for p in pts if p.rule != "atom"]
        if not roots:
            continue
        roots.sort(key=lambda p: len(reach(p, set())))
        root = roots[-1] if rnd.random() < 0.8 else rnd.choice(roots[len(roots) // 2:])
        sub = rnd.random() < 0.5 if depth > 0 else rnd.random() < 0.93
        nodes = project_pt(I, root)
        if nodes is None:
            continue
        ev = {"kind": "export", "fam": "rnd", "key": "r:%d:%d" % (seed, it), "built": True, "nodes": nodes, "root": len(nodes)}
        run_behaviour(I, ev, root, lambda th: make_host(before, th)[:2], sub, use_none_prefix=(it % 2 == 0))
        out.emit(ev)
    out.close()
    print("random events", out.tid)


# ------------------------------------------------------------------------------------------------ library macros
def library(out_path, seed, n_per, theories):
    from server import server, items
    from prover import z3wrapper
    z3wrapper.check_z3 = False
    rnd = random.Random(seed)
    out = Out(out_path)
    I = Intern()
    stats = {}

    def bump(k):
        stats[k] = stats.get(k, 0) + 1
    for th in theories:
        data = basic.load_json_data(th)
        basic.load_theory(th, limit="start")
        cands = [i for i, raw in enumerate(data["content"]) if raw.get("ty") == "thm" and (raw.get("steps") or raw.get("proof"))]
        chosen = set(rnd.sample(cands, min(n_per, len(cands))))
        for i, raw in enumerate(data["content"]):
            try:
                item = items.parse_item(raw)
            except Exception:
                continue
            if item.error:
                continue
            if i in chosen:
                state = None
                try:
                    context.set_context(None, vars=item.vars)
                    if item.steps:
                        state = server.parse_init_state(item.prop)
                        state.parse_steps(item.steps)
                        state.check_proof(compute_only=True)
                    else:
                        state = server.parse_proof(item.proof)
                except Exception:
                    bump("replay-failed")
                if state is not None:
                    for it in flat(state.prf):
                        if it.rule in ("sorry", "subproof", "theorem", "variable", "") or not theory.has_macro(it.rule):
                            continue
                        try:
                            prev_ths = [state.prf.find_item(p).th for p in it.prevs]
                        except Exception:
                            continue
                        if any(p is None for p in prev_ths):
                            continue
                        key0 = "%s:%s" % (it.rule, digest([akey(it.args), [akey(p.prop) + akey(p.hyps) for p in prev_ths]]))
                        if key0 in out.seen:
                            continue
                        out.seen.add(key0)
                        macro = theory.get_macro(it.rule)
                        # premises as lines of an enclosing proof (atoms; the goal comes after them) or as stated gaps
                        mode = rnd.choice(["atoms-sub", "atoms-sib", "gaps"])
                        try:
                            if mode == "gaps":
                                prevs = [ProofTerm.sorry(p) for p in prev_ths]
                            else:
                                prevs = [ProofTerm.atom(ItemID(k), p) for k, p in enumerate(prev_ths)]
                            pt = macro.get_proof_term(it.args, prevs)
                        except NotImplementedError:
                            bump("no-expansion")
                            continue
                        except Exception:
                            bump("proof-term-raised")
                            continue
                        if pt.rule == "atom":
                            continue
                        nodes = project_pt(I, pt)
                        if nodes is None:
                            bump("too-big")
                            continue
                        ev = {"kind": "export", "fam": "lib", "key": "l:%s.%s:%s:%s" % (th, item.name, key0, mode), "built": True,
                              "nodes": nodes, "root": len(nodes), "macro": it.rule}
                        try:
                            lib_behaviour(I, ev, pt, prev_ths, mode)
                        except RecursionError:
                            bump("recursion")
                            continue
                        out.emit(ev)
            try:
                theory.thy.unchecked_extend(item.get_extension())
            except Exception:
                pass
    out.close()
    print("library events", out.tid, stats)


def lib_behaviour(I, ev, pt, prev_ths, mode):
    """like the other families, with the premises of the macro step as the lines in front of the goal (stated gaps)"""
    if mode == "gaps":
        return run_behaviour(I, ev, pt, lambda th: (None, ()), True)

    def host_with_prems(goal_th):
        prf = Proof()
        for k, p in enumerate(prev_ths):
            prf.add_item(k, "sorry", th=p)
        k = len(prev_ths)
        prf.add_item(k, "sorry", th=goal_th)
        prf.add_item(k + 1, "implies_intr", args=goal_th.prop, prevs=[k])
        return prf, (k,)
    return run_behaviour(I, ev, pt, host_with_prems, mode == "atoms-sub")


# ------------------------------------------------------------------------------------------------ identifiers
def build_shape(D):
    """a real nested Proof with one blank line per entry of the depth sequence; returns (proof, items in pre-order)"""
    top = Proof()
    stack = [top]          # stack[d-1] = the proof that lines of depth d go into
    order = []
    for d in D:
        del stack[d:]
        prf = stack[d - 1]
        item = ProofItem(0, "")
        prf.items.append(item)
        item.subproof = None
        order.append(item)
        sub = Proof()
        item._x02_sub = sub
        stack.append(sub)
    # give blocks their subproof objects and all items their positional ids
    for item in order:
        if item._x02_sub.items:
            item.subproof = item._x02_sub
        del item._x02_sub

    def number(prf, prefix):
        for k, it in enumerate(prf.items):
            it.id = ItemID(prefix + (k,))
            if it.subproof:
                number(it.subproof, prefix + (k,))
    number(top, ())
    return top, order


def walk_positions(prf, prefix=(), out=None):
    out = [] if out is None else out
    for k, it in enumerate(prf.items):
        out.append((it, prefix + (k,)))
        if it.subproof:
            walk_positions(it.subproof, prefix + (k,), out)
    return out


def ids_step(out, D, op, fam, rnd):
    from server import method
    key = "%s:%s:%s" % (fam, ",".join(map(str, D)), ":".join(map(str, op)))
    if key in out.seen:
        return
    out.seen.add(key)
    ev = {"kind": "ids", "fam": fam, "key": key, "D": list(D), "op": list(op), "raised": False}
    try:
        prf, order = build_shape(D)
        paths = [p for _, p in walk_positions(prf)]
        ids = [ItemID(p) for p in paths]
        i, n = op[1], op[2]
        start = ids[i - 1]
        ev["arith"] = [list((x.incr_id_after(start, n) if op[0] == "ins" else x.decr_id(start)).id) for x in ids]
        ev["dep"] = [[a + 1, b + 1, bool(ids[a].can_depend_on(ids[b]))] for a in range(len(ids)) for b in range(len(ids))]
        ev["eq"] = [[a + 1, b + 1, bool(ids[a] == ItemID(str(ids[b])))] for a in range(len(ids)) for b in range(len(ids))]
        ev["found"] = []
        for p in paths:
            try:
                it = prf.find_item(ItemID(p))
                ev["found"].append(1 + [k for k, o in enumerate(order) if o is it][0])
            except Exception:
                ev["found"].append(0)
        ev["misc"] = []
        for j in rnd.sample(range(len(ids)), min(3, len(ids))):
            r = rnd.randint(0, 3)
            ev["misc"].append({"j": j + 1, "n": r, "last": ids[j].last(), "incr": list(ids[j].incr_id(r).id),
                               "str": list(ItemID(str(ids[j])).id)})
        st = method.ProofState()
        st.prf = prf
        if op[0] == "ins":
            st.add_line_before(ItemID(paths[i - 1]), n)
        else:
            st.remove_line(ItemID(paths[i - 1]))
        pos_of = {id(o): k + 1 for k, o in enumerate(order)}
        ev["after"] = [{"id": list(it.id.id), "pos": list(p), "from": pos_of.get(id(it), 0)} for it, p in walk_positions(st.prf)]
    except Exception as e:
        ev["raised"] = True
        ev["exc"] = exc_str(e)
    out.emit(ev)


def ids_vectors(tlc_log, out_path):
    theory.thy = theory.EmptyTheory()
    out = Out(out_path)
    rnd = random.Random(7)
    n = 0
    for hist in tlc_lines(tlc_log, "X02I"):
        n += 1
        for st in hist:
            ids_step(out, st["before"], st["op"], "tlc", rnd)
    out.close()
    print("id behaviours", n, "events", out.tid)


def shape_after(D, op):
    i = op[1]
    if op[0] == "ins":
        return D[:i - 1] + [D[i - 1]] * op[2] + D[i - 1:]
    end = i
    while end < len(D) and D[end] > D[i - 1]:
        end += 1
    return D[:i - 1] + D[end:]


def ids_random(n, out_path, seed):
    theory.thy = theory.EmptyTheory()
    out = Out(out_path)
    rnd = random.Random(seed)
    for _ in range(n):
        D = [1]
        for _ in range(rnd.randint(3, 11)):
            D.append(rnd.randint(1, min(D[-1] + 1, 4)))
        for _ in range(10):
            ops = [["ins", i, rnd.randint(1, 3)] for i in range(1, len(D) + 1)] if len(D) <= 13 else []
            for i in range(1, len(D) + 1):
                # the only line of its level is not removed
                par = 0
                for j in range(i - 1, 0, -1):
                    if D[j - 1] == D[i - 1] - 1:
                        par = j
                        break
                sib = 0
                for j in range(par + 1, len(D) + 1):
                    if D[j - 1] < D[i - 1]:
                        break
                    if D[j - 1] == D[i - 1]:
                        sib += 1
                if sib >= 2:
                    ops.append(["rem", i, 0])
            if not ops:
                break
            op = rnd.choice(ops)
            ids_step(out, D, op, "rnd", rnd)
            D = shape_after(D, op)
    out.close()
    print("id events", out.tid)


if __name__ == "__main__":
    mode = sys.argv[1]
    if mode == "vectors":
        vectors(sys.argv[2], sys.argv[3], *[int(a) for a in sys.argv[4:7]])
    elif mode == "random":
        rnd_family(int(sys.argv[2]), sys.argv[3], int(sys.argv[4]))
    elif mode == "library":
        library(sys.argv[2], int(sys.argv[3]), int(sys.argv[4]), sys.argv[5].split(","))
    elif mode == "idsvec":
        ids_vectors(sys.argv[2], sys.argv[3])
    elif mode == "idsrnd":
        ids_random(int(sys.argv[2]), sys.argv[3], int(sys.argv[4]))
    else:
        raise SystemExit("unknown mode " + mode)
