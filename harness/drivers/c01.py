"""C01 driver: runs the real kernel (kernel/thm.py, kernel/theory.py check_proof) and logs events.

modes
  replay <vectors.ndjson> <out.ndjson>   spec -> code: every TLC-generated derivation attempt is performed
                                          twice, through Thm.<rule> and through theory.check_proof
  walk <n> <out.ndjson>                  code-driven random walk: premises are the code's OWN earlier results
                                          (also results the reference would reject), every so often the whole
                                          derivation of a result is checked as a gap-free proof
No verdict is computed here.
"""
import json
import random
import sys

from kernel.type import TVar, STVar, TFun, BoolType, TyInst
from kernel.term import Term, Var, SVar, Const, Comb, Abs, Bound, Inst, Eq, Implies, Forall, Lambda
from kernel.thm import Thm, InvalidDerivationException, primitive_deriv
from kernel.proof import Proof, ProofItem, ItemID
from kernel import theory
from kernel.theory import CheckProofException

from harness.codec import enc, encT, encS, dec, decT, NONE_S
from harness.core import digest

theory.thy = theory.EmptyTheory()

NOARG = {"t": ["none"], "ty": [], "sv": []}


def jarg(arg):
    if arg is None:
        return NOARG
    if isinstance(arg, Inst):
        return {"t": ["none"], "ty": [[k, encT(v)] for k, v in arg.tyinst.items()], "sv": [[k, enc(v)] for k, v in arg.items()]}
    if isinstance(arg, TyInst):
        return {"t": ["none"], "ty": [[k, encT(v)] for k, v in arg.items()], "sv": []}
    return {"t": enc(arg), "ty": [], "sv": []}


def mk_arg(rule, j):
    if rule == "substitution":
        inst = Inst()
        for k, v in j["ty"]:
            inst.tyinst[k] = decT(v)
        for k, v in j["sv"]:
            inst[k] = dec(v)
        return inst
    if rule == "subst_type":
        return TyInst(**{k: decT(v) for k, v in j["ty"]})
    if j["t"] == ["none"]:
        return None
    return dec(j["t"])


def mk_thm(j):
    return Thm(dec(j["c"]), tuple(dec(h) for h in j["h"]))


def apply_thm(rule, arg, prems):
    """Route 'thm': call the primitive rule directly, then check_thm_type (as the checker does)."""
    fun, _ = primitive_deriv[rule]
    try:
        res = fun(*prems) if arg is None else fun(arg, *prems)
        res.check_thm_type()
        return "accepted", res
    except InvalidDerivationException:
        return "rejected", None
    except Exception as e:  # TypeCheckException, TermException, TypeError, AssertionError ...
        return "raised:" + type(e).__name__, None


def apply_chk(rule, arg, prems):
    """Route 'chk': the same step as a proof object through theory.check_proof (premises as stated gaps)."""
    prf = Proof()
    for i, p in enumerate(prems):
        prf.add_item(i, "sorry", th=p)
    n = len(prems)
    prf.add_item(n, rule, args=arg, prevs=list(range(n)))
    try:
        res = theory.check_proof(prf)
        return "accepted", res
    except CheckProofException:
        return "rejected", None
    except Exception as e:
        return "raised:" + type(e).__name__, None


class Log:
    def __init__(self, path):
        self.f = open(path, "w")
        self.tid = 0

    def event(self, route, rule, arg, prems, outcome, res, extra=None):
        self.tid += 1
        ev = {"tid": self.tid, "route": route, "rule": rule, "arg": jarg(arg), "prems": [encS(p) for p in prems],
              "outcome": outcome, "result": encS(res) if res is not None else NONE_S}
        ev["key"] = "%s:%s:%s" % (route, rule, digest([ev["arg"], ev["prems"]]))
        if extra:
            ev.update(extra)
        self.f.write(json.dumps(ev, separators=(",", ":")) + "\n")

    def close(self):
        self.f.close()


def replay(vec_path, out_path):
    log = Log(out_path)
    n = 0
    for ln in open(vec_path):
        ln = ln.strip()
        if not ln:
            continue
        v = json.loads(ln)
        rule = v["rule"]
        try:
            arg = mk_arg(rule, v["arg"])
            prems = [mk_thm(p) for p in v["prems"]]
        except Exception as e:   # the structural decoder refuses the vector: machinery problem
            raise RuntimeError("cannot decode vector %r: %r" % (v, e))
        for route, f in (("thm", apply_thm), ("chk", apply_chk)):
            outcome, res = f(rule, arg, prems)
            log.event(route, rule, arg, prems, outcome, res)
        n += 1
    log.close()
    print("replayed", n, "vectors;", log.tid, "events")


# ------------------------------------------------------------------------------------------------
def walk(n, out_path, seed):
    rnd = random.Random(seed)
    a = TVar('a')
    A, B = Var('A', BoolType), Var('B', BoolType)
    P, Q = SVar('P', BoolType), SVar('Q', BoolType)
    x, y = Var('x', a), Var('y', a)
    sx = SVar('x', a)
    f = Var('f', TFun(a, a))
    R = Var('R', TFun(a, BoolType))
    sR = SVar('R', TFun(a, BoolType))
    sz = SVar('z', STVar('a'))
    xb = Var('x', BoolType)
    atoms_b = [A, B, P, Q, R(x), R(y), R(sx), sR(x), Eq(x, y), Eq(f(x), y), Eq(sx, x), Eq(sz, sz)]

    def rnd_prop(d=2):
        if d == 0 or rnd.random() < 0.4:
            return rnd.choice(atoms_b)
        k = rnd.random()
        if k < 0.5:
            return Implies(rnd_prop(d - 1), rnd_prop(d - 1))
        if k < 0.7:
            return Eq(rnd_prop(d - 1), rnd_prop(d - 1))
        v = rnd.choice([x, y, sx, A, P])
        return Forall(v, rnd_prop(d - 1))
    terms_a = [x, y, sx, f(x), f(y), f(f(x)), f(sx)]
    vars_all = [x, y, sx, A, B, P, Q, xb, f, R, sR, sz]
    adversarial = [Comb(A, x), Comb(R, A), Bound(0), Comb(R, Bound(0)), x, Abs("u", a, Bound(1))]

    def rnd_term():
        k = rnd.random()
        if k < 0.35:
            return rnd_prop(1)
        if k < 0.6:
            return rnd.choice(terms_a)
        if k < 0.8:
            return Lambda(rnd.choice([x, sx]), rnd.choice(terms_a + [R(x), R(sx)]))(rnd.choice(terms_a))
        if k < 0.9:
            return rnd.choice(adversarial)
        return rnd.choice([f, R, Lambda(x, R(x)), Lambda(x, f(x))])

    rules = ["assume", "implies_intr", "implies_elim", "reflexive", "symmetric", "transitive", "combination",
             "equal_intr", "equal_elim", "beta_conv", "abstraction", "forall_intr", "forall_elim", "substitution",
             "subst_type"]
    ths = []      # (thm, node) ; node = (rule, arg, [parent nodes])
    log = Log(out_path)
    nproofs = 0
    for step in range(n):
        rule = rnd.choice(rules)
        prems = []
        arg = None

        def pick():
            return rnd.choice(ths)
        if rule == "assume":
            arg = rnd_prop() if rnd.random() < 0.9 else rnd.choice(adversarial)
        elif rule == "implies_intr":
            if not ths:
                continue
            p = pick()
            arg = rnd.choice(list(p[0].hyps) + [rnd_prop(1)])
            prems = [p]
        elif rule in ("implies_elim", "transitive", "combination", "equal_intr", "equal_elim"):
            if len(ths) < 2:
                continue
            p1 = pick()
            t1 = p1[0]
            cands = []
            if rule == "implies_elim" and t1.prop.is_implies():
                cands = [t for t in ths if t[0].prop == t1.prop.arg1]
            elif rule == "equal_elim" and t1.prop.is_equals():
                cands = [t for t in ths if t[0].prop == t1.prop.arg1]
            elif rule == "transitive" and t1.prop.is_equals():
                cands = [t for t in ths if t[0].prop.is_equals() and t[0].prop.arg1 == t1.prop.arg]
            elif rule == "equal_intr" and t1.prop.is_implies():
                cands = [t for t in ths if t[0].prop.is_implies() and t[0].prop.arg1 == t1.prop.arg and t[0].prop.arg == t1.prop.arg1]
            p2 = rnd.choice(cands) if cands and rnd.random() < 0.8 else pick()
            prems = [p1, p2]
        elif rule in ("reflexive", "beta_conv"):
            arg = rnd_term()
        elif rule == "symmetric":
            if not ths:
                continue
            prems = [pick()]
        elif rule in ("abstraction", "forall_intr"):
            if not ths:
                continue
            prems = [pick()]
            arg = rnd.choice(vars_all) if rnd.random() < 0.93 else rnd.choice([f(x), Bound(0), Const("c", a)])
        elif rule == "forall_elim":
            if not ths:
                continue
            cands = [t for t in ths if t[0].prop.is_forall()] or ths
            prems = [rnd.choice(cands)]
            arg = rnd.choice(terms_a + [A, B, P, Implies(A, A), Forall(A, A), Comb(A, x), Bound(0)])
        elif rule == "substitution":
            if not ths:
                continue
            prems = [pick()]
            inst = Inst()
            choices = {'P': [A, Implies(A, A), Forall(A, A), Q, x], 'Q': [B, P], 'x': [x, y, f(x), A],
                       'R': [R, Lambda(x, Eq(x, x))], 'z': [x, A, f]}
            for nm in choices:
                if rnd.random() < 0.35:
                    inst[nm] = rnd.choice(choices[nm])
            arg = inst
        elif rule == "subst_type":
            if not ths:
                continue
            prems = [pick()]
            arg = TyInst(a=rnd.choice([BoolType, a, TFun(a, a)])) if rnd.random() < 0.8 else TyInst()
        pthms = [p[0] for p in prems]
        outcome, res = apply_thm(rule, arg, pthms)
        log.event("thm", rule, arg, pthms, outcome, res)
        if res is not None and len(res.hyps) <= 3 and res.prop.size() <= 25:
            node = (rule, arg, [p[1] for p in prems])
            ths.append((res, node))
            if len(ths) > 250:
                ths.pop(rnd.randrange(len(ths)))
            # every few accepted results: the whole derivation as a gap-free proof through the checker
            if rnd.random() < 0.25:
                order = []
                seen = {}

                def visit(nd):
                    if id(nd) in seen:
                        return seen[id(nd)]
                    ps = [visit(p) for p in nd[2]]
                    seen[id(nd)] = len(order)
                    order.append((nd, ps))
                    return seen[id(nd)]
                visit(node)
                if len(order) <= 40:
                    prf = Proof()
                    for i, (nd, ps) in enumerate(order):
                        prf.add_item(i, nd[0], args=nd[1], prevs=ps)
                    try:
                        r2 = theory.check_proof(prf, no_gaps=True)
                        oc = "accepted"
                    except CheckProofException:
                        r2, oc = None, "rejected"
                    except Exception as e:
                        r2, oc = None, "raised:" + type(e).__name__
                    nproofs += 1
                    log.event("proof", "proof", None, [], oc, r2,
                              {"steps": [[nd[0], ps] for nd, ps in order], "direct": encS(res)})
    log.close()
    print("walk events", log.tid, "proofs", nproofs)


def derivs(tlc_log, out_path):
    """whole derivations printed by spec/C01_Derive.tla (exhaustive short ones, simulated deep ones), each replayed as ONE
    gap-free proof object through theory.check_proof(no_gaps=True)"""
    log = Log(out_path)
    n = 0
    for ln in open(tlc_log, errors="replace"):
        if not ln.startswith('<<"DERIV", '):
            continue
        body = ln.strip()[len('<<"DERIV", '):-2]
        steps = json.loads(json.loads(body))
        prf = Proof()
        results = []       # expected sequents as canonical strings, by step
        ok = True
        for i, st in enumerate(steps):
            try:
                arg = mk_arg(st["rule"], st["arg"])
            except Exception as e:
                raise RuntimeError("cannot decode derivation step %r: %r" % (st, e))
            prevs = []
            for p in st["prems"]:
                key = json.dumps([sorted(json.dumps(h) for h in p["h"]), p["c"]])
                if key not in results:
                    ok = False
                    break
                prevs.append(results.index(key))
            if not ok:
                break
            prf.add_item(i, st["rule"], args=arg, prevs=prevs)
            e = st["expected"]
            results.append(json.dumps([sorted(json.dumps(h) for h in e["h"]), e["c"]]))
        if not ok:
            raise RuntimeError("derivation cites a premise that no earlier step produced")
        try:
            res = theory.check_proof(prf, no_gaps=True)
            oc = "accepted"
        except CheckProofException:
            res, oc = None, "rejected"
        except Exception as e:
            res, oc = None, "raised:" + type(e).__name__
        n += 1
        log.event("proof", "proof", None, [], oc, res, {"steps": [[st["rule"], len(st["prems"])] for st in steps],
                                                       "direct": steps[-1]["expected"]})
    log.close()
    print("derivations", n)


if __name__ == "__main__":
    mode = sys.argv[1]
    if mode == "derivs":
        derivs(sys.argv[2], sys.argv[3])
        sys.exit(0)
    if mode == "replay":
        replay(sys.argv[2], sys.argv[3])
    elif mode == "walk":
        walk(int(sys.argv[2]), sys.argv[3], int(sys.argv[4]) if len(sys.argv) > 4 else 0)
    else:
        raise SystemExit("unknown mode")
