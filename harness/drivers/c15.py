"""C15 driver: runs the real SAT solver (prover/sat.py), the Tseitin encoder (prover/tseitin.py), the proof
checker on the encoder's theorem and the end-to-end prover (prover/proofrec.py::solve_cnf) and logs events.

modes
  probe   <out.json>                          behavioural probe: does solve_cnf return on [[~x, ~x]] (3 s alarm)?
  solve   <vectors.ndjson> <out.ndjson> <src> [shuffle_seed]
                                              spec -> code: every TLC-enumerated CNF through sat.solve_cnf under a
                                              per-call alarm; with shuffle_seed the clause and literal order of
                                              every CNF is permuted and the variables renamed (seeded)
  random  <n> <out.ndjson> <seed> [maxvars]   seeded random CNFs up to 12 variables / 60 clauses
  tseitin <vectors.ndjson> <out.ndjson> <solve_out.ndjson> <seed> <full_upto> <sample> [prove]
                                              every TLC-enumerated formula with <= full_upto connectives and a
                                              seeded sample of the larger ones through tseitin.encode, the checker,
                                              convert_cnf; the CNF of the NEGATED formula through sat.solve_cnf
                                              (events in solve_out) and, with `prove`, proofrec.solve_cnf
  repeats <vectors.ndjson> <out.ndjson> <solve_out.ndjson> <check_level> [prove]
                                              EVERY formula of the TLC-enumerated family with a repeated sub-formula
                                              (X op X in every 0-2 connective context; vectors flagged rep) through
                                              tseitin.encode / checker / convert_cnf, its CNF through sat.solve_cnf
  family  <vectors.ndjson> <out.ndjson> <solve_out.ndjson> <fam> <seed> <full_upto> <sample> <check_level>
                                              the TLC-enumerated NAME-SPACE family (fam = clash: atoms named x1, x2, ... like the
                                              encoder's fresh variables): all members with <= full_upto connectives + a seeded sample
  rclash  <n> <out.ndjson> <solve_out.ndjson> <seed> [prove]
                                              seeded random formulas (3..5 connectives) whose atoms carry names x1 .. x9
  rformulas <n> <out.ndjson> <solve_out.ndjson> <seed> [prove]
                                              same on seeded random formulas with 3..5 connectives over <= 3 atoms (half of them wrapped into tautology schemes)
No verdict is computed here: only projection of results to JSON.
Literals are [v, b] with v a positive integer (the driver maps integers to names and back).
"""
import json
import os
import random
import signal
import sys
import time

from prover import sat

from harness.core import digest

LIMIT_LONG = 3.0      # seconds per call; >= 1000 x the median (about 10 us .. 1 ms per call)
LIMIT_SHORT = 0.3     # after MANY_TIMEOUTS alarm time-outs in this process (keeps a defective tree affordable;
MANY_TIMEOUTS = 4     #  a time-out is a violation only with a model-level explanation, see C15_SatTrace)


class Alarm(BaseException):
    pass


class StepBudget(BaseException):
    pass


def _on_alarm(signum, frame):
    raise Alarm()


signal.signal(signal.SIGALRM, _on_alarm)
_timeouts = 0
_steps = [0, 0]     # [calls of solve_cnf's inner function `backtrack` in this call, budget]
_tail = []          # what the last three calls of `backtrack` did: (conflict clause id, learned clause, assigns after, result)


def _profile(frame, event, arg):
    # run-time observation only (no source change): count the conflicts of the current solve_cnf call and keep
    # the last three conflict rounds (used only to explain a time-out: three identical rounds = the run cycles)
    if frame.f_code.co_name == "backtrack" and frame.f_code.co_filename.endswith("sat.py"):
        if event == "call":
            _steps[0] += 1
            if _steps[0] > _steps[1]:
                raise StepBudget()
        elif event == "return" and arg is not None:      # (None: the frame is being unwound by the alarm)
            try:
                loc = frame.f_locals
                _tail.append((loc["clause_id"], list(loc["cnf"][-1]), dict(loc["assigns"]), arg))
                if len(_tail) > 3:
                    del _tail[0]
            except Exception:
                del _tail[:]


def step_budget(nv):
    """A terminating run over n variables learns at most 3^n clauses (one per conflict).  The budget is more
    than 10 x that bound for n <= 3 and far above anything a terminating run needs for n <= 5; for more variables
    the wall-clock alarm is the effective bound."""
    return 300 if nv <= 3 else 1000 if nv <= 5 else 10 ** 9


def timed(fun, *args, limit=None, budget=None):
    """-> (outcome, value, limit): outcome 'ok' | 'timeout' | 'raised:<Exception class>'.
    `timeout` = the call did not return within `limit` seconds or within `budget` conflicts."""
    global _timeouts
    if limit is None:
        limit = LIMIT_LONG if _timeouts < MANY_TIMEOUTS else LIMIT_SHORT
    _steps[0], _steps[1] = 0, budget or 10 ** 9
    del _tail[:]
    signal.setitimer(signal.ITIMER_REAL, limit)
    if budget:
        sys.setprofile(_profile)
    try:
        res = fun(*args)
        sys.setprofile(None)
        signal.setitimer(signal.ITIMER_REAL, 0)
        return "ok", res, limit
    except Alarm:
        _timeouts += 1
        return "timeout", None, limit
    except StepBudget:
        return "timeout", None, 0
    except Exception as e:
        sys.setprofile(None)
        signal.setitimer(signal.ITIMER_REAL, 0)
        return "raised:" + type(e).__name__, None, limit
    finally:
        sys.setprofile(None)
        signal.setitimer(signal.ITIMER_REAL, 0)


_dedup = []


def dedup_probe():
    """Does solve_cnf return on [[~x, ~x]]?  (C15_DEDUP in the environment = result of the `probe` mode.)"""
    if not _dedup:
        v = os.environ.get("C15_DEDUP")
        if v in ("0", "1"):
            _dedup.append(v == "1")
        else:
            global _timeouts
            o, _, _ = timed(sat.solve_cnf, [[("x", False), ("x", False)]], limit=3.0)
            _timeouts = 0
            _dedup.append(o == "ok")
    return _dedup[0]


DEFAULT_NAMES = ["x", "y", "z", "w"] + ["v%d" % i for i in range(5, 80)]


class Log:
    def __init__(self, path, tid0=0):
        self.f = open(path, "w")
        self.tid = tid0

    def write(self, ev):
        self.tid += 1
        ev["tid"] = self.tid
        self.f.write(json.dumps(ev, separators=(",", ":")) + "\n")

    def close(self):
        self.f.close()


def solve_event(cnf, names, src, vid=0, limit=None):
    """cnf: list of clauses of [v, b] (v int >= 1); names[v-1] is the name given to the solver."""
    inp = [[(names[v - 1], bool(b)) for v, b in clause] for clause in cnf]
    back = {names[i]: i + 1 for i in range(len(names))}
    nv = len({v for c in cnf for v, _ in c})
    dd = dedup_probe()
    # iteration order of the set `variables` that solve_cnf builds (same construction, same process, same hashes):
    # a projection of the input, it lets the model decide in the order the code does
    variables = set()
    for clause in inp:
        for name, _ in clause:
            variables.add(name)
    order = [back[name] for name in variables]
    budget = step_budget(nv)
    outcome, res, lim = timed(sat.solve_cnf, inp, limit=limit, budget=budget)
    ev = {"kind": "solve", "src": src, "vid": vid, "cnf": cnf, "nv": nv, "budget": min(budget, 10 ** 6), "conflicts": _steps[0],
          "names": names[:max([v for c in cnf for v, _ in c] + [0])], "limit": lim,
          "assignment": [], "proofs": [], "ret": "none", "dedup": dd, "order": order, "tail": []}
    if outcome == "ok":
        # project the returned pair; anything that is not the documented shape is recorded as such
        try:
            verdict, cert = res
            if verdict == "satisfiable":
                ev["verdict"] = "sat"
                ev["assignment"] = sorted([back[k], bool(val)] for k, val in cert.items())
            elif verdict == "unsatisfiable":
                ev["verdict"] = "unsat"
                ev["proofs"] = [[int(k), [int(s) for s in cert[k]]] for k in sorted(cert)]
            else:
                ev["verdict"] = "other"
                ev["ret"] = repr(res)[:200]
        except Exception as e:
            ev["verdict"] = "other"
            ev["ret"] = (repr(res)[:150] + " / " + repr(e))[:200]
    else:
        ev["verdict"] = outcome
    if outcome == "timeout":
        try:
            ev["tail"] = [{"cid": int(cid), "learned": sorted([back[n], bool(b)] for n, b in learned),
                           "asg": sorted([back[n], bool(a[0]), int(a[2])] for n, a in asg.items()),
                           "ret": int(ret) if isinstance(ret, int) else -1} for cid, learned, asg, ret in _tail]
        except Exception:
            ev["tail"] = []
    ev["key"] = "solve:%s" % digest([cnf, ev["names"]])
    return ev


def read_vectors(path):
    with open(path) as f:
        for i, ln in enumerate(f):
            ln = ln.strip()
            if ln:
                yield i + 1, json.loads(ln)


def probe(out):
    o1, r1, _ = timed(sat.solve_cnf, [[("x", False), ("x", False)]], limit=3.0)
    o2, r2, _ = timed(sat.solve_cnf, [[("x", True), ("x", False), ("x", False)], [("x", True)]], limit=3.0)
    global _timeouts
    _timeouts = 0
    json.dump({"dup_returns": o1 == "ok", "dup_outcome": o1, "dup_result": repr(r1), "dup2_outcome": o2}, open(out, "w"))
    print("probe", o1, r1)


def solve(vec_path, out_path, src, shuffle_seed=None):
    log = Log(out_path)
    rnd = random.Random(shuffle_seed) if shuffle_seed is not None else None
    pool = ["x", "y", "z", "p", "q", "a1", "b2", "zz", "A", "_"]
    n = 0
    for vid, v in read_vectors(vec_path):
        cnf = v["cnf"]
        names = DEFAULT_NAMES
        if rnd is not None:
            cnf = [list(c) for c in cnf]
            rnd.shuffle(cnf)
            for c in cnf:
                rnd.shuffle(c)
            names = rnd.sample(pool, 4)
        log.write(solve_event(cnf, list(names[:4]), src, vid))
        n += 1
    log.close()
    print("solve events", n, "timeouts", _timeouts)


def random_cnf(rnd, maxvars=12):
    mode = rnd.random()
    if mode < 0.35:
        # near the satisfiability threshold, fixed width: runs with several conflicts, back-jumps, reused learned clauses
        nv = min(maxvars, rnd.choice([3, 4, 5, 6, 7, 8, 9, 10, 11, 12]))
        k = 2 if nv <= 3 else 3
        ratio = rnd.uniform(0.9, 1.6) if k == 2 else rnd.uniform(3.5, 5.5)
        nc = min(60, int(round(ratio * nv)))
        return [[[v, rnd.random() < 0.5] for v in rnd.sample(range(1, nv + 1), k)] for _ in range(nc)]
    nv = rnd.choice([1, 2, 3, 3, 4, 4, 5, 5, 6, 6, 7, 8, 9, 10, 11, 12])
    nv = min(nv, maxvars)
    mode = rnd.random()
    ratio = rnd.uniform(0.5, 6.0)
    nc = min(60, max(0, int(round(ratio * nv)) + rnd.randint(-1, 1)))
    if rnd.random() < 0.03:
        nc = 0
    cnf = []
    for _ in range(nc):
        k = rnd.choice([1, 2, 2, 2, 3, 3, 3, 3, 4, 5])
        if mode < 0.80:        # clean: distinct variables in a clause
            vs = rnd.sample(range(1, nv + 1), min(k, nv))
            cl = [[v, rnd.random() < 0.5] for v in vs]
        else:                  # with replacement: duplicated and complementary literals occur
            cl = [[rnd.randint(1, nv), rnd.random() < 0.5] for _ in range(k)]
        cnf.append(cl)
    if 0.80 <= mode < 0.86 and cnf:     # an explicit duplicated literal
        c = rnd.choice(cnf)
        if c:
            c.insert(rnd.randrange(len(c) + 1), list(rnd.choice(c)))
    if 0.86 <= mode < 0.91 and cnf:     # an explicit tautological pair
        c = rnd.choice(cnf)
        if c:
            l = rnd.choice(c)
            c.insert(rnd.randrange(len(c) + 1), [l[0], not l[1]])
    if mode >= 0.97:                    # an empty clause somewhere
        cnf.insert(rnd.randrange(len(cnf) + 1), [])
    return cnf


def random_mode(n, out_path, seed, maxvars=12):
    rnd = random.Random(seed * 7919 + 15)
    log = Log(out_path)
    pool = ["x", "y", "z", "w", "p", "q", "r", "s", "a1", "b2", "c3", "zz", "A", "B", "_", "x1", "x2", "x10"]
    for i in range(n):
        cnf = random_cnf(rnd, maxvars)
        names = rnd.sample(pool, 12)
        log.write(solve_event(cnf, names, "rand", 0))
    log.close()
    print("random events", n, "timeouts", _timeouts)


# ------------------------------------------------------------------------------------------------ Tseitin
_loaded = {}


def hol():
    """Import the HOL side lazily (loading the theory `sat` costs about 2 s)."""
    if not _loaded:
        from kernel.type import BoolType
        from kernel.term import Term, Var, And, Or, Not, Implies, Eq
        from kernel import theory, report
        from logic import basic
        from prover import tseitin
        from harness.codec import enc, encT
        basic.load_theory('sat')
        _loaded.update(BoolType=BoolType, Term=Term, Var=Var, And=And, Or=Or, Not=Not, Implies=Implies, Eq=Eq,
                       theory=theory, report=report, tseitin=tseitin, enc=enc, encT=encT)
    return _loaded


BOOL_J = ["tc", "bool", []]


def prop(t):
    """Structural projection of a HOL term to a propositional formula (reads raw fields only)."""
    H = hol()
    Term = H["Term"]
    ty = t.ty
    if ty == Term.COMB:
        f = t.fun
        if f.ty == Term.CONST and f.name == "neg":
            return ["not", prop(t.arg)]
        if f.ty == Term.COMB and f.fun.ty == Term.CONST:
            nm = f.fun.name
            if nm in ("conj", "disj", "implies"):
                return [{"conj": "and", "disj": "or", "implies": "imp"}[nm], prop(f.arg), prop(t.arg)]
            if nm == "equals":
                T = H["encT"](f.fun.T)
                if T[0] == "tc" and T[1] == "fun" and T[2][0] == BOOL_J:
                    return ["iff", prop(f.arg), prop(t.arg)]
    if ty == Term.CONST and t.name in ("true", "false") and H["encT"](t.T) == BOOL_J:
        return [t.name]
    if ty == Term.VAR and H["encT"](t.T) == BOOL_J:
        return ["atom", t.name]
    return ["atom", "?" + digest(H["enc"](t))]


def mk(f):
    H = hol()
    k = f[0]
    if k == "atom":
        return H["Var"](f[1], H["BoolType"])
    if k in ("true", "false"):
        from kernel import term as _term
        return getattr(_term, k)
    if k == "not":
        return H["Not"](mk(f[1]))
    a, b = mk(f[1]), mk(f[2])
    return {"and": H["And"], "or": H["Or"], "imp": H["Implies"], "iff": H["Eq"]}[k](a, b)


NONE_F = ["none"]


def lit_ids(cnf_named):
    """CNF over names -> CNF over integers (first-occurrence numbering) and the list of names."""
    names, ids, out = [], {}, []
    for clause in cnf_named:
        c = []
        for nm, b in clause:
            if nm not in ids:
                names.append(nm)
                ids[nm] = len(names)
            c.append([ids[nm], bool(b)])
        out.append(c)
    return out, names


def tseitin_event(f, src, vid=0, level=0):
    H = hol()
    t = mk(f)
    ev = {"kind": "tseitin", "src": src, "vid": vid, "formula": f, "hyps": [], "concl": NONE_F, "cnf": [],
          "chk": {"outcome": "none", "hyps": [], "concl": NONE_F, "gaps": 0, "level": level}}
    outcome, pt, _ = timed(H["tseitin"].encode, t, limit=20.0)
    ev["outcome"] = outcome
    if outcome == "ok":
        try:
            th = pt.th
            ev["hyps"] = [prop(h) for h in th.hyps]
            ev["concl"] = prop(th.prop)
        except Exception as e:          # not a proof term with a theorem
            ev["outcome"] = "raised:" + type(e).__name__
            ev["key"] = "tseitin:%s" % digest(f)
            return ev
        o2, cnf, _ = timed(H["tseitin"].convert_cnf, th.prop, limit=20.0)
        if o2 == "ok":
            try:
                ev["cnf"] = [[[str(nm), bool(b)] for nm, b in clause] for clause in cnf]
            except Exception as e:      # not a list of lists of (name, bool)
                ev["cnf"] = []
                ev["outcome"] = "convert_raised:" + type(e).__name__
        else:
            ev["outcome"] = "convert_" + o2
        rpt = H["report"].ProofReport()

        def chk():
            # check_level 0 = every macro expanded to primitive inferences; 1 = macros of level <= 1 trusted
            return H["theory"].check_proof(pt.export(), rpt, check_level=level)
        o3, res, _ = timed(chk, limit=30.0)
        if o3 == "ok":
            ev["chk"] = {"outcome": "accepted", "hyps": [prop(h) for h in res.hyps], "concl": prop(res.prop), "gaps": len(rpt.gaps),
                         "level": level}
        else:
            ev["chk"]["outcome"] = "rejected" if o3 == "raised:CheckProofException" else o3
    ev["key"] = "tseitin:%s" % digest(f)
    return ev


def prove_events(f, src, slog, vid=0):
    """End to end: Tseitin CNF of the negated formula through sat.solve_cnf (a `solve` event), then
    proofrec.solve_cnf(F), which rebuilds a HOL proof of F from the resolution trace."""
    H = hol()
    t = mk(f)
    ev = {"kind": "prove", "src": src, "vid": vid, "formula": f, "hyps": [], "concl": NONE_F,
          "chk": {"outcome": "none", "hyps": [], "concl": NONE_F, "gaps": 0}}
    ev["key"] = "prove:%s" % digest(f)
    o1, pt, _ = timed(H["tseitin"].encode, H["Not"](t), limit=20.0)
    if o1 != "ok":
        ev["outcome"] = "encode_" + o1
        return ev
    o2, cnf_named, _ = timed(H["tseitin"].convert_cnf, pt.prop, limit=20.0)
    if o2 != "ok":
        ev["outcome"] = "convert_" + o2
        return ev
    try:
        cnf, names = lit_ids(cnf_named)
    except Exception as e:      # not a list of lists of (name, bool): nothing to give to the solver
        ev["outcome"] = "convert_raised:" + type(e).__name__
        return ev
    sev = solve_event(cnf, names, "tseitin", vid)
    sev["names"] = names
    slog.write(sev)
    if sev["verdict"] != "unsat":
        ev["outcome"] = "notrun_" + sev["verdict"]      # solve_cnf would assert / loop: nothing more to observe
        return ev
    if "proofrec" not in _loaded:
        from prover import proofrec
        _loaded["proofrec"] = proofrec
    outcome, res, _ = timed(_loaded["proofrec"].solve_cnf, t, limit=30.0)
    ev["outcome"] = outcome
    if outcome == "ok":
        th = res.th
        ev["hyps"] = [prop(h) for h in th.hyps]
        ev["concl"] = prop(th.prop)
        rpt = H["report"].ProofReport()

        def chk():
            return H["theory"].check_proof(res.export(), rpt, check_level=0)
        o3, r3, _ = timed(chk, limit=60.0)
        if o3 == "ok":
            ev["chk"] = {"outcome": "accepted", "hyps": [prop(h) for h in r3.hyps], "concl": prop(r3.prop), "gaps": len(rpt.gaps)}
        else:
            ev["chk"]["outcome"] = "rejected" if o3 == "raised:CheckProofException" else o3
    return ev


def nconn(f):
    return 0 if f[0] in ("atom", "true", "false") else 1 + sum(nconn(g) for g in f[1:])


def tseitin_mode(vec_path, out_path, solve_out, seed, full_upto, sample, prove):
    rnd = random.Random(seed * 104729 + 3)
    small, big = [], []
    for vid, v in read_vectors(vec_path):
        if v.get("rep") or v.get("fam") in ("clash", "const"):
            continue            # these families are replayed by the `repeats` / `family` modes
        (small if nconn(v["formula"]) <= full_upto else big).append((vid, v["formula"]))
    if len(big) > sample:
        big = sorted(rnd.sample(big, sample))
    log, slog = Log(out_path), Log(solve_out)
    for vid, f in small + big:
        log.write(tseitin_event(f, "enum", vid))
        if prove:
            log.write(prove_events(f, "enum", slog, vid))
    log.close()
    slog.close()
    print("tseitin formulas", len(small), "+", len(big), "events", log.tid, "solve events", slog.tid)


def repeats_mode(vec_path, out_path, solve_out, level, prove):
    """Every formula of the family Repeats (X op X in every small context; TLC-enumerated, flagged rep) through
    tseitin.encode / checker / convert_cnf; the produced CNF itself (repeated and complementary literals) through
    sat.solve_cnf; with `prove` also the end-to-end prover."""
    log, slog = Log(out_path), Log(solve_out)
    n = 0
    for vid, v in read_vectors(vec_path):
        if not v.get("rep"):
            continue
        f = v["formula"]
        ev = tseitin_event(f, "rep", vid, level)
        log.write(ev)
        if ev["outcome"] == "ok" and ev["cnf"]:
            try:
                cnf, names = lit_ids([[(nm, b) for nm, b in clause] for clause in ev["cnf"]])
                sev = solve_event(cnf, names, "tseitin_rep", vid)
                sev["names"] = names
                slog.write(sev)
            except Exception:
                pass
        if prove:
            log.write(prove_events(f, "rep", slog, vid))
        n += 1
    log.close()
    slog.close()
    print("repeats formulas", n, "events", log.tid, "solve events", slog.tid)


def family_mode(vec_path, out_path, solve_out, fam, seed, full_upto, sample, level):
    """The TLC-enumerated family `fam` (clash: atoms that carry names of the encoder's fresh-name scheme x1, x2, ...;
    const: true / false as leaves): every member with <= full_upto connectives and a seeded sample of the larger ones
    through tseitin.encode / checker / convert_cnf; the produced CNF through sat.solve_cnf."""
    rnd = random.Random(seed * 7368787 + 5)
    small, big = [], []
    for vid, v in read_vectors(vec_path):
        if v.get("fam") == fam:
            (small if nconn(v["formula"]) <= full_upto else big).append((vid, v["formula"]))
    if len(big) > sample:
        big = sorted(rnd.sample(big, sample))
    log, slog = Log(out_path), Log(solve_out)
    for vid, f in small + big:
        ev = tseitin_event(f, fam, vid, level)
        log.write(ev)
        if ev["outcome"] == "ok" and ev["cnf"]:
            try:
                cnf, names = lit_ids([[(nm, b) for nm, b in clause] for clause in ev["cnf"]])
                sev = solve_event(cnf, names, "tseitin_" + fam, vid)
                sev["names"] = names
                slog.write(sev)
            except Exception:
                pass
    log.close()
    slog.close()
    print("family", fam, "formulas", len(small), "+", len(big), "events", log.tid, "solve events", slog.tid)


def rclash_mode(n, out_path, solve_out, seed, prove):
    """Seeded random formulas with 3..5 connectives over <= 3 atoms drawn from a pool in which names of the encoder's
    fresh-name scheme (x1 .. x9) stand next to ordinary names; at least one atom carries a scheme name."""
    rnd = random.Random(seed * 32452843 + 7)
    log, slog = Log(out_path), Log(solve_out)
    xs = ["x%d" % i for i in range(1, 10)]
    for i in range(n):
        k = rnd.choice([1, 2, 2, 3, 3])
        nx = rnd.randint(1, k)
        atoms = rnd.sample(xs, nx) + rnd.sample(["a", "b", "y", "x", "x0"], k - nx)
        f = random_formula(rnd, rnd.choice([3, 4, 4, 5, 5]), atoms)
        log.write(tseitin_event(f, "rclash", 0, 1))
        if prove:
            log.write(prove_events(f, "rclash", slog, 0))
    log.close()
    slog.close()
    print("random clash formulas", n, "events", log.tid, "solve events", slog.tid)


def random_formula(rnd, n, atoms):
    if n == 0:
        return ["atom", rnd.choice(atoms)]
    if rnd.random() < 0.2:
        return ["not", random_formula(rnd, n - 1, atoms)]
    k = rnd.randint(0, n - 1)
    return [rnd.choice(["and", "or", "imp", "iff"]), random_formula(rnd, k, atoms), random_formula(rnd, n - 1 - k, atoms)]


def rformulas_mode(n, out_path, solve_out, seed, prove):
    rnd = random.Random(seed * 15485863 + 1)
    log, slog = Log(out_path), Log(solve_out)
    for i in range(n):
        atoms = ["a", "b", "c"][:rnd.choice([1, 2, 2, 3, 3])]
        f = random_formula(rnd, rnd.choice([3, 4, 4, 5, 5]), atoms)
        if rnd.random() < 0.5:
            # bias towards tautologies, so that the end-to-end prover has something to prove
            g = random_formula(rnd, rnd.choice([1, 2]), atoms)
            f = rnd.choice([["imp", f, f], ["or", g, ["not", g]], ["imp", ["and", f, g], f], ["imp", g, ["or", f, g]],
                            ["iff", ["and", g, g], g], ["imp", ["and", ["imp", g, f], g], f]])
        log.write(tseitin_event(f, "rand", 0))
        if prove:
            log.write(prove_events(f, "rand", slog, 0))
    log.close()
    slog.close()
    print("random formulas", n, "events", log.tid, "solve events", slog.tid)


def replay_solve(in_path, out_path):
    """Re-run recorded solve events (same CNF, same names) with the long limit."""
    log = Log(out_path)
    for ln in open(in_path):
        e = json.loads(ln)
        names = list(e["names"]) + [n for n in DEFAULT_NAMES if n not in e["names"]]
        ev = solve_event(e["cnf"], names, e["src"], e.get("vid", 0), limit=2 * LIMIT_LONG)
        ev["names"] = e["names"]
        ev["key"] = e["key"]
        log.write(ev)
    log.close()


def replay_formula(in_path, out_path, solve_out):
    log, slog = Log(out_path), Log(solve_out)
    for ln in open(in_path):
        e = json.loads(ln)
        if e["kind"] == "tseitin":
            log.write(tseitin_event(e["formula"], e["src"], e.get("vid", 0)))
        else:
            log.write(prove_events(e["formula"], e["src"], slog, e.get("vid", 0)))
    log.close()
    slog.close()


if __name__ == "__main__":
    a = sys.argv[1:]
    mode = a[0]
    t0 = time.time()
    if mode == "probe":
        probe(a[1])
    elif mode == "solve":
        solve(a[1], a[2], a[3], int(a[4]) if len(a) > 4 else None)
    elif mode == "random":
        random_mode(int(a[1]), a[2], int(a[3]), int(a[4]) if len(a) > 4 else 12)
    elif mode == "tseitin":
        tseitin_mode(a[1], a[2], a[3], int(a[4]), int(a[5]), int(a[6]), len(a) > 7 and a[7] == "prove")
    elif mode == "repeats":
        repeats_mode(a[1], a[2], a[3], int(a[4]), len(a) > 5 and a[5] == "prove")
    elif mode == "rformulas":
        rformulas_mode(int(a[1]), a[2], a[3], int(a[4]), len(a) > 5 and a[5] == "prove")
    elif mode == "family":
        family_mode(a[1], a[2], a[3], a[4], int(a[5]), int(a[6]), int(a[7]), int(a[8]))
    elif mode == "rclash":
        rclash_mode(int(a[1]), a[2], a[3], int(a[4]), len(a) > 5 and a[5] == "prove")
    elif mode == "replay_solve":
        replay_solve(a[1], a[2])
    elif mode == "replay_formula":
        replay_formula(a[1], a[2], a[3])
    else:
        raise SystemExit("unknown mode")
    print("%s done in %.1fs" % (mode, time.time() - t0))
