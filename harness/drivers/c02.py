"""C02 driver: runs the real proof checker (kernel/theory.py check_proof / checked_extend) on proof objects.

modes
  features <out.json>                         innocuous probes that tell which variant of the checking algorithm the
                                              code implements (constants of spec/C02_CheckerImpl.tla, field fx of events)
  replay <vectors> <out.ndjson> [tid0] [src]  spec -> code: every vector {prf, exts} (TLC-generated, or from `random`)
                                              is built as real Proof/ProofItem objects and run through
                                                theory.check_proof(no_gaps=True / False, with a ProofReport)
                                                theory.check_proof(compute_only=True)
                                                Theory.checked_extend([Theorem(name, stated, prf)]) per stated theorem
  random <n> <vectors.ndjson> <seed>          seeded generator of larger objects (<= 12 items, nesting <= 3): a correct
                                              derivation is built first and then damaged (identifiers, citations,
                                              stated sequents, placeholders, empty lines)
No verdict is computed here: objects and outcomes are projected to JSON (raw fields only).

Vector / event encoding (spec/C02_Ref.tla):
  prop    ["at",n] Var n:bool | ["sv",n] SVar n:bool | ["imp",p,q] | ["eq",p,q] | ["other",digest]
  sequent {"h":[props],"c":prop}; absent = {"h":[],"c":["none"]}
  item    {"id":[ints],"rule":str,"ak":kind,"arg":prop|["none"],"at":sequent,"prevs":[[ints]],"th":sequent,"sub":[items],
           "alias":[ints]}
          ak = kind of the object given as ProofItem.args: none | term (arg) | thm (at: a made-up Thm) | type | inst | tyinst |
               tuple | name (arg = ["at",name]);  alias = position of the item whose Python OBJECT is reused here ([] = own)
Theories: the checks never go through the global kernel.theory.thy.  `side` is a Theory built on the side, `snap` a
  copy(theory.thy) snapshot taken before the global theory went on (it then gets a theorem TX and ANOTHER statement for T1).
"""
import copy
import json
import random
import sys

from kernel.type import BoolType, TyInst
from kernel.term import Term, Var, SVar, Implies, Eq, Inst
from kernel.thm import Thm
from kernel.proof import Proof, ProofItem, ItemID
from kernel.proofterm import ProofTerm
from kernel.macro import Macro
from kernel import theory, extension
from kernel.theory import CheckProofException, register_macro, global_macros
from kernel.report import ProofReport

from harness.core import digest

NONE_P = ["none"]
NONE_S = {"h": [], "c": NONE_P}


# ------------------------------------------------------------------------------------------------ codec (raw fields)
def enc_p(t):
    if t.ty == Term.VAR and t.T == BoolType:
        return ["at", t.name]
    if t.ty == Term.SVAR and t.T == BoolType:
        return ["sv", t.name]
    if t.ty == Term.COMB and t.fun.ty == Term.COMB and t.fun.fun.ty == Term.CONST and t.fun.fun.name == "implies":
        return ["imp", enc_p(t.fun.arg), enc_p(t.arg)]
    if t.ty == Term.COMB and t.fun.ty == Term.COMB and t.fun.fun.ty == Term.CONST and t.fun.fun.name == "equals":
        return ["eq", enc_p(t.fun.arg), enc_p(t.arg)]
    return ["other", digest(repr(t))]


def enc_s(th):
    if not isinstance(th, Thm):
        return NONE_S
    return {"h": [enc_p(h) for h in th.hyps], "c": enc_p(th.prop)}


def dec_p(j):
    if j[0] == "at":
        return Var(j[1], BoolType)
    if j[0] == "sv":
        return SVar(j[1], BoolType)
    if j[0] == "imp":
        return Implies(dec_p(j[1]), dec_p(j[2]))
    if j[0] == "eq":
        return Eq(dec_p(j[1]), dec_p(j[2]))
    raise ValueError("c02 driver: cannot decode %r" % (j,))


def dec_s(j):
    if j["c"] == NONE_P:
        return None
    return Thm(dec_p(j["c"]), tuple(dec_p(h) for h in j["h"]))


# ------------------------------------------------------------------------------------------------ theory and macros
def setup():
    """Theories + two test macros.  Returns (side, snap): two Theory objects with the single theorem T1: |- A --> A
    (get_theorem returns it with schematic variables), NEITHER of which is the global theory when the checks run:
      side  built on the side from EmptyTheory()
      snap  copy(theory.thy) taken while the global theory looked the same; afterwards the global theory moves on:
            it gets a theorem TX: |- B and T1 is replaced by |- A --> B."""
    A, B = Var("A", BoolType), Var("B", BoolType)
    side = theory.EmptyTheory()
    side.add_theorem("T1", Thm(Implies(A, A)))
    theory.thy = theory.EmptyTheory()
    theory.thy.add_theorem("T1", Thm(Implies(A, A)))
    snap = copy.copy(theory.thy)
    theory.thy.add_theorem("TX", Thm(B))
    theory.thy.add_theorem("T1", Thm(Implies(A, B)))
    if "verif_id0" not in global_macros:
        @register_macro("verif_id0")
        class VerifId0(Macro):
            """Trusted (level 0) macro: returns its single premise."""
            def __init__(self):
                self.level = 0
                self.sig = None
                self.limit = None

            def eval(self, args, prevs):
                assert len(prevs) == 1, "verif_id0"
                return prevs[0]

            def get_proof_term(self, args, pts):
                assert len(pts) == 1, "verif_id0"
                return pts[0]

        @register_macro("verif_gap1")
        class VerifGap1(Macro):
            """Level 1 macro (expanded at check_level 0): its expansion is the single placeholder |- args."""
            def __init__(self):
                self.level = 1
                self.sig = Term
                self.limit = None

            def get_proof_term(self, args, pts):
                assert len(pts) == 0, "verif_gap1"
                return ProofTerm.sorry(Thm(args))
    return side, snap


SIG = {"assume": "term", "implies_intr": "term", "reflexive": "term", "beta_conv": "term", "abstraction": "term",
       "forall_intr": "term", "forall_elim": "term", "verif_gap1": "term", "substitution": "inst", "subst_type": "tyinst",
       "theorem": "name"}


def norm_items(js):
    """Fill in the fields of the older, shorter item format (argument kind = what the rule's signature asks for)."""
    for j in js:
        if "ak" not in j:
            j["ak"] = SIG.get(j["rule"], "none")
            if j["ak"] in ("term", "name") and j.get("arg", NONE_P) == NONE_P:
                j["ak"] = "none"
        j.setdefault("arg", NONE_P)
        j.setdefault("at", NONE_S)
        j.setdefault("alias", [])
        j.setdefault("sub", [])
        norm_items(j["sub"])
    return js


def mk_args(j):
    k = j["ak"]
    if k == "none":
        return None
    if k == "term":
        return dec_p(j["arg"])
    if k == "thm":
        return dec_s(j["at"])
    if k == "type":
        return BoolType
    if k == "inst":
        return Inst()
    if k == "tyinst":
        return TyInst()
    if k == "tuple":
        return (dec_p(j["arg"]), dec_p(j["arg"]))
    if k == "name":
        return j["arg"][1]
    raise ValueError("c02 driver: argument kind %r" % (k,))


def build_items(js, prefix, objs):
    items = []
    for i, j in enumerate(js):
        pos = prefix + (i,)
        if j["alias"]:
            it = objs[tuple(j["alias"])]           # the very same ProofItem object at a second position
        else:
            it = ProofItem(tuple(j["id"]), j["rule"], args=mk_args(j), prevs=[tuple(p) for p in j["prevs"]], th=dec_s(j["th"]))
            if j["rule"] == "subproof":
                it.subproof = Proof()
                it.subproof.items = build_items(j["sub"], pos, objs)
        objs[pos] = it
        items.append(it)
    return items


def build(js):
    """A fresh Proof each time: check_proof assigns sequents in place."""
    prf = Proof()
    prf.items = build_items(js, (), {})
    return prf


def run_check(thy, js, no_gaps, compute_only=False, want_ths=False, prf=None):
    prf = build(js) if prf is None else prf     # prf given: ONE object checked repeatedly (history events)
    rpt = ProofReport()
    try:
        res = thy.check_proof(prf, rpt, no_gaps=no_gaps, compute_only=compute_only)
        oc = "accepted"
    except CheckProofException:
        res, oc = None, "rejected"
    except Exception as e:     # AssertionError, AttributeError, IndexError ...: a refusal by a foreign exception
        res, oc = None, "raised:" + type(e).__name__
    out = {"oc": oc, "final": enc_s(res), "gaps": [enc_s(g) for g in rpt.gaps] if oc == "accepted" else []}
    if want_ths:
        # the sequent every item carries after an accepted check (check_proof assigns them in place)
        out["ths"] = positions(prf.items, []) if oc == "accepted" else []
    return out


def positions(items, prefix):
    out = []
    for i, it in enumerate(items):
        pos = prefix + [i]
        if it.rule != "" and isinstance(it.th, Thm):
            out.append({"p": pos, "s": enc_s(it.th)})
        if it.rule == "subproof" and it.subproof is not None:
            out += positions(it.subproof.items, pos)
    return out


_ext_n = [0]


def run_extend(base, js, stated_j, with_proof=True, prf=None):
    thy = copy.copy(base)
    name = "TX"                    # the name a `theorem TX` step of the supplied proof cites: the extension's own name
    stated = dec_s(stated_j)
    ext = extension.Theorem(name, stated, (build(js) if prf is None else prf) if with_proof else None)
    axiom = False
    try:
        rep = thy.checked_extend([ext])
        oc = "accepted"
        axiom = any(n == name for n, _ in rep.get_axioms())
    except CheckProofException:
        oc = "rejected"
    except Exception as e:
        oc = "raised:" + type(e).__name__
    installed = False
    if thy.has_theorem(name):
        installed = enc_s(thy.get_theorem(name, svar=False)) == enc_s(stated)
    return {"stated": stated_j, "oc": oc, "installed": installed, "axiom": axiom}


# ------------------------------------------------------------------------------------------------ features
def item(id, rule, arg=NONE_P, prevs=(), th=NONE_S, sub=(), ak=None, at=NONE_S, alias=()):
    j = {"id": list(id), "rule": rule, "arg": arg, "prevs": [list(p) for p in prevs], "th": th, "sub": list(sub), "at": at,
         "alias": list(alias)}
    if ak is not None:
        j["ak"] = ak
    return norm_items([j])[0]


def features(out_path):
    side, snap = setup()
    thy = side
    A = ["at", "A"]
    AA = {"h": [A], "c": A}
    EAA = {"h": [], "c": ["eq", A, A]}
    acc = lambda js, **kw: run_check(thy, js, **kw)["oc"] == "accepted"
    x0 = item([0], "assume", A)
    fx = {
        # a correct one-step proof whose identifier is not its position
        "idpos": not acc([item([5], "assume", A)], no_gaps=True),
        # a citation of an EARLIER verified step written as a negative index
        "negidx": not acc([item([0], "assume", A), item([1], "substitution", prevs=[[-2]])], no_gaps=True),
        # an empty line that states a (valid) sequent
        "empty": not acc([item([0], "", th=AA)], no_gaps=True),
        # extension whose proof is a single placeholder for the very statement
        "extng": not run_extend(thy, [item([0], "sorry", th=AA)], AA)["installed"],
        # extension whose (correct) proof concludes something else than the statement
        "extcmp": not run_extend(thy, [item([0], "assume", A)], {"h": [A], "c": ["imp", A, A]})["installed"],
        # a rule without argument is handed a (true) theorem object as args instead of citing it
        "argsig": not acc([item([0], "reflexive", A), item([1], "symmetric", ak="thm", at=EAA)], no_gaps=True),
        # the same (correct) item object once more at a position its identifier does not name
        "posocc": not acc([x0, dict(x0, alias=[0])], no_gaps=True),
    }
    json.dump(fx, open(out_path, "w"))
    print(json.dumps(fx))


# ------------------------------------------------------------------------------------------------ replay
def read_vectors(path):
    for ln in open(path):
        ln = ln.strip()
        if not ln:
            continue
        v = json.loads(ln)
        if isinstance(v, str):       # TLC's CSVWrite quotes the JSON text
            v = json.loads(v)
        yield v


HIST_OFFSET = 5 * 10 ** 6      # tids of history events (below the 10^7 of the binding self-test)
PRIMS = {"assume", "implies_intr", "implies_elim", "reflexive", "symmetric", "transitive", "combination", "equal_intr",
         "equal_elim", "beta_conv", "abstraction", "forall_intr", "forall_elim", "substitution", "subst_type"}


def _wants_history(js, n):
    """every object with a step that is not a primitive rule (macros, theorem citations, placeholders, blocks), and every
    fourth of the others"""
    def rules(items):
        for it in items:
            yield it["rule"]
            yield from rules(it["sub"])
    return n % 4 == 0 or any(r not in PRIMS for r in rules(js))


def replay(vec_path, out_path, tid0=0, src="tlc", fx_path=None):
    side, snap = setup()
    fx = json.load(open(fx_path)) if fx_path else None
    if fx is None:
        raise SystemExit("replay needs the features file")
    n = nh = 0
    with open(out_path, "w") as f:
        for v in read_vectors(vec_path):
            js = norm_items(v["prf"])
            n += 1
            ev = {"tid": tid0 + n, "key": "obj:%s" % digest([js, v["exts"]]), "src": src, "fx": fx, "prf": js}
            if js:
                ev["ng"] = run_check(side, js, True)
                ev["g"] = run_check(snap, js, False, want_ths=True)
                ev["co"] = {"oc": run_check(side, js, False, compute_only=True)["oc"]}
                ev["exts"] = [run_extend(snap if k % 2 == 0 else side, js, s) for k, s in enumerate(v["exts"])]
            else:                    # an extension offered without proof
                na = {"oc": "n/a", "final": NONE_S, "gaps": [], "ths": []}
                ev["ng"], ev["g"], ev["co"] = na, na, {"oc": "n/a"}
                ev["exts"] = [run_extend(snap, js, s, with_proof=False) for s in v["exts"]]
            f.write(json.dumps(ev, separators=(",", ":")) + "\n")
            if js and _wants_history(js, n):
                # HISTORY of one proof object: checked first where everything is permitted (the global theory, which has
                # every cited theorem; gaps allowed), then -- the SAME object -- in the strict contexts.  The events carry the
                # same fields and are judged by the same clauses: a verdict must rest on steps verified in THIS check.
                prf = build(js)
                run_check(theory.thy, js, False, prf=prf)
                h = {"tid": tid0 + n + HIST_OFFSET, "key": "hist:%s" % digest([js, v["exts"]]), "src": src + "+hist", "fx": fx, "prf": js}
                h["g"] = run_check(snap, js, False, want_ths=True, prf=prf)
                h["ng"] = run_check(side, js, True, prf=prf)
                h["co"] = {"oc": run_check(side, js, False, compute_only=True, prf=prf)["oc"]}
                h["exts"] = [run_extend(snap if k % 2 == 0 else side, js, s, prf=prf) for k, s in enumerate(v["exts"])]
                f.write(json.dumps(h, separators=(",", ":")) + "\n")
                nh += 1
    print("replayed", n, "vectors,", nh, "histories")


# ------------------------------------------------------------------------------------------------ random larger objects
A_, B_ = ["at", "A"], ["at", "B"]


def _sq(h, c):
    hs = []
    for x in h:
        if x not in hs:
            hs.append(x)
    return {"h": hs, "c": c}


def _same(s, t):
    return s["c"] == t["c"] and all(x in t["h"] for x in s["h"]) and all(x in s["h"] for x in t["h"])


class Gen:
    def __init__(self, rnd):
        self.rnd = rnd

    def prop(self, d=1):
        r = self.rnd
        if d == 0 or r.random() < 0.6:
            return r.choice([A_, B_])
        return ["imp", self.prop(d - 1), self.prop(d - 1)]

    def block(self, prefix, n, visible, depth):
        """A correct block of n items at positions prefix+[i]; visible: list of (id, sequent) usable from here.
        Returns (items, sequents) where sequents[i] is None for items that verify nothing."""
        r = self.rnd
        items, seqs = [], []
        vis = list(visible)
        for i in range(n):
            pid = prefix + [i]
            k = r.random()
            th, sub, arg, prevs, rule = None, [], NONE_P, [], None
            imps = [(q, s) for q, s in vis if s["c"][0] == "imp"]
            if k < 0.22 or not vis:
                rule, arg = "assume", self.prop(1)
                th = _sq([arg], arg)
            elif k < 0.40:
                rule = "implies_intr"
                q, s = r.choice(vis)
                arg = r.choice(s["h"]) if s["h"] and r.random() < 0.8 else self.prop(0)
                prevs = [q]
                th = _sq([x for x in s["h"] if x != arg], ["imp", arg, s["c"]])
            elif k < 0.58 and imps:
                q1, s1 = r.choice(imps)
                cands = [(q, s) for q, s in vis if s["c"] == s1["c"][1]]
                if cands:
                    q2, s2 = r.choice(cands)
                    rule, prevs = "implies_elim", [q1, q2]
                    th = _sq(s1["h"] + s2["h"], s1["c"][2])
                else:                       # make the minor premise available as an assumption first
                    rule, arg = "assume", s1["c"][1]
                    th = _sq([arg], arg)
            elif k < 0.68:
                rule = r.choice(["substitution", "substitution", "verif_id0"])
                q, s = r.choice(vis)
                prevs, th = [q], s
            elif k < 0.70 and r.random() < 0.5:
                eqs = [(q, s) for q, s in vis if s["c"][0] == "eq"]
                m = r.random()
                if eqs and m < 0.4:
                    q, s = r.choice(eqs)
                    rule, prevs, th = "symmetric", [q], _sq(s["h"], ["eq", s["c"][2], s["c"][1]])
                elif eqs and m < 0.6 and [x for x in vis if x[1]["c"] == r.choice(eqs)[1]["c"][1]]:
                    q1, s1 = r.choice(eqs)
                    cands = [(q, s) for q, s in vis if s["c"] == s1["c"][1]]
                    if cands:
                        q2, s2 = r.choice(cands)
                        rule, prevs, th = "equal_elim", [q1, q2], _sq(s1["h"] + s2["h"], s1["c"][2])
                    else:
                        rule, arg = "reflexive", self.prop(1)
                        th = _sq([], ["eq", arg, arg])
                elif m < 0.8:
                    rule, arg = "reflexive", self.prop(1)
                    th = _sq([], ["eq", arg, arg])
                else:
                    q, s = r.choice(vis)
                    rule, prevs, th = "subst_type", [q], s
            elif k < 0.73:
                rule, arg, th = "theorem", ["at", "T1"], _sq([], ["imp", ["sv", "A"], ["sv", "A"]])
            elif k < 0.78:
                rule = "sorry"
                th = _sq([A_] if r.random() < 0.3 else [], self.prop(1))
            elif k < 0.81:
                rule, arg = "verif_gap1", self.prop(1)
                th = _sq([], arg)
            elif k < 0.84:
                rule = ""
            elif depth < 3:
                rule = "subproof"
                sub, ss = self.block(pid, r.randint(1, 3), vis, depth + 1)
                th = ss[-1]
                if th is None:
                    sub.append({"id": pid + [len(sub)], "rule": "assume", "arg": A_, "prevs": [], "th": NONE_S, "sub": []})
                    th = _sq([A_], A_)
            else:
                rule, arg = "assume", self.prop(0)
                th = _sq([arg], arg)
            stated = NONE_S
            if th is not None and (rule == "sorry" or r.random() < 0.7):
                stated = th
                if rule not in ("sorry",) and r.random() < 0.15 and len(th["h"]) < 2:     # a weaker statement is fine
                    stated = _sq(th["h"] + [r.choice([A_, B_])], th["c"])
                    th = stated
            items.append({"id": pid, "rule": rule, "arg": arg, "prevs": prevs, "th": stated, "sub": sub})
            seqs.append(th)
            if th is not None:
                vis.append((pid, th))
        return items, seqs

    def all_items(self, items):
        out = []
        for it in items:
            out.append(it)
            out += self.all_items(it["sub"])
        return out

    def with_pos(self, items, prefix, anc=()):
        """(item, position, enclosing blocks) for every item, in textual order."""
        out = []
        for i, it in enumerate(items):
            out.append((it, prefix + [i], list(anc)))
            out += self.with_pos(it["sub"], prefix + [i], tuple(anc) + (it,))
        return out

    def damage(self, top):
        r = self.rnd
        flat = self.all_items(top)
        it = r.choice(flat)
        k = r.random()
        ids = [x["id"] for x in flat]
        if k < 0.08:                                     # compound: identifier pushed forward AND a citation of itself / a later sibling
            cited = [x for x in flat if x["prevs"]]
            if cited:
                it = r.choice(cited)
                pos = list(it["id"])                     # identifiers are still positions unless damaged before
                n = r.choice([1, 1, 2, 3])
                it["id"] = pos[:-1] + [pos[-1] + n]
                it["prevs"][r.randrange(len(it["prevs"]))] = pos[:-1] + [pos[-1] + r.randrange(n)]
                if it["th"]["c"] == NONE_P or r.random() < 0.3:
                    it["th"] = _sq([], self.prop(1))
        elif k < 0.20:                                   # citation INTO a closed block (earlier sibling of the item or of an ancestor)
            where = self.with_pos(top, [])
            cands = []
            for x, px, anc in where:
                if not x["prevs"]:
                    continue
                inner = [q for y, q, _ in where
                         if any(len(q) > m and q[:m - 1] == px[:m - 1] and q[m - 1] < px[m - 1] for m in range(1, len(px) + 1))]
                if inner:
                    cands.append((x, anc, inner))
            if cands:
                x, anc, inner = r.choice(cands)
                x["prevs"][r.randrange(len(x["prevs"]))] = list(r.choice(inner))
                if r.random() < 0.8:                     # let the new result propagate: nothing above it states a sequent
                    for y in [x] + anc:
                        y["th"] = NONE_S
        elif k < 0.30:                                   # identifier
            m = r.random()
            if m < 0.4:
                it["id"] = it["id"][:-1] + [it["id"][-1] + r.choice([1, 2, -1, 5])]
            elif m < 0.7:
                other = r.choice(flat)
                it["id"], other["id"] = other["id"], it["id"]
            elif m < 0.85:
                it["id"] = list(r.choice(ids))
            else:
                it["id"] = it["id"][:-1] + [-1 - r.randint(0, 2)]
        elif k < 0.52:                                   # citation
            cited = [x for x in flat if x["prevs"]]
            if cited:
                it = r.choice(cited)
                j = r.randrange(len(it["prevs"]))
                m = r.random()
                if m < 0.35:
                    it["prevs"][j] = list(r.choice(ids))
                elif m < 0.55:
                    it["prevs"][j] = list(it["id"])
                elif m < 0.75:
                    it["prevs"][j] = it["prevs"][j][:-1] + [-1 - r.randint(0, 3)]
                elif m < 0.9:
                    it["prevs"][j] = it["prevs"][j][:-1] + [it["prevs"][j][-1] + r.choice([1, 2, 7])]
                else:
                    it["prevs"][j] = it["prevs"][j] + [0]
        elif k < 0.75:                                   # stated sequent
            th = it["th"]
            m = r.random()
            if th["c"] == NONE_P:
                it["th"] = _sq([], self.prop(1))
            elif m < 0.3 and th["h"]:
                it["th"] = _sq(th["h"][1:], th["c"])
            elif m < 0.5:
                it["th"] = _sq(th["h"] + [self.prop(0)], th["c"])
            elif m < 0.8:
                it["th"] = _sq(th["h"], self.prop(1))
            else:
                it["th"] = NONE_S
        elif k < 0.85:                                   # placeholder in place of a step
            if it["rule"] != "subproof":
                it["rule"], it["prevs"], it["arg"] = "sorry", [], NONE_P
                if it["th"]["c"] == NONE_P and r.random() < 0.8:
                    it["th"] = _sq([], self.prop(1))
        elif k < 0.93:                                   # empty line that states something
            if it["rule"] != "subproof":
                it["rule"], it["prevs"], it["arg"] = "", [], NONE_P
                if r.random() < 0.7:
                    it["th"] = _sq([], self.prop(1))
        else:                                            # wrong rule
            if it["rule"] in ("substitution", "verif_id0", "implies_intr"):
                it["rule"] = r.choice(["substitution", "implies_intr", "verif_id0"])
                it["arg"] = A_ if it["rule"] == "implies_intr" else NONE_P

    PRIM0 = ("implies_elim", "symmetric", "transitive", "equal_intr", "equal_elim", "combination")

    def damage_args(self, top):
        """The argument object of a step is of a kind its rule does not take; in particular a made-up theorem object in the
        place of a citation."""
        r = self.rnd
        flat = [x for x in self.all_items(top) if x["rule"] not in ("", "sorry", "subproof") and not x.get("alias")]
        if not flat:
            return
        byid = {tuple(x["id"]): x for x in self.all_items(top)}
        cands = [x for x in flat if x["rule"] in self.PRIM0 and x["prevs"]]
        if cands and r.random() < 0.6:
            x = r.choice(cands)
            q = x["prevs"].pop(0)                       # the first premise is no longer cited ...
            src = byid.get(tuple(q))
            at = src["th"] if src is not None and src["th"]["c"] != NONE_P else _sq([], self.prop(1))
            if r.random() < 0.4:
                at = _sq([], at["c"])                   # ... but asserted by a theorem object nobody verified
            x["ak"], x["at"], x["arg"] = "thm", at, NONE_P
        else:
            x = r.choice(flat)
            x["ak"] = r.choice(["none", "term", "thm", "type", "inst", "tyinst", "tuple", "name"])
            x["arg"] = ["at", "T1"] if x["ak"] == "name" else (A_ if x["ak"] in ("term", "tuple") else NONE_P)
            x["at"] = _sq([], self.prop(1)) if x["ak"] == "thm" else NONE_S

    def damage_arity(self, top):
        r = self.rnd
        flat = [x for x in self.all_items(top) if x["rule"] not in ("", "sorry", "subproof") and not x.get("alias")]
        if flat:
            x = r.choice(flat)
            if x["prevs"] and r.random() < 0.5:
                x["prevs"].pop(r.randrange(len(x["prevs"])))
            else:
                ids = [y["id"] for y in self.all_items(top)]
                x["prevs"].append(list(r.choice(x["prevs"]) if x["prevs"] and r.random() < 0.5 else r.choice(ids)))

    def damage_again(self, top, alias):
        """An item is placed once more at the end of its list: the same OBJECT (alias) or an equal twin.  Half of the time
        the item is prepared the circular way: it carries the identifier of the second place and cites itself or a later item."""
        r = self.rnd
        where = [(x, px, anc) for x, px, anc in self.with_pos(top, []) if x["rule"] != "subproof" and not x.get("alias")]
        if not where:
            return
        x, px, anc = r.choice(where)
        lst = anc[-1]["sub"] if anc else top
        if r.random() < 0.5 and x["prevs"]:
            x["id"] = px[:-1] + [len(lst)]
            x["prevs"][r.randrange(len(x["prevs"]))] = px[:-1] + [r.randrange(px[-1], len(lst))]
            if x["th"]["c"] == NONE_P:
                x["th"] = _sq([], self.prop(1))
        y = copy.deepcopy(x)
        if alias:
            y["alias"] = list(px)
        lst.append(y)

    def sync_alias(self, top):
        """An aliased entry IS the original object: its record must show what the original shows."""
        bypos = {tuple(px): x for x, px, _ in self.with_pos(top, [])}
        for x, px, _ in self.with_pos(top, []):
            if x.get("alias"):
                o = bypos[tuple(x["alias"])]
                for f in ("id", "rule", "ak", "arg", "at", "prevs", "th"):
                    if f in o:
                        x[f] = copy.deepcopy(o[f])
                    else:
                        x.pop(f, None)

    def vector(self):
        r = self.rnd
        n = r.randint(2, 12) if r.random() < 0.8 else r.randint(1, 3)
        top, seqs = self.block([], n, [], 1)
        nd = r.choice([0, 0, 1, 1, 1, 2, 2, 3])
        for _ in range(nd):
            self.damage(top)
        norm_items(top)
        if r.random() < 0.15:
            self.damage_args(top)
        if r.random() < 0.07:
            self.damage_arity(top)
        k = r.random()
        if k < 0.10:
            self.damage_again(top, alias=True)
        elif k < 0.15:
            self.damage_again(top, alias=False)
        self.sync_alias(top)
        exts = []
        last = seqs[-1]
        if last is not None:
            exts.append(last)
            if r.random() < 0.5:
                exts.append(_sq(last["h"], self.prop(1)))
            if last["h"] and r.random() < 0.5:
                exts.append(_sq([], last["c"]))
        else:
            exts.append(_sq([], self.prop(1)))
        return {"prf": top, "exts": exts}


def gen_random(n, out_path, seed):
    g = Gen(random.Random(seed))
    with open(out_path, "w") as f:
        # an extension offered without any proof must be reported as an axiom
        f.write(json.dumps({"prf": [], "exts": [_sq([], B_), _sq([A_], A_)]}, separators=(",", ":")) + "\n")
        for _ in range(n):
            f.write(json.dumps(g.vector(), separators=(",", ":")) + "\n")
    print("generated", n + 1, "vectors")


if __name__ == "__main__":
    mode = sys.argv[1]
    if mode == "features":
        features(sys.argv[2])
    elif mode == "replay":
        replay(sys.argv[2], sys.argv[3], int(sys.argv[4]) if len(sys.argv) > 4 else 0,
               sys.argv[5] if len(sys.argv) > 5 else "tlc", sys.argv[6] if len(sys.argv) > 6 else None)
    elif mode == "random":
        gen_random(int(sys.argv[2]), sys.argv[3], int(sys.argv[4]) if len(sys.argv) > 4 else 0)
    else:
        raise SystemExit("unknown mode")
