"""C10 driver: the real conversions of logic/conv.py and the normalisers of data/nat.py, data/integer.py, data/real.py,
data/proplogic.py, logic/logic.py (and logic/auto.py for the proof-producing real normaliser) on real terms.

modes
  all   <dump> <vectors.ndjson> <out.ndjson> <jobs> <arith_mod> <int_mod> <comb_mod> <nrand> <seed> <cap> <deep>
        the three parts below in one process (the theories are loaded once, then <jobs> children are forked); events carry
        src = "replay" | "comb" | "rand"
  part "replay":
        <dump> = TLC's dump of the reachable states of spec/C10_Rearr.tla (state = mode, ty, cls, e).  The states with the same
        (mode, ty, cls) are one orbit.  Every member e is decoded to a real term (a "ring" orbit at int AND at real) and every
        normaliser of its kind is run on it: one "norm" event per (member, normaliser), one "orbit" event per (orbit, normaliser)
        carrying all (x, rhs).  arith_mod / int_mod: replay only the arithmetic (resp. integer) orbits whose class digest is
        0 modulo it; cap: at most that many members of one orbit (the smallest and a seeded sample; propositional orbits: 3/5 of it, at least 12, at most 60).  TLC explores everything
        in any case.
  part "comb":   (terms whose digest is 0 modulo comb_mod, and all terms the specification marks `must`)
        every term of spec/C10_Terms.tla (twice: binders named "x", clashing with the free variable x, and binders with fresh
        names) x every traversal / rewriting combinator of CONVS: one "comb" event each.
  part "hist":
        theory HISTORIES for the normaliser whose behaviour depends on the theory (nat.norm_full): one theory object, extended item by
        item through nat.json; after each extension (quick: around the binary-arithmetic theorems; deep: items 18..89, then every
        12th) the normaliser runs on members of every nat orbit: norm + orbit events with the facts of the theory state (thy).
  part "rand":
        seeded random larger expressions (5-8 leaves) with random class-preserving rearrangements (input generation only:
        the T specification recomputes the classes), as norm + orbit events.
  event <in.ndjson> <out.ndjson>      re-run recorded events (replay of a finding)
Events (see spec/C10_ConvTrace.tla): x, conds, pt / ev / chk / idem = {o: ok|conv|other, exc, th: {h, c}}.  Only projection
with harness/codec.py; no verdict is computed here.
"""
import hashlib
import json
import os
import random
import re
import sys

from kernel.type import TFun, BoolType, NatType, IntType, RealType
from kernel import term
from kernel.term import Term, Var, Const, Comb, Abs, Bound, Not, And, Or, Implies, Eq, true, false, Number, Nat
from kernel import theory
from kernel.proofterm import ProofTerm
from logic import basic
from logic import conv as C
from logic.conv import ConvException
from logic import logic, auto
from data import nat, integer, real, proplogic

from harness.codec import enc, encT, dec, decT, encS, NONE_S
from harness.core import digest

basic.load_theory('interval_arith')      # what `from data import real` loads: contains nat, int, real, logic

TYPES = {"nat": NatType, "int": IntType, "real": RealType}
SUC = Const("Suc", TFun(NatType, NatType))


# ------------------------------------------------------------------------------------------------ decoding of vectors
def hol_arith(a, T):
    k = a[0]
    if k == "v":
        return Var(a[1], T)
    if k == "n":
        return Number(T, a[1])
    if k in ("+", "*", "-"):
        op = {"+": term.plus, "*": term.times, "-": term.minus}[k](T)
        return op(hol_arith(a[1], T), hol_arith(a[2], T))
    if k == "neg":
        return term.uminus(T)(hol_arith(a[1], T))
    if k == "^":
        return term.nat_power(T)(hol_arith(a[1], T), Nat(a[2]))
    if k == "S":
        return SUC(hol_arith(a[1], T))
    if k == "o" and a[1][0] == "tsub":
        return term.minus(T)(hol_arith(a[1][1], T), hol_arith(a[1][2], T))
    raise ValueError("hol_arith: %r" % (a,))


def hol_prop(a):
    k = a[0]
    if k == "v":
        return Var(a[1], BoolType)
    if k == "T":
        return true
    if k == "F":
        return false
    if k == "not":
        return Not(hol_prop(a[1]))
    if k == "o" and a[1][0] == "hol":      # an application atom: carries the term itself (codec encoding)
        return dec(a[1][1])
    if k in ("and", "or", "imp", "iff"):
        x, y = hol_prop(a[1]), hol_prop(a[2])
        return {"and": term.conj, "or": term.disj, "imp": term.implies, "iff": term.equals(BoolType)}[k](x, y)
    raise ValueError("hol_prop: %r" % (a,))


def parse_dump(path):
    """TLC -dump output -> list of {mode, ty, cls (text), e (JSON)}; purely syntactic."""
    txt = open(path).read()
    out = []
    for blk in re.split(r"(?:^|\n)State \d+:\n", txt):
        blk = blk.strip()
        if not blk:
            continue
        st = {}
        for part in re.split(r"(?:^|\n)/\\ ", blk):
            part = part.strip()
            if not part:
                continue
            name, val = part.split(" = ", 1)
            st[name] = " ".join(val.split())
        out.append({"mode": json.loads(st["mode"]), "ty": json.loads(st["ty"]), "cls": st["cls"],
                    "e": json.loads(st["e"].replace("<<", "[").replace(">>", "]"))})
    return out


# ------------------------------------------------------------------------------------------------ running a conversion
def outcome(f):
    try:
        return "ok", "", f()
    except ConvException as e:
        return "conv", "ConvException", None
    except RecursionError:
        return "other", "RecursionError", None
    except Exception as e:
        return "other", type(e).__name__, None


def seq(o, exc, th):
    return {"o": o, "exc": exc, "th": encS(th) if th is not None else NONE_S}


def run_conv(cv, t, with_idem):
    """pt / ev / chk / idem records for cv on t."""
    o, exc, pt = outcome(lambda: cv.get_proof_term(t))
    r = {"pt": seq(o, exc, pt.th if pt is not None else None)}
    if type(cv).eval is not C.Conv.eval:      # the conversion has its own fast evaluation
        eo, eexc, eth = outcome(lambda: cv.eval(t))
        r["ev"] = seq(eo, eexc, eth)
    else:                                     # Conv.eval IS get_proof_term(t).th
        r["ev"] = seq("none", "", None)
    if pt is not None:
        co, cexc, cth = outcome(lambda: theory.check_proof(pt.export()))
        r["chk"] = seq(co, cexc, cth)
    else:
        r["chk"] = seq("skipped", "", None)
    rhs = None
    if pt is not None and pt.th.prop.is_equals():
        rhs = pt.th.prop.rhs
    if with_idem:
        if rhs is not None:
            io, iexc, ipt = outcome(lambda: cv.get_proof_term(rhs))
            r["idem"] = seq(io, iexc, ipt.th if ipt is not None else None)
        else:
            r["idem"] = seq("skipped", "", None)
    return r, rhs


NORMS = {
    ("arith", "nat"): [("nat_norm_full", nat.norm_full), ("nat_conv", nat.nat_conv)],   # nat_conv: closed members only
    ("arith", "int"): [("int_norm", integer.int_norm_conv)],
    ("arith", "real"): [("real_norm", real.real_norm_conv), ("real_auto", auto.auto_conv)],
    ("conj", "bool"): [("prop_norm_full", proplogic.norm_full), ("sort_conj", proplogic.sort_conj), ("conj_norm", logic.conj_norm)],
    ("disj", "bool"): [("prop_norm_full", proplogic.norm_full), ("sort_disj", proplogic.sort_disj), ("disj_norm", logic.disj_norm)],
    ("nnf", "bool"): [("nnf", proplogic.nnf_conv), ("prop_norm_full", proplogic.norm_full)],
}
ORBIT_CHUNK = 150


def closed(a):
    """the vector has no variable and no opaque atom (domain of nat.nat_conv, which has its own fast evaluation)"""
    return a is not None and a[0] not in ("v", "o") and all(closed(b) for b in a[1:] if isinstance(b, list))


MEMBER_FILTER = {"nat_conv": closed}


def thy_facts():
    """What the CURRENT theory object contains of the theorems the modes of nat.norm_full are documented to depend on
    (asked from the theory itself, not from any remembered answer)."""
    th = theory.thy
    return {"add_assoc": th.has_theorem("add_assoc"), "mult_comm": th.has_theorem("mult_comm"), "binary": th.has_theorem("bit1_bit1_mult")}


def norm_orbit(mode, ty, okey, members, emit, only=None, tag=""):
    """members: list of (abstract vector or None, real term)."""
    facts = thy_facts()
    for name, mk in NORMS[(mode, ty)]:
        if only is not None and name not in only:
            continue
        cv = mk()
        ms = []
        for ax, t in members:
            if name in MEMBER_FILTER and not MEMBER_FILTER[name](ax):
                continue
            r, rhs = run_conv(cv, t, True)
            xj = enc(t)
            ev = {"kind": "norm", "cv": name, "ty": ty, "mode": mode, "x": xj, "ax": ax if ax is not None else ["none"], "conds": [],
                  "thy": facts, "key": "norm:%s:%s:%s%s" % (name, ty, digest(xj), tag)}
            ev.update(r)
            emit(ev)
            if rhs is not None and r["pt"]["o"] == "ok":
                ms.append({"x": xj, "rhs": enc(rhs)})
        # one orbit event per chunk; chunks share their first member so that classes are compared across chunks
        i = 0
        while len(ms) >= 2 and i < len(ms):
            part = ms[i:i + ORBIT_CHUNK] if i == 0 else [ms[0]] + ms[i:i + ORBIT_CHUNK - 1]
            step = ORBIT_CHUNK if i == 0 else ORBIT_CHUNK - 1
            if len(part) >= 2:
                emit({"kind": "orbit", "cv": name, "ty": ty, "mode": mode, "ms": part, "thy": facts,
                      "key": "orbit:%s:%s:%s%s:%d" % (name, ty, okey, tag, i)})
            i += step


def fork_jobs(njobs, items, work, out_path):
    """Run work(item, emit) over items in njobs forked children (the theories are loaded once, before the fork);
    the parent concatenates the parts and numbers the events."""
    njobs = max(1, min(njobs, len(items)))
    parts = [out_path + ".part%d" % i for i in range(njobs)]
    pids = []
    sys.stdout.flush()
    sys.stderr.flush()
    for i in range(njobs):
        pid = os.fork()
        if pid == 0:
            rc = 0
            try:
                with open(parts[i], "w") as f:
                    def emit(ev):
                        f.write(json.dumps(ev, separators=(",", ":")) + "\n")
                    for k, it in enumerate(items):
                        if k % njobs == i:
                            work(it, emit)
            except BaseException:
                import traceback
                traceback.print_exc()
                rc = 1
            finally:
                sys.stdout.flush()
                sys.stderr.flush()
                os._exit(rc)
        pids.append(pid)
    bad = 0
    for pid in pids:
        _, st = os.waitpid(pid, 0)
        if st != 0:
            bad += 1
    if bad:
        raise RuntimeError("%d driver children failed" % bad)
    tid = 0
    with open(out_path, "w") as out:
        for p in parts:
            with open(p) as f:
                for ln in f:
                    tid += 1
                    out.write('{"tid":%d,' % tid + ln[1:])
            os.unlink(p)
    return tid


def hmod(s, m):
    return int(hashlib.sha1(s.encode()).hexdigest()[:8], 16) % m


def has_op(a, ops):
    return a[0] in ops or any(has_op(b, ops) for b in a[1:] if isinstance(b, list))


def norm_items(states, arith_mod, int_mod, seed, cap):
    orbits = {}
    for s in states:
        orbits.setdefault((s["mode"], s["ty"], s["cls"]), []).append(s["e"])
    items = []
    for (mode, ty, cls), es in sorted(orbits.items(), key=lambda kv: (kv[0][0], kv[0][1], digest(kv[0][2]))):
        okey = digest([mode, ty, cls])
        es = sorted(es, key=lambda e: json.dumps(e))
        if mode != "arith":
            cap_ = min(60, max(12, cap * 3 // 5))      # 12 = all orders and bracketings of three members
        else:
            cap_ = cap
        if len(es) > cap_:
            # a huge class (e.g. everything equal to 0): the 5 smallest members and a seeded sample of the others
            es = sorted(es, key=lambda e: (len(json.dumps(e)), json.dumps(e)))
            rnd = random.Random("%s/%s" % (seed, okey))
            rare = [e for e in es[5:] if has_op(e, ("-", "neg", "^", "o", "S"))]      # members with the operators the trees do not have
            rest = [e for e in es[5:] if not has_op(e, ("-", "neg", "^", "o", "S"))]
            k = min(len(rare), max((cap_ - 5) // 2, cap_ - 5 - len(rest)))
            es = es[:5] + rnd.sample(rare, k) + rnd.sample(rest, min(len(rest), cap_ - 5 - k))
        if mode == "arith":
            # orbits with subtraction (ring or truncated) only come from the hand-picked seeds: always replayed
            must = any(has_op(e, ("-", "neg", "o")) for e in es)
            if not must and hmod(okey + str(seed), arith_mod) != 0:
                continue
            if ty == "nat":
                items.append((mode, "nat", okey, es))
            else:
                items.append((mode, "real", okey, es))
                if must or hmod(okey + "i" + str(seed), int_mod) == 0:
                    items.append((mode, "int", okey, es))
        else:
            items.append((mode, ty, okey, es))
    print("norm: %d states, %d orbits, %d replayed orbit instances" % (len(states), len(orbits), len(items)))
    return [("norm", "replay") + it for it in items]


def work_norm(it, emit):
    _, src, mode, ty, okey, es = it

    def emit2(ev):
        ev["src"] = src
        emit(ev)
    members = [(e, hol_arith(e, TYPES[ty]) if mode == "arith" else hol_prop(e)) for e in es]
    norm_orbit(mode, ty, okey, members, emit2)


# ------------------------------------------------------------------------------------------------ theory histories
def hist_items(states, seed, positions, per_orbit, nhist):
    """The nat orbits of the machine (per_orbit members each: the smallest and a seeded sample), split over nhist independent
    histories.  A history = ONE theory object: the imports of nat, then the items of nat.json added one by one with
    unchecked_extend (what app/ide.py does when it loads a file); the normaliser is invoked after every extension in `positions`."""
    orbits = {}
    for s in states:
        if s["mode"] == "arith" and s["ty"] == "nat":
            orbits.setdefault(s["cls"], []).append(s["e"])
    sel = []
    for cls, es in sorted(orbits.items(), key=lambda kv: digest(kv[0])):
        if len(es) < 2:
            continue
        es = sorted(es, key=lambda e: (len(json.dumps(e)), json.dumps(e)))
        rnd = random.Random("hist/%s/%s" % (seed, digest(cls)))
        sel.append((digest(cls), es[:1] + rnd.sample(es[1:], min(per_orbit - 1, len(es) - 1))))
    items = [("hist", sorted(positions), sel[k::nhist]) for k in range(nhist) if sel[k::nhist]]
    print("hist: %d nat orbits x %d theory states in %d histories" % (len(sel), len(positions), len(items)))
    return items


def work_hist(it, emit):
    _, positions, orbits = it
    saved = theory.thy
    try:
        cache = basic.load_theory_cache("nat")
        basic.load_theory("nat", limit="start")
        obj = theory.thy
        members = [(okey, [(e, hol_arith(e, NatType)) for e in es]) for okey, es in orbits]
        for i, item in enumerate(cache["content"]):
            if i > positions[-1]:
                break
            if item.error is None:
                theory.thy.unchecked_extend(item.get_extension())
            if theory.thy is not obj:
                raise RuntimeError("history: the theory object was replaced")
            if i in positions:
                def emit2(ev):
                    ev["src"], ev["pos"], ev["item"] = "hist", i, getattr(item, "name", "")
                    emit(ev)
                for okey, ms in members:
                    norm_orbit("arith", "nat", okey, ms, emit2, only=("nat_norm_full",), tag="@%d" % i)
    finally:
        theory.thy = saved


# ------------------------------------------------------------------------------------------------ combinators
def build(j, names, depth=0):
    k = j[0]
    if k == "comb":
        return Comb(build(j[1], names, depth), build(j[2], names, depth))
    if k == "abs":
        return Abs(names(depth), decT(j[1]), build(j[2], names, depth + 1))
    return dec(j)


# binder namings: every binder "x" (the name of a free variable AND of every enclosing binder), every binder "z" (the name of every
# enclosing binder, of no free variable), all different
ROUTES = {"x": lambda d: "x", "z": lambda d: "z", "u": lambda d: "uvwpq"[d % 5] + ("" if d < 5 else str(d))}
X, Y = Var("x", NatType), Var("y", NatType)
COND = ProofTerm.assume(term.less_eq(NatType)(Y, X))       # y <= x  |-  y <= x


def convs():
    R0 = lambda: C.rewr_conv("add_0_right")                # ?x + 0 = ?x
    R1 = lambda: C.rewr_conv("nat_plus_def_1")             # 0 + ?n = ?n
    RS = lambda: C.rewr_conv("add_0_right", sym=True)
    RC = lambda: C.rewr_conv("sub_add", conds=[COND])      # ?y <= ?x --> ?x - ?y + ?y = ?x
    BE, ET = C.beta_conv, C.eta_conv
    cs = [
        ("R0", R0(), []), ("R1", R1(), []), ("R0sym", RS(), []), ("RC", RC(), [COND]), ("beta", BE(), []), ("eta", ET(), []),
        ("beta_norm", C.beta_norm_conv(), []),
        ("top(R0)", C.top_conv(R0()), []), ("top(R0,R1)", C.top_conv(R0(), R1()), []), ("top('add_0_right')", C.top_conv("add_0_right"), []),
        ("top(beta)", C.top_conv(BE()), []), ("top(eta)", C.top_conv(ET()), []), ("top(eta,beta)", C.top_conv(ET(), BE()), []),
        ("top(beta,R0)", C.top_conv(BE(), R0()), []), ("top(RC)", C.top_conv(RC()), [COND]), ("top(RC,R0)", C.top_conv(RC(), R0()), [COND]),
        ("bottom(R0)", C.bottom_conv(R0()), []), ("bottom(else(R0,R1))", C.bottom_conv(C.else_conv(R0(), R1())), []),
        ("bottom(beta)", C.bottom_conv(BE()), []), ("bottom(eta)", C.bottom_conv(ET()), []), ("bottom(RC)", C.bottom_conv(RC()), [COND]),
        ("sweep(R0)", C.top_sweep_conv(R0()), []), ("sweep(beta)", C.top_sweep_conv(BE()), []), ("sweep(eta)", C.top_sweep_conv(ET()), []),
        ("sweep(RC)", C.top_sweep_conv(RC()), [COND]),
        ("abs(R0)", C.abs_conv(R0()), []), ("abs(try(R0))", C.abs_conv(C.try_conv(R0())), []), ("abs(top(R0))", C.abs_conv(C.top_conv(R0())), []),
        ("abs(RC)", C.abs_conv(RC()), [COND]), ("abs(top(RC))", C.abs_conv(C.top_conv(RC())), [COND]),
        ("arg(R0)", C.arg_conv(R0()), []), ("arg1(R0)", C.arg1_conv(R0()), []), ("fun(eta)", C.fun_conv(ET()), []),
        ("binop(R0)", C.binop_conv(R0()), []), ("binop(try(R0))", C.binop_conv(C.try_conv(R0())), []),
        ("comb(try(beta))", C.comb_conv(C.try_conv(BE())), []), ("sub(try(R0))", C.sub_conv(C.try_conv(R0())), []),
        ("then(R0,R1)", C.then_conv(R0(), R1()), []), ("then(R0,R0)", C.then_conv(R0(), R0()), []),
        ("then(try(R0),try(R1))", C.then_conv(C.try_conv(R0()), C.try_conv(R1())), []), ("then(beta,top(R0))", C.then_conv(BE(), C.top_conv(R0())), []),
        ("else(R0,R1)", C.else_conv(R0(), R1()), []), ("else(RC,R0)", C.else_conv(RC(), R0()), [COND]), ("else(beta,eta)", C.else_conv(BE(), ET()), []),
        ("try(R0)", C.try_conv(R0()), []), ("try(RC)", C.try_conv(RC()), [COND]), ("try(R0sym)", C.try_conv(RS()), []),
        ("repeat(try(R0))", C.repeat_conv(C.try_conv(R0())), []), ("repeat(try(beta))", C.repeat_conv(C.try_conv(BE())), []),
        ("repeat(else(R0,R1))", C.repeat_conv(C.else_conv(R0(), C.try_conv(R1()))), []),
        ("every(try(beta),try(eta),try(R0))", C.every_conv(C.try_conv(BE()), C.try_conv(ET()), C.try_conv(R0())), []),
        ("argn(0,try(R0))", C.argn_conv(0, C.try_conv(R0())), []),
        ("assums(try(R0))", C.assums_conv(C.try_conv(R0())), []),
    ]
    return cs


# the quick tier leaves out the combinator expressions that only repeat another one with a different rule
QUICK_SKIP = {"top('add_0_right')", "then(R0,R0)", "R1", "arg1(R0)", "argn(0,try(R0))", "assums(try(R0))", "fun(eta)", "comb(try(beta))",
              "repeat(else(R0,R1))", "binop(R0)", "else(RC,R0)", "try(R0sym)", "abs(R0)", "sweep(eta)", "bottom(else(R0,R1))",
              "then(try(R0),try(R1))", "top(R0,R1)", "then(R0,R1)"}
DEEP = [1]


def comb_events(tj, route, cs, emit, only=None):
    t = build(tj, ROUTES[route])
    for name, cv, conds in cs:
        if only is not None and name != only:
            continue
        r, _ = run_conv(cv, t, False)
        xj = enc(t)
        # a refusal by the conversion's own error carries no term (nothing is judged on it; the key identifies the input)
        ev = {"kind": "comb", "cv": name, "route": route, "ty": "bool", "mode": "comb", "x": xj if r["pt"]["o"] != "conv" else ["none"],
              "ax": ["none"], "conds": [enc(h) for c in conds for h in c.hyps] if r["pt"]["o"] != "conv" else [],
              "key": "comb:%s:%s:%s" % (name, route, digest(xj))}
        ev.update(r)
        emit(ev)


def has_abs(j):
    return j[0] == "abs" or (j[0] == "comb" and (has_abs(j[1]) or has_abs(j[2])))


def count_abs(j):
    return (1 + count_abs(j[2])) if j[0] == "abs" else (count_abs(j[1]) + count_abs(j[2])) if j[0] == "comb" else 0


def comb_items(vec_path, comb_mod, seed):
    vecs = [json.loads(ln) for ln in open(vec_path) if ln.strip()]
    vecs = [v for v in vecs if v.get("must") or hmod(digest(v["t"]) + str(seed), comb_mod) == 0]
    # binders named "x" (clashing with the free variable x) and, when there is a binder, fresh names
    items = [("comb", "comb", v["t"], route) for v in vecs
             for route in (("x",), ("x", "u"), ("x", "u", "z"))[min(count_abs(v["t"]), 2)]]
    print("comb: %d terms, %d (term, binder naming) inputs" % (len(vecs), len(items)))
    return items


CS = []


def work_comb(it, emit):
    if not CS:
        CS.extend(c for c in convs() if DEEP[0] or c[0] not in QUICK_SKIP)

    def emit2(ev):
        ev["src"] = "comb"
        emit(ev)
    comb_events(it[2], it[3], CS, emit2)


# ------------------------------------------------------------------------------------------------ seeded random larger inputs
def rnd_arith(rnd, leaves, ring):
    if leaves == 1:
        r = rnd.random()
        if r < 0.6:
            return ["v", rnd.choice("xyzw")]
        return ["n", rnd.choice([0, 1, 2, 3, 5])]
    k = rnd.randint(1, leaves - 1)
    a, b = rnd_arith(rnd, k, ring), rnd_arith(rnd, leaves - k, ring)
    r = rnd.random()
    if ring and r < 0.15:
        return ["-", a, b]
    if ring and r < 0.2:
        return ["neg", ["+", a, b]]
    if ring and r < 0.27 and leaves <= 3:
        return ["^", ["+", a, b], 2]
    return [("+" if r < 0.62 else "*"), a, b]


def shuffle_arith(rnd, e):
    """A random class-preserving rearrangement (Comm / Assoc / Distrib / AddZero / MulOne at random positions)."""
    k = e[0]
    if k in ("v", "n", "o"):
        r = rnd.random()
        return ["+", e, ["n", 0]] if r < 0.05 else (["*", ["n", 1], e] if r < 0.1 else e)
    if k in ("neg", "^", "S"):
        return [k, shuffle_arith(rnd, e[1])] + e[2:]
    a, b = shuffle_arith(rnd, e[1]), shuffle_arith(rnd, e[2])
    r = rnd.random()
    if k in ("+", "*"):
        if r < 0.4:
            a, b = b, a
        if r > 0.7 and b[0] == k:
            return [k, [k, a, b[1]], b[2]]
        if r > 0.85 and a[0] == k:
            return [k, a[1], [k, a[2], b]]
        if k == "*" and 0.5 < r < 0.7 and b[0] == "+":
            return ["+", ["*", a, b[1]], ["*", a, b[2]]]
        if k == "*" and 0.5 < r < 0.7 and a[0] == "+":
            return ["+", ["*", a[1], b], ["*", a[2], b]]
    return [k, a, b]


def rnd_prop_members(rnd, n):
    atoms = [["v", c] for c in "ABCD"]
    x, y, f = Var("x", NatType), Var("y", NatType), Var("f", TFun(NatType, NatType))
    P = Var("P", TFun(NatType, BoolType))
    apps = [["o", ["hol", enc(t)]] for t in (term.less(NatType)(x, y), Eq(f(x), y), P(f(y)), term.less_eq(NatType)(f(x), x))]
    pool = atoms + [["not", a] for a in atoms] + [["T"], ["F"], ["imp", ["v", "A"], ["v", "B"]], ["iff", ["v", "C"], ["v", "A"]]] \
        + apps + [["not", a] for a in apps[:2]] + [["T"], ["F"]]
    return [rnd.choice(pool) for _ in range(n)]


def rnd_tree(rnd, c, ms):
    if len(ms) == 1:
        return ms[0]
    k = rnd.randint(1, len(ms) - 1)
    return [c, rnd_tree(rnd, c, ms[:k]), rnd_tree(rnd, c, ms[k:])]


def rand_items(n, seed):
    rnd = random.Random(seed)
    items = []
    for i in range(n):
        kind = i % 5
        if kind < 3:
            ty = ("nat", "real", "int")[kind] if i % 15 != 14 else "real"
            if kind == 2 and i % 2:
                ty = "real"
            base = rnd_arith(rnd, rnd.randint(4, 7), ty != "nat")
            es = [base] + [shuffle_arith(rnd, base) for _ in range(3)]
            items.append(("norm", "rand", "arith", ty, "rand%d" % i, es))
        else:
            c = "and" if kind == 3 else "or"
            ms = rnd_prop_members(rnd, rnd.randint(3, 6))
            es = []
            for _ in range(4):
                m2 = list(ms) + [rnd.choice(ms) for _ in range(rnd.randint(0, 2))]
                rnd.shuffle(m2)
                es.append(rnd_tree(rnd, c, m2))
            items.append(("norm", "rand", "conj" if c == "and" else "disj", "bool", "rand%d" % i, es))
    print("rand: %d orbits" % len(items))
    return items


def cost(it):
    if it[0] == "comb":
        return 60
    if it[0] == "hist":
        return 10 ** 6
    return len(it[5]) * {"int": 8, "nat": 3, "real": 3}.get(it[3], 3)


def run_all(dump_path, vec_path, out_path, jobs, arith_mod, int_mod, comb_mod, nrand, seed, cap, deep):
    DEEP[0] = deep
    states = parse_dump(dump_path)
    # theory states of the histories: after the items of nat.json with these indices (mult_comm is item 28, the binary-arithmetic
    # theorems are items 45..54, bit1_bit1_mult the last of them)
    positions = (set(range(18, 90)) | set(range(90, 260, 12)) | {259}) if deep else ({40} | set(range(49, 58)))
    items = norm_items(states, arith_mod, int_mod, seed, cap) + comb_items(vec_path, comb_mod, seed) + rand_items(nrand, seed) \
        + hist_items(states, seed, positions, 3 if deep else 2, 4 if deep else 2)
    # most expensive first, so that the round-robin split over the children is balanced
    items.sort(key=lambda it: -cost(it))

    def work(it, emit):
        {"comb": work_comb, "norm": work_norm, "hist": work_hist}[it[0]](it, emit)
    n = fork_jobs(jobs, items, work, out_path)
    print("all: %d work items, %d events" % (len(items), n))


# ------------------------------------------------------------------------------------------------ replay of recorded events
def event(in_path, out_path):
    evs = [json.loads(ln) for ln in open(in_path) if ln.strip()]
    cs = None
    out = []

    def emit(ev):
        ev["tid"] = len(out) + 1
        out.append(ev)
    for e in evs:
        if e["kind"] == "comb":
            cs = cs or convs()
            t = build(e["x"], ROUTES[e.get("route", "x")])
            for name, cv, conds in cs:
                if name == e["cv"]:
                    r, _ = run_conv(cv, t, False)
                    ev = {k: e[k] for k in ("kind", "cv", "route", "ty", "mode", "x", "ax", "conds", "key")}
                    ev.update(r)
                    emit(ev)
        elif e.get("src") == "hist":
            # the history up to the recorded theory state, the normaliser invoked on the recorded terms after every earlier
            # extension of the quick window as well; only the events of the recorded state are emitted
            terms = [dec_keep(e["x"])] if e["kind"] == "norm" else [dec_keep(m["x"]) for m in e["ms"]]
            saved = theory.thy
            try:
                cache = basic.load_theory_cache("nat")
                basic.load_theory("nat", limit="start")
                for i, item in enumerate(cache["content"]):
                    if i > e["pos"]:
                        break
                    if item.error is None:
                        theory.thy.unchecked_extend(item.get_extension())
                    if i == e["pos"]:
                        def emit2(ev):
                            ev["src"], ev["pos"] = "hist", i
                            if ev["kind"] == e["kind"]:
                                emit(ev)
                        norm_orbit("arith", "nat", "replayed", [(None, t) for t in terms], emit2, only=("nat_norm_full",), tag="@%d" % i)
                    elif i in ({30, 40, 45} | set(range(49, 58))) or i % 12 == 6:
                        norm_orbit("arith", "nat", "replayed", [(None, t) for t in terms], lambda ev: None, only=("nat_norm_full",))
            finally:
                theory.thy = saved
        elif e["kind"] == "norm":
            t = dec_keep(e["x"])
            for name, mk in NORMS[(e["mode"], e["ty"])]:
                if name == e["cv"]:
                    r, _ = run_conv(mk(), t, True)
                    ev = {k: e[k] for k in ("kind", "cv", "ty", "mode", "x", "ax", "conds", "key")}
                    ev["thy"] = thy_facts()
                    ev.update(r)
                    emit(ev)
        else:
            for name, mk in NORMS[(e["mode"], e["ty"])]:
                if name == e["cv"]:
                    cv = mk()
                    ms = []
                    for m in e["ms"]:
                        t = dec_keep(m["x"])
                        o, exc, pt = outcome(lambda: cv.get_proof_term(t))
                        if pt is not None and pt.th.prop.is_equals():
                            ms.append({"x": m["x"], "rhs": enc(pt.th.prop.rhs)})
                    emit({"kind": "orbit", "cv": e["cv"], "ty": e["ty"], "mode": e["mode"], "ms": ms, "key": e["key"], "thy": thy_facts()})
    with open(out_path, "w") as f:
        for ev in out:
            f.write(json.dumps(ev, separators=(",", ":")) + "\n")
    print("event: %d in, %d out" % (len(evs), len(out)))


def dec_keep(j):
    """codec JSON -> term; binders of recorded events were named by route, the name does not matter for equality."""
    return build(j, ROUTES["x"])


if __name__ == "__main__":
    mode = sys.argv[1]
    if mode == "all":
        run_all(sys.argv[2], sys.argv[3], sys.argv[4], *[int(a) for a in sys.argv[5:13]])
    elif mode == "event":
        event(sys.argv[2], sys.argv[3])
    else:
        raise SystemExit("unknown mode " + mode)
