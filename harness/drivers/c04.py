"""C04 driver: every macro invocation is evaluated AND expanded, and the expansion is checked at the default trust level.

usage: python -m harness.drivers.c04 harvest <out.ndjson> <seed> <n_per_theory> th1,th2,...
   Invocations are harvested from the final proofs of replayed library theorems (every macro step, and recursively the macro
   steps inside expansions), plus mutations of them (premise dropped / duplicated / permuted, goal argument weakened or
   strengthened), plus seeded fresh instances for the propositional and arithmetic macros.
For each invocation (macro, args, premises):
   eval    : macro.eval(args, premises)                       -> sequent or exception
   expand  : macro.expand(id, args, premises)                 -> produced or exception
   check   : theory.check_proof at the default trust level of  [premises as stated gaps; the macro step]  -> sequent or exception
No verdict is computed here.
"""
import copy
import json
import random
import sys
import traceback

import flask.json
flask.json.JSONEncoder = json.JSONEncoder

from kernel import theory
from kernel.proof import Proof, ProofItem, ItemID
from kernel.term import Term, Inst, Var, Not, And, Or, Implies, Eq
from kernel.thm import Thm
from kernel.type import BoolType
from kernel.report import ProofReport
from logic import basic, context
from server import server, items, method
from prover import z3wrapper
from syntax.settings import global_setting

from harness.codec import enc, encS
from harness.core import digest

z3wrapper.check_z3 = False
TRM = {}
SEEN_MACRO = {}


def tid_of(t):
    return TRM.setdefault(json.dumps(enc(t)), len(TRM))


def seq_of(th):
    return [sorted(tid_of(h) for h in th.hyps), tid_of(th.prop)]


class Out:
    def __init__(self, path):
        self.f = open(path, "w")
        self.tid = 0
        self.seen = set()

    def emit(self, ev):
        self.tid += 1
        ev["tid"] = self.tid
        self.f.write(json.dumps(ev, separators=(",", ":")) + "\n")


def args_key(a):
    if isinstance(a, Term):
        return json.dumps(enc(a))
    if isinstance(a, Inst):
        return json.dumps([[k, json.dumps(enc(v))] for k, v in sorted(a.items())]) + str(a.tyinst)
    if isinstance(a, (tuple, list)):
        return "(" + ",".join(args_key(x) for x in a) + ")"
    if isinstance(a, dict):
        return "{" + ",".join("%s:%s" % (k, args_key(x)) for k, x in sorted(a.items())) + "}"
    return str(a)


def run_invocation(out, name, args, prev_ths, origin, again=""):
    """`again` non-empty: a deliberate repetition of an invocation at a later point of the process history"""
    if not theory.has_macro(name):
        return
    macro = theory.get_macro(name)
    key = "%s:%s" % (name, digest([args_key(args), [json.dumps(encS(p)) for p in prev_ths]])) + again
    if key in out.seen:
        return
    out.seen.add(key)
    ev = {"kind": "macro", "macro": name, "level": macro.level if macro.level is not None else -1, "origin": origin, "key": key,
          "nprems": len(prev_ths)}
    # eval
    try:
        e = macro.eval(args, list(prev_ths))
        ev["eval"] = [True] + seq_of(e)
        ev["eval_exc"] = ""
    except Exception as ex:
        ev["eval"] = [False, [], -1]
        ev["eval_exc"] = type(ex).__name__
    # expansion produced?
    k = len(prev_ths)
    ev["exp_lines"], ev["exp_last"] = [], [[], -1]
    try:
        sub = macro.expand(ItemID(k), args, [(ItemID(i), p) for i, p in enumerate(prev_ths)])
        ev["expand"] = [True, len(sub.items)]
        ev["expand_exc"] = ""
        # ProofTerm.export: the expansion as numbered lines (ids are relative to the macro step's own id <<k>>)
        ev["exp_lines"] = [[list(it.id.id), [list(ItemID(p).id) for p in it.prevs], it.rule] for it in flat(sub)][:400]
        ev["exp_last"] = seq_of(sub.items[-1].th) if sub.items and sub.items[-1].th is not None else [[], -1]
    except NotImplementedError:
        return                      # no detailed expansion: outside the property

    except Exception as ex:
        ev["expand"] = [False, 0]
        ev["expand_exc"] = type(ex).__name__ + ": " + str(ex)[:80]
    # the checker at the default trust level on [premises as gaps; macro step]
    prf = Proof()
    for i, p in enumerate(prev_ths):
        prf.add_item(i, "sorry", th=p)
    prf.add_item(k, name, args=args, prevs=list(range(k)))
    rpt = ProofReport()
    try:
        x = theory.check_proof(prf, rpt)
        ev["check"] = [True] + seq_of(x)
        ev["check_exc"] = ""
        ev["evaluated_macros"] = sorted(getattr(rpt, "macros_eval", {}) or [])
        ev["gaps"] = len(rpt.gaps)           # the stated premises are gaps; anything beyond them is an unproved step of the expansion
    except Exception as ex:
        ev["gaps"] = -1
        ev["check"] = [False, [], -1]
        ev["check_exc"] = type(ex).__name__ + ": " + str(ex)[:100].replace("\n", " ")
        ev["evaluated_macros"] = []
    # every premise statement, for the hypothesis clause
    ev["prem_hyps"] = sorted({tid_of(h) for p in prev_ths for h in p.hyps})
    out.emit(ev)


def flat(prf, out=None):
    out = [] if out is None else out
    for it in prf.items:
        out.append(it)
        if it.subproof:
            flat(it.subproof, out)
    return out


def harvest_proof(out, prf, origin, rnd, depth=0):
    """all macro steps of a (checked) proof object, and recursively of their expansions"""
    for it in flat(prf):
        if it.rule in ("sorry", "subproof", "theorem", "variable", "") or not theory.has_macro(it.rule):
            continue
        try:
            prev_ths = [prf.find_item(p).th for p in it.prevs]
        except Exception:
            continue
        if any(p is None for p in prev_ths):
            continue
        run_invocation(out, it.rule, it.args, prev_ths, origin)
        SEEN_MACRO[it.rule] = SEEN_MACRO.get(it.rule, 0) + 1
        # the first invocations of every macro are always mutated (rarely used macros would otherwise never be)
        if SEEN_MACRO[it.rule] <= 8 or rnd.random() < 0.3:
            mutate(out, it.rule, it.args, prev_ths, origin, rnd)
        if depth < 2:
            macro = theory.get_macro(it.rule)
            try:
                sub = macro.expand(ItemID(len(prev_ths)), it.args, [(ItemID(i), p) for i, p in enumerate(prev_ths)])
            except Exception:
                continue
            # premises of the expansion's steps are looked up in a proof that starts with the premises
            whole = Proof()
            for i, p in enumerate(prev_ths):
                whole.add_item(i, "sorry", th=p)
            whole.items.append(ProofItem(len(prev_ths), "subproof", th=sub.items[-1].th if sub.items else None))
            whole.items[-1].subproof = sub
            try:
                theory.check_proof(whole, compute_only=True, check_level=100)
            except Exception:
                continue
            harvest_proof_items(out, whole, sub, origin + ">" + it.rule, rnd, depth + 1)


def harvest_proof_items(out, whole, sub, origin, rnd, depth):
    for it in flat(sub):
        if it.rule in ("sorry", "subproof", "theorem", "variable", "") or not theory.has_macro(it.rule):
            continue
        try:
            prev_ths = [whole.find_item(p).th for p in it.prevs]
        except Exception:
            continue
        if any(p is None for p in prev_ths):
            continue
        run_invocation(out, it.rule, it.args, prev_ths, origin)


def mutate(out, name, args, prev_ths, origin, rnd):
    muts = []
    if prev_ths:
        i = rnd.randrange(len(prev_ths))
        muts.append((args, prev_ths[:i] + prev_ths[i + 1:], "drop-premise"))
        muts.append((args, prev_ths + [prev_ths[i]], "dup-premise"))
        if len(prev_ths) > 1:
            p2 = list(prev_ths)
            rnd.shuffle(p2)
            muts.append((args, p2, "permute-premises"))
        p = prev_ths[i]
        if p.prop.is_conj():
            muts.append((args, prev_ths[:i] + [Thm(p.prop.arg1, *p.hyps)] + prev_ths[i + 1:], "shorten-premise"))
        if p.prop.is_disj():
            muts.append((args, prev_ths[:i] + [Thm(p.prop.arg1, *p.hyps)] + prev_ths[i + 1:], "shorten-premise"))
        # one premise at a time depends on a hypothesis of its own that no other premise carries
        idx = list(range(len(prev_ths))) if SEEN_MACRO.get(name, 0) <= 8 else [i]
        for j in idx[:6]:
            pj = prev_ths[j]
            muts.append((args, prev_ths[:j] + [Thm(pj.prop, *pj.hyps, Var("verif_hyp_%d" % j, BoolType))] + prev_ths[j + 1:], "own-hypothesis-%d" % j))
    if isinstance(args, Term) and args.get_type() == BoolType:
        if args.is_conj():
            muts.append((args.arg1, prev_ths, "goal-conjunct"))
        if args.is_disj():
            muts.append((args.arg1, prev_ths, "goal-disjunct"))
        if args.is_implies():
            muts.append((args.arg, prev_ths, "goal-strengthened"))
        if args.is_equals():
            muts.append((Eq(args.rhs, args.lhs), prev_ths, "goal-swapped"))
        muts.append((Not(args), prev_ths, "goal-negated"))
    for a, ps, how in muts:
        try:
            run_invocation(out, name, a, ps, origin + "/" + how)
        except Exception:
            pass


def fresh_instances(out, rnd, n):
    """seeded fresh instances for propositional macros"""
    A, B, C, D = [Var(x, BoolType) for x in "ABCD"]
    atoms = [A, B, C, D, Not(A), Not(B)]

    def conj(k):
        ts = [rnd.choice(atoms) for _ in range(k)]
        return And(*ts) if k > 1 else ts[0]

    def disj(k):
        ts = [rnd.choice(atoms) for _ in range(k)]
        return Or(*ts) if k > 1 else ts[0]
    for _ in range(n):
        a, b = conj(rnd.randint(1, 4)), conj(rnd.randint(1, 3))
        run_invocation(out, "imp_conj", Implies(a, b), [], "fresh")
        a, b = disj(rnd.randint(1, 3)), disj(rnd.randint(1, 4))
        run_invocation(out, "imp_disj", Implies(a, b), [], "fresh")
        t = rnd.choice([Implies(A, A), Eq(A, A), Implies(A, Implies(B, A)), Implies(conj(2), conj(2)), Eq(conj(2), conj(2))])
        run_invocation(out, "trivial", t, [], "fresh")
    # quantified instances of `trivial` and higher-order instantiations of apply_theorem_for
    from kernel.term import Forall, Lambda, Exists
    from kernel.type import TVar, TFun
    a_ = TVar("a")
    x, y, z = Var("x", a_), Var("y", a_), Var("z", a_)
    Pv, Qv = Var("P", TFun(a_, BoolType)), Var("Q", TFun(a_, a_, BoolType))
    for t in [Forall(x, Implies(Pv(x), Pv(x))), Forall(x, Forall(y, Implies(Qv(x, y), Qv(x, y)))),
              Forall(x, Forall(y, Forall(z, Implies(Qv(x, y), Implies(Pv(z), Qv(x, y)))))), Forall(x, Forall(y, Eq(Qv(x, y), Qv(x, y)))),
              Forall(y, Forall(x, Implies(Qv(x, y), Qv(x, y))))]:
        run_invocation(out, "trivial", t, [], "fresh-quantified")
    c = Var("c", a_)
    ident = Lambda(Var("u", a_), Var("u", a_))
    for name in ("exI", "allE", "allI", "exE"):
        try:
            th = theory.get_theorem(name)
        except Exception:
            continue
        for variant in range(3):
            try:
                inst = Inst()
                for sv in th.prop.get_svars():
                    T = sv.T
                    if T.is_fun():
                        argTs, _ = T.strip_type()
                        inst[sv.name] = Var("H_" + sv.name, T) if variant != 2 else Lambda(Var("w", argTs[0]), Var("H_" + sv.name, T)(Var("w", argTs[0])))
                    else:
                        v = Var("c_" + sv.name, T)
                        # a beta-redex as instance (variant 0), a plain variable (1), a redex inside an application (2)
                        inst[sv.name] = Lambda(Var("u", T), Var("u", T))(v) if variant != 1 else v
                As, C = th.prop.subst_norm(inst).strip_implies()
                pts = [Thm(A) for A in As]
                run_invocation(out, "apply_theorem_for", (name, inst), pts, "fresh-higher-order")
                # ... with no premise at all (the instance itself, as an implication), with a proper prefix of the premises, and with
                # the premises as they stand BEFORE normalisation
                run_invocation(out, "apply_theorem_for", (name, inst), [], "fresh-higher-order/no-premises")
                if len(pts) > 1:
                    run_invocation(out, "apply_theorem_for", (name, inst), pts[:1], "fresh-higher-order/first-premise")
                As2, _ = th.prop.subst(inst).strip_implies()
                run_invocation(out, "apply_theorem_for", (name, inst), [Thm(A) for A in As2], "fresh-higher-order/raw-premises")
            except Exception as e:
                sys.stderr.write("fresh-higher-order skipped %s: %r\n" % (name, e))


def theorem_histories(out):
    """one theorem NAME whose statement changes during the process (a lemma edited and re-added, as the editor does): after each
    installation the macros that look theorems up by name are invoked on instances of the CURRENT statement"""
    import copy as _copy
    from kernel.term import SVar, Forall, Exists, Lambda
    from kernel.type import TVar, TFun
    a_ = TVar("a")
    # theorems are stored with ordinary variables; get_theorem hands out the schematic form
    sA, sB = Var("A", BoolType), Var("B", BoolType)
    sP, sa = Var("P", TFun(a_, BoolType)), Var("a", a_)
    xv = Var("x", a_)
    p, q, c = Var("p", BoolType), Var("q", BoolType), Var("c", a_)
    Rv = Var("R", TFun(a_, a_, BoolType))
    lamR = Lambda(xv, Rv(xv, c))
    stmts = [
        ("fo", Implies(And(sA, sB), sA), {"A": p, "B": q}),
        ("ho-exists", Implies(sP(sa), Exists(xv, sP(xv))), {"P": lamR, "a": c}),
        ("ho-forall", Implies(Forall(xv, sP(xv)), sP(sa)), {"P": lamR, "a": c}),
        ("fo", Implies(And(sA, sB), sA), {"A": q, "B": p}),
        ("fo-eq", Eq(And(sA, sB), And(sB, sA)), {"A": p, "B": q}),
        ("ho-exists", Implies(sP(sa), Exists(xv, sP(xv))), {"P": Lambda(xv, Eq(xv, c)), "a": c}),
    ]
    saved = theory.thy
    theory.thy = _copy.copy(saved)
    try:
        for step, (kind, prop, iv) in enumerate(stmts):
            theory.thy.add_theorem("verif_lemma", Thm(prop))
            inst = Inst()
            for k, v in iv.items():
                inst[k] = v
            try:
                As, C = theory.get_theorem("verif_lemma").prop.subst_norm(inst).strip_implies()
            except Exception as e:
                sys.stderr.write("thm-history: no instance %r\n" % (e,))
                continue
            tag = "thm-history/%d-%s" % (step, kind)
            for prems, how in (([], "no-premises"), ([Thm(A) for A in As], "premises")):
                for args, mname in (((("verif_lemma", inst)), "apply_theorem_for"), ("verif_lemma", "apply_theorem")):
                    try:
                        run_invocation(out, mname, args, prems, "%s/%s" % (tag, how), again="#h%d" % step)
                    except Exception as e:
                        sys.stderr.write("thm-history skipped %s: %r\n" % (mname, e))
            if prop.is_equals() or (not As and C.is_equals()):
                goal = And(q, p) if kind == "fo-eq" else None
                if goal is not None:
                    for mname in ("rewrite_goal", "rewrite_goal_sym"):
                        try:
                            run_invocation(out, mname, ("verif_lemma", goal), [Thm(And(p, q))], tag + "/rewrite", again="#h%d" % step)
                        except Exception as e:
                            sys.stderr.write("thm-history skipped %s: %r\n" % (mname, e))
    finally:
        theory.thy = saved


def harvest(out_path, seed, n_per, theories):
    rnd = random.Random(seed)
    out = Out(out_path)
    for th in theories:
        data = basic.load_json_data(th)
        basic.load_theory(th, limit="start")
        cands = [i for i, raw in enumerate(data["content"]) if raw.get("ty") == "thm" and (raw.get("steps") or raw.get("proof"))]
        chosen = set(rnd.sample(cands, min(n_per, len(cands))))
        for i, raw in enumerate(data["content"]):
            item = items.parse_item(raw)
            if item.error:
                continue
            if i in chosen:
                try:
                    context.set_context(None, vars=item.vars)
                    if item.steps:
                        state = server.parse_init_state(item.prop)
                        state.parse_steps(item.steps)
                        state.check_proof(compute_only=True)
                    else:
                        state = server.parse_proof(item.proof)
                    harvest_proof(out, state.prf, "%s.%s" % (th, item.name), rnd)
                except Exception:
                    pass
            theory.thy.unchecked_extend(item.get_extension())
        if th == theories[0]:
            pass
    basic.load_theory("logic")
    fresh_instances(out, rnd, 40)
    theorem_histories(out)
    out.f.close()
    print("macro events", out.tid)


def verit(vec_path, out_path, limit):
    """the veriT rule macros: every candidate step generated by spec/C18_Alethe.tla (intended instances and near misses) is
    evaluated, expanded (get_proof_term) and the expansion checked at the default trust level"""
    from harness.drivers import c18          # registers the repository's smt package and loads theory verit
    out = Out(out_path)
    n = 0
    lines = [l for l in open(vec_path) if l.strip()]
    if limit and len(lines) > limit:
        # the vector file is grouped by rule: a prefix would cover only the first rules.  Every intended instance is kept and the
        # near misses are sampled with a stride, so that every rule is replayed in the quick tier as well
        vs = [json.loads(l) for l in lines]
        keep = [i for i, v in enumerate(vs) if v.get("mut") == "correct"]
        rest = [i for i, v in enumerate(vs) if v.get("mut") != "correct"]
        room = max(limit - len(keep), 0)
        step = max(1, -(-len(rest) // room)) if room else 0
        lines = [lines[i] for i in sorted(keep + (rest[::step] if step else []))]
        limit = 0
    for ln in lines:
        ln = ln.strip()
        v = json.loads(ln)
        if v["rule"] in c18.CTX_RULES:
            continue
        try:
            prevs = [c18.mk_thm(p) for p in v["prems"]]
            args = c18.mk_args(v)
        except Exception:
            continue
        try:
            import contextlib, io
            with contextlib.redirect_stdout(io.StringIO()):
                run_invocation(out, v["rule"], args, prevs, "verit/" + v.get("mut", ""))
        except Exception as e:
            sys.stderr.write("verit invocation skipped: %s %r\n" % (v["rule"], e))
        n += 1
        if limit and n >= limit:
            break
    out.f.close()
    print("verit macro events", out.tid)


def arith(vec_path, out_path, limit):
    """arithmetic macros that HAVE an expansion (level > 0): every goal of the C05 universe (l REL r at nat / int / real, also at
    types the macro is not meant for) is evaluated and expanded"""
    basic.load_theory("real")
    from harness.drivers import c05
    names = []
    for name, m in sorted(theory.global_macros.items()):
        mod = type(m).__module__
        if mod in ("data.nat", "data.integer", "data.real") and m.level is not None and m.level > 0 and m.sig is Term and theory.has_macro(name):
            names.append(name)
    out = Out(out_path)
    n = 0
    for ln in open(vec_path):
        ln = ln.strip()
        if not ln:
            continue
        try:
            g = c05.build(json.loads(ln)["g"])
        except Exception:
            continue
        for name in names:
            try:
                run_invocation(out, name, g, [], "arith")
            except Exception as e:
                sys.stderr.write("arith invocation skipped: %s %r\n" % (name, e))
        n += 1
        if limit and n >= limit:
            break
    out.f.close()
    print("arith macro events", out.tid, "macros", names)


def autohist(out_path, seed, limit=0):
    """histories of `auto` invocations in ONE process: for every rewrite rule in the normalisation tables of logic/auto.py (read from
    the registered rule closures), the rule's own instance is asked WITH its side conditions as premises, then WITHOUT them, then
    with them again; and in the opposite order for a second instance.  Unconditional rules are asked once."""
    import contextlib
    import io
    from logic import auto
    basic.load_theory("realintegral")
    from data import real  # noqa  registers the rule tables
    try:
        from integral import proof as _iproof  # noqa  more tables
    except Exception as e:
        sys.stderr.write("autohist: integral.proof not importable: %r\n" % (e,))
    rnd = random.Random(seed)
    names = set()
    for head, fs in auto.global_autos_norm.items():
        for f in fs:
            clo = getattr(f, "__closure__", None)
            if clo:
                for nm, cell in zip(f.__code__.co_freevars, clo):
                    if nm == "th_names":
                        names |= set(cell.cell_contents)
    out = Out(out_path)
    pools = (["x", "y", "z", "w"], ["u", "v", "s", "t"])

    def instance(th, pool):
        inst = Inst()
        for i, sv in enumerate(sorted(th.prop.get_svars(), key=lambda v: v.name)):
            inst[sv.name] = Var(pool[i % len(pool)] + ("" if i < len(pool) else str(i)), sv.T)
        tyinst = {}
        As, C = th.prop.subst(inst).strip_implies()
        return As, C

    import signal

    class Slow(BaseException):
        pass

    def on_alarm(sig, frm):
        raise Slow()
    signal.signal(signal.SIGALRM, on_alarm)
    slow = set()

    def ask(goal, prems, origin, again=""):
        # the normaliser does not terminate on every instance (rules that rewrite back and forth): an invocation that is not
        # answered within the allowance is abandoned and no event is written for it (nor for later steps on the same rule)
        rule = origin.split("/")[1]
        if rule in slow:
            return
        with contextlib.redirect_stdout(io.StringIO()):
            signal.alarm(20)
            try:
                run_invocation(out, "auto", goal, prems, origin, again=again)
            except Slow:
                slow.add(rule)
                sys.stderr.write("autohist: abandoned (slow) %s\n" % origin)
            except Exception as e:
                sys.stderr.write("autohist invocation skipped: %r\n" % (e,))
            finally:
                signal.alarm(0)
    names = sorted(n for n in names if theory.thy.has_theorem(n) and not theory.get_theorem(n).prop.get_stvars())
    cond = [n for n in names if theory.get_theorem(n).prop.is_implies()]
    if limit and len(cond) > limit:
        keep = set(rnd.sample(cond, limit))
        names = [n for n in names if n in keep or n not in cond]
    for name in names:
        th = theory.get_theorem(name)
        for k, pool in enumerate(pools):
            try:
                As, C = instance(th, pool)
            except Exception:
                continue
            if not C.is_equals():
                continue
            prems = [Thm(A) for A in As]
            if not prems:
                if k == 0:
                    ask(C, [], "autohist/%s/unconditional" % name)
                continue
            order = ["with", "without", "with", "part"] if k == 0 else ["without", "with", "without", "part"]
            for step, how in enumerate(order):
                ps = prems if how == "with" else ([] if how == "without" else prems[:-1])
                ask(C, ps, "autohist/%s/%d-%s" % (name, step, how), again="#%d" % step)
                # the two sides separately against themselves: only the normaliser's memo is exercised
            ask(Eq(C.lhs, C.lhs), [], "autohist/%s/lhs-refl" % name, again="#r%d" % k)
    out.f.close()
    print("auto history events", out.tid, "rules", len(names), "abandoned", sorted(slow))


if __name__ == "__main__":
    if sys.argv[1] == "autohist":
        autohist(sys.argv[2], int(sys.argv[3]) if len(sys.argv) > 3 else 0, int(sys.argv[4]) if len(sys.argv) > 4 else 0)
    elif sys.argv[1] == "arith":
        arith(sys.argv[2], sys.argv[3], int(sys.argv[4]) if len(sys.argv) > 4 else 0)
    elif sys.argv[1] == "verit":
        verit(sys.argv[2], sys.argv[3], int(sys.argv[4]) if len(sys.argv) > 4 else 0)
    else:
        harvest(sys.argv[2], int(sys.argv[3]), int(sys.argv[4]), sys.argv[5].split(","))
