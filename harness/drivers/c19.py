"""C19 driver: the integration calculator (integral/rules.py, poly.normalize, rules.deriv, parser / printer) on real Expr objects.

modes
  replay   <vectors.ndjson> <out.ndjson>    every TLC-generated vector {e, rule, ps, pe, conds} : the Expr is built with the real
                                            constructors, the real rule is applied in a Context that has the book `base` loaded
                                            and the vector's conditions, exactly as compstate.Calculation.perform_rule does
  rand     <out.ndjson> <n> <seed>          seeded random larger inputs of the exactly evaluable fragment (several parameters,
                                            rational coefficients, rational functions, nested integrals / EvalAt / Deriv / sums)
                                            with random rules and rule parameters; random expressions of ALL forms (trig, exp,
                                            log, limits, infinities, Skolem terms ...) for the structural clauses
  examples <out.ndjson>                     every recorded calculation step of integral/examples/*.json is re-executed from the
                                            recorded predecessor in the context compstate builds for it
  event    <in.ndjson> <out.ndjson>         recorded events (replay files) are re-executed from their recorded inputs
Events (no verdict is computed here, projection only):
  kind "rule": {rule, base (innermost rule name), ps, pe, conds, e (projected BEFORE the call), outcome ok|exc|build, exc, r,
                printed, rpo, rp; rec = the stored result for example steps}
  kind "norm": {e, conds, outcome, n1 = normalize(e), n2 = normalize(n1), n3 = normalize(n2)}
  kind "pp"  : {e, printed, rpo, rp = parse_expr(str(e))}
Expressions are projected by the structural codec `enc` below (raw fields only; never Expr.__eq__, never the printer):
  ["var",x] ["const",n,d] ["bigconst",sn,sd] ["op",sym,a,b] ["neg",a] ["fun",f,[args]] ["int",x,lo,hi,b] ["iint",x,b,[sk]]
  ["deriv",x,b] ["evalat",x,lo,hi,b] ["sum",i,lo,hi,b] ["lim",x,l,b,drt] ["inf",sign] ["skolem",c,[deps]] ["diff",b]
  ["symbol",s] ["oth",text]
"""
import copy
import json
import os
import random
import sys
from decimal import Decimal
from fractions import Fraction

from integral import expr as E
from integral import parser, rules, compstate, poly
from integral.context import Context
from integral.conditions import Conditions

LIM = 2 ** 30 - 1


# ------------------------------------------------------------------------------------------------ codec
def enc(e):
    if not isinstance(e, E.Expr):
        return ["oth", "not-an-Expr:" + type(e).__name__]
    ty = e.ty
    if ty == E.VAR:
        return ["var", str(e.name)]
    if ty == E.CONST:
        v = e.val
        if isinstance(v, bool):
            return ["oth", "const-bool"]
        if isinstance(v, int):
            n, d = v, 1
        elif isinstance(v, Fraction):
            n, d = v.numerator, v.denominator
        else:
            return ["oth", "const:" + type(v).__name__]
        if abs(n) > LIM or d > LIM:
            return ["bigconst", str(n), str(d)]
        return ["const", n, d]
    if ty == E.OP:
        if len(e.args) == 1:
            if e.op != "-":
                return ["oth", "unary:" + str(e.op)]
            return ["neg", enc(e.args[0])]
        if len(e.args) == 2:
            return ["op", str(e.op), enc(e.args[0]), enc(e.args[1])]
        return ["oth", "op-arity"]
    if ty == E.FUN:
        return ["fun", str(e.func_name), [enc(a) for a in e.args]]
    if ty == E.INTEGRAL:
        return ["int", str(e.var), enc(e.lower), enc(e.upper), enc(e.body)]
    if ty == E.INDEFINITEINTEGRAL:
        return ["iint", str(e.var), enc(e.body), [str(a) for a in e.skolem_args]]
    if ty == E.DERIV:
        return ["deriv", str(e.var), enc(e.body)]
    if ty == E.EVAL_AT:
        return ["evalat", str(e.var), enc(e.lower), enc(e.upper), enc(e.body)]
    if ty == E.SUMMATION:
        return ["sum", str(e.index_var), enc(e.lower), enc(e.upper), enc(e.body)]
    if ty == E.LIMIT:
        return ["lim", str(e.var), enc(e.lim), enc(e.body), "" if e.drt is None else str(e.drt)]
    if ty == E.INF:
        return ["inf", 1 if e.t == Decimal("inf") else -1]
    if ty == E.SKOLEMFUNC:
        return ["skolem", str(e.name), [enc(a) for a in e.dependent_vars]]
    if ty == E.DIFFERENTIAL:
        return ["diff", enc(e.body)]
    if ty == E.SYMBOL:
        return ["symbol", str(e.name)]
    return ["oth", "ty:" + str(ty)]


def dec(j):
    k = j[0]
    if k == "var":
        return E.Var(j[1])
    if k == "const":
        return E.Const(j[1]) if j[2] == 1 else E.Const(Fraction(j[1], j[2]))
    if k == "op":
        return E.Op(j[1], dec(j[2]), dec(j[3]))
    if k == "neg":
        return E.Op("-", dec(j[1]))
    if k == "fun":
        return E.Fun(j[1], *[dec(a) for a in j[2]])
    if k == "int":
        return E.Integral(j[1], dec(j[2]), dec(j[3]), dec(j[4]))
    if k == "iint":
        return E.IndefiniteIntegral(j[1], dec(j[2]), tuple(j[3]))
    if k == "deriv":
        return E.Deriv(j[1], dec(j[2]))
    if k == "evalat":
        return E.EvalAt(j[1], dec(j[2]), dec(j[3]), dec(j[4]))
    if k == "sum":
        return E.Summation(j[1], dec(j[2]), dec(j[3]), dec(j[4]))
    if k == "lim":
        return E.Limit(j[1], dec(j[2]), dec(j[3]), j[4] or None)
    if k == "inf":
        return E.POS_INF if j[1] > 0 else E.NEG_INF
    if k == "skolem":
        return E.SkolemFunc(j[1], tuple(dec(a) for a in j[2]))
    if k == "diff":
        return E.Differential(dec(j[1]))
    raise ValueError("c19.dec: cannot build %r" % (j,))


NONE = ["none"]


class Out:
    def __init__(self, path):
        self.f = open(path, "w")
        self.tid = 0

    def emit(self, ev):
        self.tid += 1
        ev["tid"] = self.tid
        self.f.write(json.dumps(ev, separators=(",", ":")) + "\n")

    def close(self):
        self.f.close()


def quiet(f, *a):
    """The library prints to stdout when the parser fails; keep our stdout clean."""
    so = sys.stdout
    sys.stdout = open(os.devnull, "w")
    try:
        return f(*a)
    finally:
        sys.stdout.close()
        sys.stdout = so


def reparse(ev, obj, pfx=""):
    """printed / rpo / rp fields: str(obj) and parse_expr of it."""
    try:
        txt = str(obj)
    except Exception as ex:
        ev[pfx + "printed"], ev[pfx + "rpo"], ev[pfx + "rp"] = "", "printexc:" + type(ex).__name__, NONE
        return
    ev[pfx + "printed"] = txt[:2000]
    try:
        back = quiet(parser.parse_expr, txt)
        ev[pfx + "rpo"], ev[pfx + "rp"] = "ok", enc(back)
    except Exception as ex:
        ev[pfx + "rpo"], ev[pfx + "rp"] = "exc:" + type(ex).__name__, NONE


# ------------------------------------------------------------------------------------------------ rules
SIMPLE = {
    "Simplify": rules.Simplify, "FullSimplify": rules.FullSimplify, "Linearity": rules.Linearity,
    "CommonIntegral": rules.CommonIntegral, "DefiniteIntegralIdentity": rules.DefiniteIntegralIdentity,
    "IndefiniteIntegralIdentity": rules.IndefiniteIntegralIdentity, "ExpandPolynomial": rules.ExpandPolynomial,
    "DerivativeSimplify": rules.DerivativeSimplify, "SummationSimplify": rules.SummationSimplify,
    "SimplifyPower": rules.SimplifyPower, "DerivIntExchange": rules.DerivIntExchange, "IntSumExchange": rules.IntSumExchange,
    "MergeSummation": rules.MergeSummation, "ElimInfInterval": rules.ElimInfInterval, "LHopital": rules.LHopital,
    "ReduceLimit": rules.ReduceLimit,
}


def make_rule(name, ps, pe):
    """name, string parameters, (real) expression parameters -> Rule.  "Sub:" / "Loc:" prefixes wrap."""
    if name.startswith("Sub:"):
        return rules.OnSubterm(make_rule(name[4:], ps, pe))
    if name.startswith("Loc:"):
        return rules.OnLocation(make_rule(name[4:], ps[1:], pe), ps[0])
    if name in SIMPLE:
        return SIMPLE[name]()
    if name == "Substitution":
        return rules.Substitution(ps[0], pe[0])
    if name == "SubstitutionInverse":
        return rules.SubstitutionInverse(ps[0], pe[0])
    if name == "IntegrationByParts":
        return rules.IntegrationByParts(pe[0], pe[1])
    if name == "SplitRegion":
        return rules.SplitRegion(pe[0])
    if name == "Equation":
        return rules.Equation(pe[0] if len(pe) > 1 else None, pe[-1])
    if name == "IntegrateByEquation":
        return rules.IntegrateByEquation(pe[0])
    raise ValueError("c19: no rule " + name)


_BASE = None


def base_ctx():
    global _BASE
    if _BASE is None:
        _BASE = Context()
        _BASE.load_book("base")
    return _BASE


def apply_rule(out, src, name, ps, pe_j, e_j, conds_j, extra=None, ctx=None, keypfx="", emit=True):
    """Build the real objects from projections, apply the real rule, log.  Without ctx: a child of the book context with the
    stated conditions (what compstate.Calculation.perform_rule builds); with ctx: that context (histories)."""
    ev = {"kind": "rule", "src": src, "rule": name, "base": name.split(":")[-1], "ps": list(ps), "pe": pe_j, "conds": conds_j, "e": e_j}
    if extra:
        ev.update(extra)
    if not emit:
        out = Null()
    try:
        e = dec(e_j)
        pe = [dec(p) for p in pe_j]
        if ctx is None:
            ctx = Context(base_ctx())
            for c in conds_j:
                ctx.add_condition(dec(c))
        rule = make_rule(name, ps, pe)
    except Exception as ex:
        ev.update({"outcome": "build", "exc": type(ex).__name__, "r": NONE, "printed": "", "rpo": "none", "rp": NONE})
        ev["key"] = "rule:%s:%s" % (name, json.dumps([ps, pe_j, e_j, conds_j], separators=(",", ":"))[:300])
        out.emit(ev)
        return None
    ev["text"] = _safe_str(e)
    ev["key"] = "%srule:%s(%s):%s%s" % (keypfx, name, ",".join(list(ps) + [_safe_str(p) for p in pe]), ev["text"][:200],
                                         (" if " + ",".join(_safe_str(dec(c)) for c in conds_j)) if conds_j else "")
    if "shared" in ev:          # the conditions held by the shared context before / after the step (informational)
        ev["cb"] = [enc(c) for c in list(ctx.conds.data)]
    run_rule(out, ev, rule, e, ctx, after=(lambda: [enc(c) for c in list(ctx.conds.data)]) if "shared" in ev else None)
    return ev


class Null:
    def emit(self, ev):
        pass


def root_ctx(book):
    """A fresh parent-less context (as rules.check_item / integral.slagle use), with the book's identities if asked for."""
    if book != "base":
        return Context()
    ctx = copy.copy(base_ctx())
    for k, v in list(ctx.__dict__.items()):
        if isinstance(v, (list, dict)):
            setattr(ctx, k, copy.copy(v))
    ctx.conds = Conditions()
    ctx.substs = {}
    return ctx


def run_history(out, src, fam, conds_j, steps, root, book, idents, emit_from=0):
    """Several rule applications (on different expressions) in ONE context: parent-less and shared when root, else a child
    of the book context.  idents: [[equation, [conditions]]] definite-integral identities of a scratch book."""
    if root:
        ctx = root_ctx(book)
    else:
        ctx = Context(base_ctx() if book == "base" else Context())
    try:
        for c in conds_j:
            ctx.add_condition(dec(c))
        for eq_j, cs_j in idents:
            ctx.add_definite_integral(dec(eq_j), Conditions([dec(c) for c in cs_j]))
    except Exception as ex:
        out.emit({"kind": "exload", "src": src, "key": "ctx:" + json.dumps([conds_j, idents], separators=(",", ":"))[:300], "exc": type(ex).__name__})
        return
    summ = []
    for k, st in enumerate(steps):
        try:
            summ.append("%s(%s):%s" % (st["rule"], ",".join(list(st["ps"]) + [_safe_str(dec(p)) for p in st["pe"]]), _safe_str(dec(st["e"]))[:80]))
        except Exception:
            summ.append(st["rule"])
    tag = "" if not idents else "with %s " % "; ".join("%s if %s" % (_safe_str(dec(q[2])), ",".join(_safe_str(dec(c)) for c in cs)) for q, cs in idents)
    for k, st in enumerate(steps):
        pfx = "%s[%s%s]#%d " % (fam, tag, " ; ".join(summ[:k]), k) if (k or idents) else (fam + " " if fam != "calc" else "")
        apply_rule(out, src, st["rule"], st["ps"], st["pe"], st["e"], conds_j,
                   {"fam": fam, "shared": bool(root), "k": k, "nsteps": len(steps), "book": book, "idents": idents, "prefix": steps[:k]},
                   ctx=ctx, keypfx=pfx[:400], emit=(k >= emit_from))


def _safe_str(x):
    try:
        return str(x)
    except Exception:
        return "<unprintable>"


def run_rule(out, ev, rule, e, ctx, after=None):
    try:
        r = quiet(rule.eval, e, ctx)
        if after:
            ev["ca"] = after()
    except RecursionError:
        ev.update({"outcome": "exc", "exc": "RecursionError", "r": NONE, "printed": "", "rpo": "none", "rp": NONE})
        out.emit(ev)
        return None
    except Exception as ex:
        ev.update({"outcome": "exc", "exc": type(ex).__name__, "r": NONE, "printed": "", "rpo": "none", "rp": NONE})
        if after:
            ev["ca"] = after()
        out.emit(ev)
        return None
    if not isinstance(r, E.Expr):
        ev.update({"outcome": "exc", "exc": "returned:" + type(r).__name__, "r": NONE, "printed": "", "rpo": "none", "rp": NONE})
        out.emit(ev)
        return None
    ev["outcome"], ev["exc"], ev["r"] = "ok", "", enc(r)
    reparse(ev, r)
    out.emit(ev)
    return r


def norm_event(out, src, e_j, conds_j):
    ev = {"kind": "norm", "src": src, "e": e_j, "conds": conds_j}
    try:
        e = dec(e_j)
        conds = Conditions()
        for c in conds_j:
            conds.add_condition(dec(c))
        ev["text"] = _safe_str(e)
        ev["key"] = "norm:%s%s" % (ev["text"][:240], (" if " + ",".join(_safe_str(dec(c)) for c in conds_j)) if conds_j else "")
        n1 = quiet(poly.normalize, e, conds)
        n2 = quiet(poly.normalize, n1, conds)
        n3 = quiet(poly.normalize, n2, conds)
        ev["outcome"], ev["exc"], ev["n1"], ev["n2"], ev["n3"] = "ok", "", enc(n1), enc(n2), enc(n3)
        ev["t1"], ev["t2"] = _safe_str(n1)[:500], _safe_str(n2)[:500]
    except RecursionError:
        ev.update({"outcome": "exc", "exc": "RecursionError", "n1": NONE, "n2": NONE, "n3": NONE})
    except Exception as ex:
        ev.update({"outcome": "exc", "exc": type(ex).__name__, "n1": NONE, "n2": NONE, "n3": NONE})
    ev.setdefault("key", "norm:" + json.dumps(e_j, separators=(",", ":"))[:240])
    out.emit(ev)


def pp_event(out, src, e):
    ev = {"kind": "pp", "src": src, "e": enc(e)}
    reparse(ev, e)
    ev["key"] = "pp:" + (ev["printed"][:240] or json.dumps(ev["e"], separators=(",", ":"))[:240])
    out.emit(ev)


# ------------------------------------------------------------------------------------------------ replay of TLC vectors
def mode_replay(vec, outp):
    out = Out(outp)
    seen_norm, seen_pp = set(), set()
    for ln in open(vec):
        ln = ln.strip()
        if not ln:
            continue
        v = json.loads(ln)
        conds = v.get("conds", [])
        if "steps" in v:          # a history (C19_Ctx): the whole prefix is re-executed in one context, the last step is logged
            run_history(out, "tlc", v.get("fam", "hist"), conds, v["steps"], v.get("root", False), v.get("book", "base"),
                        v.get("idents", []), emit_from=len(v["steps"]) - 1)
            continue
        ev = apply_rule(out, "tlc", v["rule"], v.get("ps", []), v.get("pe", []), v["e"], conds, {"step": v.get("step", 0)})
        for j in ([v["e"]] if v.get("step", 0) == 0 else []) + ([ev["r"]] if ev and ev.get("outcome") == "ok" and v.get("step", 0) <= 1 else []):
            k = json.dumps([j, conds])
            if k not in seen_norm:
                seen_norm.add(k)
                norm_event(out, "tlc", j, conds)
        k = json.dumps(v["e"])
        if k not in seen_pp:
            seen_pp.add(k)
            try:
                pp_event(out, "tlc", dec(v["e"]))
            except Exception:
                pass
    out.close()


# ------------------------------------------------------------------------------------------------ seeded random inputs
class Gen:
    """Random expressions.  `frag` generators stay inside the exactly evaluable fragment."""

    def __init__(self, rnd):
        self.r = rnd

    def coef(self, frac=0.25):
        r = self.r
        if r.random() < frac:
            return E.Const(Fraction(r.choice([-3, -2, -1, 1, 2, 3, 5]), r.choice([2, 3, 4])))
        return E.Const(r.choice([-3, -2, -1, 1, 2, 3, 4, 5]))

    def atom(self, vs):
        r = self.r
        if vs and r.random() < 0.65:
            return E.Var(r.choice(vs))
        return self.coef()

    def polyexpr(self, vs, depth):
        """polynomial expression over the variables vs (natural powers, rational coefficients, division by constants)"""
        r = self.r
        if depth <= 0 or r.random() < 0.2:
            return self.atom(vs)
        k = r.random()
        a = self.polyexpr(vs, depth - 1)
        if k < 0.30:
            return E.Op("+", a, self.polyexpr(vs, depth - 1))
        if k < 0.45:
            return E.Op("-", a, self.polyexpr(vs, depth - 1))
        if k < 0.75:
            return E.Op("*", a, self.polyexpr(vs, depth - 1))
        if k < 0.85:
            return E.Op("^", a, E.Const(r.choice([2, 2, 3])))
        if k < 0.92:
            return E.Op("-", a)
        return E.Op("/", a, self.coef(0.1))

    def ratexpr(self, vs, depth):
        """rational expression (denominators may contain variables)"""
        r = self.r
        if depth <= 0 or r.random() < 0.2:
            return self.atom(vs)
        k = r.random()
        a = self.ratexpr(vs, depth - 1)
        if k < 0.25:
            return E.Op("+", a, self.ratexpr(vs, depth - 1))
        if k < 0.40:
            return E.Op("-", a, self.ratexpr(vs, depth - 1))
        if k < 0.60:
            return E.Op("*", a, self.ratexpr(vs, depth - 1))
        if k < 0.80:
            return E.Op("/", a, self.ratexpr(vs, depth - 1))
        if k < 0.90:
            return E.Op("^", a, E.Const(r.choice([2, 3, -1, -2])))
        return E.Op("-", a)

    def bound(self, params):
        r = self.r
        if params and r.random() < 0.25:
            p = E.Var(r.choice(params))
            return r.choice([p, E.Op("+", p, E.Const(1)), E.Op("*", E.Const(2), p)])
        if r.random() < 0.15:
            return E.Const(Fraction(r.choice([-1, 1, 3]), 2))
        return E.Const(r.choice([-2, -1, 0, 1, 2, 3]))

    def integral(self, params, depth=2, var=None):
        var = var or self.r.choice(["x", "t"])
        return E.Integral(var, self.bound(params), self.bound(params), self.polyexpr([var, var] + params, depth))

    def frag(self, params):
        """a closed-form member of the fragment with a binder at or near the top"""
        r = self.r
        k = r.random()
        if k < 0.45:
            return self.integral(params, r.choice([1, 2, 2, 3]))
        if k < 0.55:
            x = r.choice(["x", "t"])
            return E.Deriv(x, self.polyexpr([x, x] + params, 2) if r.random() < 0.6 else self.ratexpr([x] + params, 2))
        if k < 0.63:
            x = r.choice(["x", "t"])
            return E.EvalAt(x, self.bound(params), self.bound(params), self.ratexpr([x] + params, 2))
        if k < 0.70:
            lo = r.choice([0, 1, 2])
            return E.Summation("k", E.Const(lo), E.Const(lo + r.choice([0, 1, 2, 3])), self.polyexpr(["k"] + params, 2))
        if k < 0.78:
            a, b = self.integral(params, 2), self.integral(params, 1)
            return E.Op(r.choice(["+", "-", "*"]), a, b)
        if k < 0.82:
            return E.Op("*", self.polyexpr(params, 1), self.integral(params, 2))
        if k < 0.87:   # nested
            x, y = "x", "y"
            inner = E.Integral(y, self.bound([x]), self.bound([x]), self.polyexpr([x, y] + params, 1))
            return E.Integral(x, self.bound(params), self.bound(params), E.Op(r.choice(["+", "*"]), inner, self.polyexpr([x] + params, 1)))
        if k < 0.93:
            x = "x"
            return E.IndefiniteIntegral(x, self.polyexpr([x, x] + params, 2), tuple())
        if k < 0.95 and params:      # derivative of a parameter integral
            return E.Deriv(params[0], self.integral(params, 2, "x"))
        if k < 0.97:                 # integral of a finite sum
            body = E.Summation("k", E.Const(0), E.Const(r.choice([1, 2, 3])), self.polyexpr(["k", "x", "x"] + params, 2))
            return E.Integral("x", self.bound(params), self.bound(params), body)
        if k < 0.98 and params:      # integral of a derivative with respect to a parameter
            return E.Integral("x", self.bound([]), self.bound([]), E.Deriv(params[0], self.polyexpr(["x"] + params + params, 2)))
        return self.ratexpr(params or ["x"], 3)

    FUNS1 = ["sin", "cos", "tan", "cot", "sec", "csc", "log", "exp", "sqrt", "abs", "atan", "asin", "acos", "sinh", "cosh", "f"]

    def anyexpr(self, depth, vs=("x", "y", "a", "n")):
        """all expression forms (structural clauses only)"""
        r = self.r
        if depth <= 0 or r.random() < 0.12:
            k = r.random()
            if k < 0.5:
                return E.Var(r.choice(vs))
            if k < 0.8:
                return self.coef(0.3)
            if k < 0.86:
                return E.Const(0)
            if k < 0.92:
                return E.pi
            if k < 0.96:
                return r.choice([E.POS_INF, E.NEG_INF])
            return E.SkolemFunc("C", tuple() if r.random() < 0.5 else (E.Var(r.choice(vs)),))
        sub = lambda: self.anyexpr(depth - 1, vs)
        k = r.random()
        if k < 0.40:
            o, a, b = r.choice(["+", "-", "*", "/", "^", "+", "-", "*"]), sub(), sub()
            if o == "/" and b.ty == E.CONST and b.val == 0:
                b = E.Const(7)
            return E.Op(o, a, b)
        if k < 0.48:
            return E.Op("-", sub())
        if k < 0.62:
            return E.Fun(r.choice(self.FUNS1), sub())
        if k < 0.65:
            return E.Fun(r.choice(["binom", "g"]), sub(), sub())
        if k < 0.73:
            return E.Integral(r.choice(vs), sub(), sub(), sub())
        if k < 0.77:
            return E.IndefiniteIntegral(r.choice(vs), sub(), tuple() if r.random() < 0.6 else ("a",))
        if k < 0.83:
            return E.Deriv(r.choice(vs), sub())
        if k < 0.88:
            return E.EvalAt(r.choice(vs), sub(), sub(), sub())
        if k < 0.93:
            return E.Summation(r.choice(["k", "n"]), sub(), sub(), sub())
        lim = sub()
        return E.Limit(r.choice(vs), lim, sub(), None if lim.ty == E.INF else r.choice([None, None, "+", "-"]))


def linear_in(rnd, x):
    a = rnd.choice([-3, -2, -1, 1, 2, 3])
    b = rnd.choice([-2, -1, 0, 0, 1, 2])
    t = E.Var(x) if a == 1 else (E.Op("-", E.Var(x)) if a == -1 else E.Op("*", E.Const(a), E.Var(x)))
    if b == 0:
        return t
    return E.Op("+", t, E.Const(b)) if b > 0 else E.Op("-", t, E.Const(-b))


def subterms(e, acc=None):
    acc = [] if acc is None else acc
    acc.append(e)
    if e.ty in (E.OP, E.FUN):
        for a in e.args:
            subterms(a, acc)
    elif e.ty in (E.INTEGRAL, E.EVAL_AT, E.SUMMATION):
        subterms(e.body, acc)
    elif e.ty in (E.DERIV, E.INDEFINITEINTEGRAL):
        subterms(e.body, acc)
    return acc


def rule_choices(rnd, g, e, params):
    """(name, ps, pe) candidates for expression e"""
    res = [("Simplify", [], []), ("FullSimplify", [], []), ("Sub:Linearity", [], []), ("Linearity", [], []),
           ("ExpandPolynomial", [], []), ("Sub:ExpandPolynomial", [], []), ("DefiniteIntegralIdentity", [], []),
           ("Sub:DerivativeSimplify", [], []), ("Sub:SimplifyPower", [], []), ("Sub:CommonIntegral", [], [])]
    ints = [s for s in subterms(e) if s.ty == E.INTEGRAL]
    if ints:
        it = rnd.choice(ints)
        x = str(it.var)
        u = "u" if x != "u" else "w"
        res.append(("Substitution", [u], [linear_in(rnd, x)]))
        res.append(("Substitution", [u], [linear_in(rnd, x)]))
        res.append(("Substitution", [u], [E.Op("^", E.Var(x), E.Const(rnd.choice([2, 3])))]))
        res.append(("Substitution", [u], [E.Op("+", E.Op("^", E.Var(x), E.Const(2)), E.Const(rnd.choice([1, 2])))]))
        res.append(("SubstitutionInverse", [u], [linear_in(rnd, u)]))
        res.append(("SubstitutionInverse", [u], [E.Op("^", E.Var(u), E.Const(rnd.choice([2, 3])))]))
        res.append(("SplitRegion", [], [g.bound(params)]))
        res.append(("SplitRegion", [], [g.bound(params)]))
        # integration by parts: u * dv = body with polynomial u, v
        uu = g.polyexpr([x], 1)
        vv = g.polyexpr([x, x], 1)
        res.append(("IntegrationByParts", [], [uu, vv]))
        res.append(("IntegrationByParts", [], [E.Var(x), it.body]))
        res.append(("IntegrationByParts", [], [it.body, E.Var(x)]))
        res.append(("Equation", [], [it.body, g.polyexpr([x] + params, 2)]))
    if e.ty == E.INDEFINITEINTEGRAL:
        res.append(("IndefiniteIntegralIdentity", [], []))
        res.append(("IntegrationByParts", [], [e.body, E.Var(str(e.var))]))
    if any(s.ty == E.DERIV for s in subterms(e)):
        res.append(("Sub:DerivativeSimplify", [], []))
        res.append(("DerivIntExchange", [], []))
    if any(s.ty == E.SUMMATION for s in subterms(e)):
        res.append(("Sub:SummationSimplify", [], []))
    return res


def ibp_instance(rnd, g, params):
    """an integral whose body is literally u * dv for polynomial u, v (so that the rule accepts)"""
    x = "x"
    deg = rnd.choice([1, 2, 3])
    c = rnd.choice([1, 2, 3, Fraction(1, 2)])
    v = E.Op("*", E.Const(c), E.Op("^", E.Var(x), E.Const(deg))) if c != 1 else E.Op("^", E.Var(x), E.Const(deg))
    dv = E.Op("*", E.Const(c * deg), E.Op("^", E.Var(x), E.Const(deg - 1))) if deg > 1 else E.Const(c)
    u = g.polyexpr([x, x] + params, 1)
    body = E.Op("*", u, dv)
    e = E.Integral(x, g.bound(params), g.bound(params), body) if rnd.random() < 0.8 else E.IndefiniteIntegral(x, body, tuple())
    return e, u, v


DIRECTED = [
    # (rule, ps, pe, e, conds): side conditions that the property names (monotonic substitution, zero denominators, bound order)
    ("Substitution", ["u"], ["x ^ 2"], "INT x:[-1,1]. x ^ 2", []),
    ("Substitution", ["u"], ["x ^ 2"], "INT x:[-2,2]. x ^ 4 + 1", []),
    ("Substitution", ["u"], ["x ^ 2"], "INT x:[0,2]. x ^ 2", []),
    ("Substitution", ["u"], ["x ^ 2"], "INT x:[-2,0]. x ^ 3", []),
    ("Substitution", ["u"], ["x ^ 2 + 1"], "INT x:[-1,2]. x * (x ^ 2 + 1) ^ 2", []),
    ("Substitution", ["u"], ["(x - 1) ^ 2"], "INT x:[0,2]. (x - 1) ^ 2", []),
    ("Substitution", ["u"], ["x ^ 3"], "INT x:[-1,2]. x ^ 2 * (x ^ 3 + 1)", []),
    ("Substitution", ["u"], ["a * x"], "INT x:[0,1]. a * x + 1", ["a != 0"]),
    ("Substitution", ["u"], ["a * x"], "INT x:[0,1]. a * x + 1", ["a < 0"]),
    ("Substitution", ["u"], ["1 - x"], "INT x:[0,a]. x * (1 - x)", []),
    ("SubstitutionInverse", ["u"], ["u ^ 2"], "INT x:[0,4]. x + 1", []),
    ("SubstitutionInverse", ["u"], ["2 * u - 1"], "INT x:[a,3]. x ^ 2", []),
    ("SplitRegion", [], ["0"], "INT x:[-1,2]. x ^ 3", []),
    ("SplitRegion", [], ["a"], "INT x:[0,1]. x ^ 2 + a", []),
    ("FullSimplify", [], [], "INT x:[a,a]. x ^ 2", []),
    ("FullSimplify", [], [], "INT x:[2,-1]. x ^ 2 + 1", []),
    ("FullSimplify", [], [], "[x ^ 3 / 3 + a * x]_x=a,2 * a", []),
    ("FullSimplify", [], [], "x ^ 2 / x + a / a", []),
    ("FullSimplify", [], [], "D x. x ^ 3 / (a + 1)", []),
    ("FullSimplify", [], [], "D a. INT x:[0,a]. a * x ^ 2", []),
    ("FullSimplify", [], [], "INT x:[0,1]. D x. x ^ 2 + a * x", []),
    ("FullSimplify", [], [], "SUM(k, 0, 3, (-1) ^ (2 * k) * k ^ 2)", []),
    ("FullSimplify", [], [], "(x + 1) ^ 2 - (x - 1) ^ 2", []),
    ("Linearity", [], [], "INT x:[0,1]. a * x / (a + 1) - 2 * x ^ 2 / 3", ["a > 0"]),
    ("Linearity", [], [], "INT x:[0,1]. -(2 * x) + x / 2", []),
    ("DefiniteIntegralIdentity", [], [], "INT x:[1,2]. 3 * x ^ 2 + x ^ (-2)", []),
    ("DefiniteIntegralIdentity", [], [], "INT x:[a,b]. x ^ 3 - x", []),
    ("IndefiniteIntegralIdentity", [], [], "INT x. 3 * x ^ 2 + 2 * x + 1", []),
    ("IntegrationByParts", [], ["x", "x ^ 2 / 2"], "INT x. x * x", []),
    ("DerivIntExchange", [], [], "D a. INT x:[0,1]. a ^ 2 * x", []),
    ("DerivIntExchange", [], [], "D a. INT x:[a,1]. x", []),
    ("DerivIntExchange", [], [], "D a. INT x:[0,2 * a]. a * x", []),
    ("DerivIntExchange", [], [], "INT x:[0,1]. D a. a ^ 2 * x", []),
    ("DerivIntExchange", [], [], "INT x:[1,3]. D a. a * x ^ 2 + x", []),
    ("IntSumExchange", [], [], "INT x:[0,1]. SUM(k, 0, 2, x ^ k)", []),
    ("Sub:SimplifyPower", [], [], "(x ^ 2) ^ 3 + (-x) ^ 2 + (-a - x) ^ 3", []),
    ("Sub:SimplifyPower", [], [], "(1 / x ^ 2) ^ 2 + 2 ^ (a + 1)", ["x != 0"]),
    ("Equation", [], ["(x + 1) ^ 2", "x ^ 2 + 2 * x + 1"], "INT x:[0,1]. (x + 1) ^ 2", []),
    ("Equation", [], ["x ^ 2 - 1", "(x - 1) * (x + 1)"], "INT x:[0,a]. x ^ 2 - 1", []),
    ("IntegrateByEquation", [], ["INT x:[0,1]. x ^ 2"], "1 - 2 * (INT x:[0,1]. x ^ 2)", []),
]


DIRECTED_NORM = ["2 * x * x ^ n + 1", "(x + 1) / 2", "3 * ((x + 1) * (x - 2)) + 1", "-1 * (INT x:[3,2]. 1)", "x * x / x ^ 2", "b / (a * a)",
                 "INT x:[a - a,0]. x", "(a + b) ^ 2 / (a + b)", "x ^ 2 * x ^ (-2)", "[x ^ 2]_x=1,a", "D x. x ^ 2", "SUM(k, 1, 1, k ^ 2)",
                 "INT x:[0,1]. INT y:[0,x]. x * y", "x ^ (1/2) * x ^ (1/2)", "(-x) ^ 2", "abs(x) * abs(x)", "0 * (1 / a)", "a - a"]


def mode_directed(out):
    for es in DIRECTED_NORM:
        try:
            norm_event(out, "directed", enc(quiet(parser.parse_expr, es)), [])
        except Exception:
            pass
    for name, ps, pes, es, cs in DIRECTED:
        try:
            e_j = enc(quiet(parser.parse_expr, es))
            pe_j = [enc(quiet(parser.parse_expr, p)) for p in pes]
            c_j = [enc(quiet(parser.parse_expr, c)) for c in cs]
        except Exception:
            continue
        ev = apply_rule(out, "directed", name, ps, pe_j, e_j, c_j)
        norm_event(out, "directed", e_j, c_j)
        if ev and ev.get("outcome") == "ok":
            norm_event(out, "directed", ev["r"], c_j)


# scratch book: definite-integral identities inside the exactly evaluable fragment whose closed form is right exactly where
# their side conditions hold (abs(t) / t is the sign of t)
SCRATCH = [
    ("(INT x:[0,b]. (x + a) ^ 2) = abs(a) / a * (abs(b) * (b ^ 2 + 3 * a * b + 3 * a ^ 2) / 3)", ["a > 0", "b > 0"]),
    ("(INT x:[a,b]. x ^ 2) = abs(b) * b ^ 2 / 3 - abs(a) * a ^ 2 / 3", ["a > 0", "b > 0"]),
    ("(INT x:[a,b]. x ^ 2) = abs(b) * b ^ 2 / 3 + abs(a) * a ^ 2 / 3", ["a < 0", "b > 0"]),
    ("(INT x:[a,b]. (x + c) ^ 2) = abs(a) / a * (abs(b) / b) * (abs(c) / c) * (((b + c) ^ 3 - (a + c) ^ 3) / 3)", ["a > 0", "b > 0", "c > 0"]),
    ("(INT x:[a,b]. x ^ 3) = abs(b) * b ^ 3 / 4 - abs(a) * a ^ 3 / 4", ["b > 0", "a > 0"]),
    ("(INT x:[0,a]. (b * x + c) ^ 2) = abs(b) / b * (abs(a) / a) * (((b * a + c) ^ 3 - c ^ 3) / (3 * abs(b)))", ["a > 0", "b > 0", "c != 0"]),
]


def rand_ident(out, rnd):
    eq_s, cs = rnd.choice(SCRATCH)
    eq = quiet(parser.parse_expr, eq_s)
    params = sorted(eq.lhs.get_vars())
    names = dict(zip(["a", "b", "c"], ["p", "q", "r"]))
    inst, conds = {}, []
    for pn in params:
        k = rnd.random()
        if k < 0.55:
            inst[pn] = E.Var(names.get(pn, pn + "1"))
            k2 = rnd.random()
            if k2 < 0.35:
                conds.append(E.Op(">", inst[pn], E.Const(0)))
            elif k2 < 0.6:
                conds.append(E.Op("<", inst[pn], E.Const(0)))
            elif k2 < 0.7:
                conds.append(E.Op("!=", inst[pn], E.Const(0)))
            elif k2 < 0.8:
                conds.append(E.Op(">", inst[pn], E.Const(rnd.choice([-1, 1, 2]))))
        else:
            inst[pn] = E.Const(rnd.choice([-2, -1, 1, 2, 3, Fraction(1, 2), Fraction(-3, 2)]))
    e = eq.lhs
    for pn, t in inst.items():
        e = e.subst(pn, t)
    rnd.shuffle(conds)
    step = {"e": enc(e), "rule": rnd.choice(["DefiniteIntegralIdentity", "DefiniteIntegralIdentity", "Sub:DefiniteIntegralIdentity"]), "ps": [], "pe": []}
    run_history(out, "rand", "ident", [enc(c) for c in conds], [step], False, "none",
                [[enc(eq), [enc(quiet(parser.parse_expr, c)) for c in cs]]])


def rand_history(out, rnd, g):
    """2-4 rule applications on different expressions in one shared parent-less context"""
    params = rnd.choice([[], [], ["a"]])
    conds = []
    if params and rnd.random() < 0.5:
        conds = [enc(E.Op(rnd.choice([">", "<", "!="]), E.Var(params[0]), E.Const(0)))]
    steps = []
    for k in range(rnd.choice([2, 2, 3, 4])):
        kk = rnd.random()
        if kk < 0.12:        # a free variable named like a variable of integration
            v = rnd.choice(["x", "t"])
            e = rnd.choice([E.Op("+", E.Fun("abs", E.Var(v)), E.Const(1)), E.Op("*", E.Fun("abs", E.Var(v)), E.Var(v)),
                            E.Op("/", E.Fun("abs", E.Op("-", E.Var(v), E.Const(1))), E.Const(2))])
            steps.append({"e": enc(e), "rule": rnd.choice(["FullSimplify", "Simplify"]), "ps": [], "pe": []})
            continue
        var = rnd.choice(["x", "x", "t"])
        lo, hi = rnd.choice([(0, 1), (-1, 1), (1, 2), (-2, 0), (2, 0), (-1, 2), (0, 3), (1, -1)])
        e = E.Integral(var, E.Const(lo), E.Const(hi), g.polyexpr([var, var] + params, rnd.choice([1, 2])))
        if kk < 0.55:
            c = rnd.choice([0, 0, 1, -1])
            u = E.Op("^", E.Var(var) if c == 0 else E.Op("-", E.Var(var), E.Const(c)), E.Const(2))
            if rnd.random() < 0.3:
                u = E.Op("+", u, E.Const(rnd.choice([1, 2])))
            steps.append({"e": enc(e), "rule": "Substitution", "ps": ["u"], "pe": [enc(u)]})
        else:
            name, ps, pe = rnd.choice(rule_choices(rnd, g, e, params))
            steps.append({"e": enc(e), "rule": name, "ps": ps, "pe": [enc(p) for p in pe]})
    run_history(out, "rand", "hist", conds, steps, True, "base", [])


def rand_limit(out, rnd, g):
    """limit at infinity of a rational function, with decaying terms of both signs and reciprocals"""
    x = "x"
    def decay():
        a = rnd.choice([1, 1, 2, 3, Fraction(1, 2)])
        i = rnd.choice([1, 2, 3])
        t = E.Op("/", E.Const(a), E.Var(x) if i == 1 else E.Op("^", E.Var(x), E.Const(i)))
        return t
    def dsum():
        t = decay()
        for _ in range(rnd.choice([1, 1, 2])):
            t = E.Op(rnd.choice(["+", "-", "-"]), t, decay())
        if rnd.random() < 0.25:
            t = E.Op("+", t, E.Const(rnd.choice([-1, 1, 2])))
        return t
    k = rnd.random()
    if k < 0.35:
        body = E.Op("/", E.Const(rnd.choice([1, -1, 2])), dsum())
    elif k < 0.45:
        body = E.Op("^", dsum(), E.Const(rnd.choice([-1, -2, 2])))
    elif k < 0.6:
        body = dsum()
    elif k < 0.85:
        body = E.Op("/", g.polyexpr([x, x], 2), g.polyexpr([x, x], 2))
    else:
        body = E.Op(rnd.choice(["+", "-", "*"]), E.Op("/", g.polyexpr([x], 1), g.polyexpr([x, x], 1)), dsum())
    k = rnd.random()
    if k < 0.15:       # constant factors of either sign, inside and outside a reciprocal
        body = E.Op("/", E.Const(1), E.Op(rnd.choice(["*", "/"]), body, E.Const(rnd.choice([-3, -1, 2, Fraction(-1, 2)]))))
    elif k < 0.3:
        body = E.Op("*", E.Const(rnd.choice([-2, -1, 3])), body)
    elif k < 0.4:
        body = E.Op(rnd.choice(["*", "/"]), E.Op("^", E.Var(x), E.Const(rnd.choice([1, 2]))), body)
    elif k < 0.45:
        body = E.Op("-", body)
    if rnd.random() < 0.15:
        body = E.Op("+", body, E.Var("a"))
    e = E.Limit(x, E.POS_INF, body)
    name = rnd.choice(["ReduceLimit", "FullSimplify", "Sub:ReduceLimit"])
    apply_rule(out, "rand", name, [], [], enc(e), [], {"fam": "lim"})


def mode_limits(outp, n, seed):
    rnd = random.Random(seed * 104729 + 7)
    g = Gen(rnd)
    out = Out(outp)
    for i in range(n):
        rand_limit(out, rnd, g)
    out.close()


def mode_rand(outp, n, seed):
    rnd = random.Random(seed * 7919 + 19)
    g = Gen(rnd)
    out = Out(outp)
    mode_directed(out)
    for i in range(n // 3):
        rand_history(out, rnd, g)
        rand_ident(out, rnd)
        rand_limit(out, rnd, g)
    for i in range(n):
        params = rnd.choice([[], [], ["a"], ["a"], ["a", "b"]])
        conds = []
        if params and rnd.random() < 0.4:
            p = rnd.choice(params)
            c = rnd.choice([E.Op(">", E.Var(p), E.Const(0)), E.Op("!=", E.Var(p), E.Const(0)), E.Op(">", E.Var(p), E.Const(-1)),
                            E.Op("<", E.Var(p), E.Const(0))])
            conds = [enc(c)]
        if i % 6 == 5:
            e, u, v = ibp_instance(rnd, g, params)
            apply_rule(out, "rand", "IntegrationByParts", [], [enc(u), enc(v)], enc(e), conds)
            continue
        e = g.frag(params)
        e_j = enc(e)
        if i % 3 == 0:
            norm_event(out, "rand", e_j, conds)
        cands = rule_choices(rnd, g, e, params)
        cur_j = e_j
        for step in range(rnd.choice([1, 1, 2, 3])):
            name, ps, pe = rnd.choice(cands)
            if step == 0 and e.ty == E.DERIV and e.body.ty == E.INTEGRAL and rnd.random() < 0.6:
                name, ps, pe = "DerivIntExchange", [], []
            elif step == 0 and e.ty == E.DERIV and rnd.random() < 0.7:
                name, ps, pe = "DerivativeSimplify", [], []
            elif step == 0 and e.ty == E.INTEGRAL and e.body.ty == E.DERIV and rnd.random() < 0.7:
                name, ps, pe = "DerivIntExchange", [], []
            elif step == 0 and e.ty == E.INTEGRAL and e.body.ty == E.SUMMATION and rnd.random() < 0.7:
                name, ps, pe = "IntSumExchange", [], []
            elif step == 0 and e.ty == E.INDEFINITEINTEGRAL and rnd.random() < 0.6:
                name, ps, pe = "IndefiniteIntegralIdentity", [], []
            elif rnd.random() < 0.15:
                name, ps, pe = "FullSimplify", [], []
            ev = apply_rule(out, "rand", name, ps, [enc(p) for p in pe], cur_j, conds, {"step": step})
            if not ev or ev.get("outcome") != "ok":
                break
            cur_j = ev["r"]
            if rnd.random() < 0.3:
                norm_event(out, "rand", cur_j, conds)
            try:
                cands = rule_choices(rnd, g, dec(cur_j), params)
            except Exception:
                break
    # structural clauses on all expression forms
    for i in range(n):
        e = g.anyexpr(rnd.choice([1, 2, 2, 3, 3, 4]))
        if i % 10 == 9:      # a comparison (only at the top: conditions and goals are such expressions)
            e = E.Op(rnd.choice(["=", "<", "<=", ">", ">=", "!="]), e, g.anyexpr(rnd.choice([1, 2])))
        pp_event(out, "rand", e)
        if i % 2 == 0:
            norm_event(out, "rand-any", enc(e), [])
    out.close()


# ------------------------------------------------------------------------------------------------ recorded example calculations
def book_of(exdir):
    """file name -> book that lists it (context.load_book(book, upto=name))"""
    res = {}
    for book in ("base", "tongji", "UCDavis", "MIT", "interesting"):
        p = os.path.join(exdir, book + ".json")
        if not os.path.exists(p):
            continue
        for item in json.load(open(p, encoding="utf-8")).get("content", []):
            if "path" in item:
                res.setdefault(item["path"], book)
    return res


def calcs_of(item, acc):
    """all compstate.Calculation objects below a parsed StateItem"""
    if isinstance(item, compstate.Calculation):
        acc.append(item)
    elif isinstance(item, compstate.Goal):
        if item.proof is not None:
            calcs_of(item.proof, acc)
        for g in item.sub_goals:
            calcs_of(g, acc)
    elif isinstance(item, compstate.CalculationProof):
        calcs_of(item.lhs_calc, acc)
        calcs_of(item.rhs_calc, acc)
    elif isinstance(item, compstate.InductionProof):
        calcs_of(item.base_case, acc)
        calcs_of(item.induct_case, acc)
    elif isinstance(item, compstate.CaseProof):
        calcs_of(item.case_1, acc)
        calcs_of(item.case_2, acc)
    elif isinstance(item, compstate.RewriteGoalProof):
        calcs_of(item.begin, acc)
    return acc


def rule_desc(rule):
    try:
        d = rule.export()
    except Exception:
        return type(rule).__name__, {}
    return d.get("name", type(rule).__name__), {k: v for k, v in d.items() if k not in ("str", "latex_str", "name")}


def mode_examples(outp, only=None, out=None):
    own = out is None
    out = out or Out(outp)
    exdir = os.path.join(os.path.dirname(compstate.__file__), "examples")
    books = book_of(exdir)
    stats = {"files": 0, "files_failed": 0, "steps": 0}
    for fn in sorted(os.listdir(exdir)):
        if not fn.endswith(".json") or fn in ("index.json",):
            continue
        name = fn[:-5]
        if only is not None and name != only:
            continue
        try:
            data = json.load(open(os.path.join(exdir, fn), encoding="utf-8"))
        except Exception:
            continue
        if name in ("base", "tongji", "UCDavis", "MIT", "interesting") or "content" not in data:
            continue
        stats["files"] += 1
        try:
            file = quiet(compstate.CompFile, books.get(name, "base"), name)
        except Exception:
            stats["files_failed"] += 1
            continue
        for idx, item in enumerate(data["content"]):
            try:
                st = quiet(compstate.parse_item, file, json.loads(json.dumps(item)))
                file.add_item(st)
            except Exception as ex:
                out.emit({"kind": "exload", "src": "ex:" + name, "key": "exload:%s:%d" % (name, idx), "exc": type(ex).__name__})
                continue
            for ci, calc in enumerate(calcs_of(st, [])):
                prev = calc.start
                for si, step in enumerate(calc.steps):
                    stats["steps"] += 1
                    rname, rparams = rule_desc(step.rule)
                    # the context perform_rule would build
                    ctx = Context(calc.ctx)
                    for s2 in calc.steps[:si]:
                        try:
                            ctx.extend_substs(s2.rule.get_substs())
                        except Exception:
                            pass
                    try:
                        conds_j = [enc(c) for c in ctx.get_conds().data]
                    except Exception:
                        conds_j = []
                    e_j = enc(prev)
                    ev = {"kind": "rule", "src": "ex:" + name, "rule": rname, "base": rname, "ps": [json.dumps(rparams, sort_keys=True)[:300]], "pe": [],
                          "conds": conds_j, "e": e_j, "text": _safe_str(prev)[:500], "rec": enc(step.res),
                          "key": "ex:%s:%d.%d.%d:%s" % (name, idx, ci, si, rname)}
                    # parse_item made a fresh Rule object for this step; it is evaluated exactly once, on a fresh copy of the
                    # recorded predecessor (IntegrationByParts assigns to e.body)
                    run_rule(out, ev, step.rule, dec_or_same(prev), ctx)
                    prev = step.res
    out.emit({"kind": "exstats", "src": "ex", "key": "exstats", "stats": [stats["files"], stats["files_failed"], stats["steps"]]})
    if own:
        out.close()


# ------------------------------------------------------------------------------------------------ re-execution of recorded events
def mode_event(inp, outp):
    """Re-run recorded events (replay files) against the current code from their recorded inputs."""
    out = Out(outp)
    for ln in open(inp):
        ln = ln.strip()
        if not ln:
            continue
        e = json.loads(ln)
        if e["kind"] == "rule" and str(e.get("src", "")).startswith("ex:"):
            tmp = Out(outp + ".ex")
            mode_examples(None, only=e["src"][3:], out=tmp)
            tmp.close()
            for l2 in open(outp + ".ex"):
                e2 = json.loads(l2)
                if e2.get("key") == e["key"]:
                    out.emit(e2)
        elif e["kind"] == "rule" and "prefix" in e:
            steps = list(e["prefix"]) + [{"e": e["e"], "rule": e["rule"], "ps": e["ps"], "pe": e["pe"]}]
            run_history(out, e.get("src", "replay"), e.get("fam", "hist"), e["conds"], steps, e.get("shared", False), e.get("book", "base"),
                        e.get("idents", []), emit_from=len(steps) - 1)
        elif e["kind"] == "rule":
            apply_rule(out, e.get("src", "replay"), e["rule"], e["ps"], e["pe"], e["e"], e["conds"])
        elif e["kind"] == "norm":
            norm_event(out, e.get("src", "replay"), e["e"], e["conds"])
        elif e["kind"] == "pp":
            try:
                pp_event(out, e.get("src", "replay"), dec(e["e"]))
            except Exception:
                out.emit(e)
        else:
            out.emit(e)
    out.close()


def dec_or_same(e):
    """a fresh copy of the recorded expression"""
    try:
        return dec(enc(e))
    except Exception:
        return e


def main(argv):
    mode = argv[0]
    if mode == "replay":
        mode_replay(argv[1], argv[2])
    elif mode == "rand":
        mode_rand(argv[1], int(argv[2]), int(argv[3]))
    elif mode == "limits":
        mode_limits(argv[1], int(argv[2]), int(argv[3]))
    elif mode == "examples":
        mode_examples(argv[1])
    elif mode == "event":
        mode_event(argv[1], argv[2])
    else:
        raise SystemExit("unknown mode " + mode)


if __name__ == "__main__":
    main(sys.argv[1:])
