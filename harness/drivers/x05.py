"""X05 driver: the Flask application of app/ide.py driven through app.test_client() on scratch user directories.

usage:  python -m harness.drivers.x05 replay   <vectors.json> <out.ndjson> <scratch dir> <seed>
        python -m harness.drivers.x05 sessions <spec.json>    <out.ndjson> <scratch dir> <seed>
        python -m harness.drivers.x05 oracle   <questions.json> <out.json> <scratch dir>
        python -m harness.drivers.x05 alphabet <out.json>            (contents of the small world: declarations for the trace spec)

replay    behaviours of spec/X05_Ide.tla (abstract requests over the small world: base / t1 / t2, lemma la, steps sI sLa sBad),
          one fresh pair of users per behaviour; every multi-user behaviour is also run once per user WITHOUT the other
          user's requests (solo twin).
sessions  seeded longer sessions on copies of library files: recorded proofs replayed through apply-method step by step with
          failing steps, searches, jumps, saves and removals, a second user's requests in between; solo twins as above.
oracle    the LOWER layers called directly in this (fresh) process for questions (world, request) collected from the events:
          items.parse_edit, server.parse_init_state, ProofState.parse_steps / search_method, method.apply_method.
One event per request: the request (abstract labels + digest), HTTP status, projected answer (+ digest), the projected content
of every user directory after the request.  No verdict is computed here.
Nothing under the repository is written: logic/basic.py resolves `library/` and `users/` relative to its `dirname`; it is pointed
at the scratch directory (and the two path helpers are checked to resolve there before the first request).
"""
import contextlib
import copy
import hashlib
import io
import json
import os
import random
import shutil
import signal
import sys
import time
import types

# --------------------------------------------------------------------------------------------------------------------
# the small world (alphabet of spec/X05_Ide.tla)
# --------------------------------------------------------------------------------------------------------------------
BOOL2 = {"A": "bool", "B": "bool"}


def thm_ax(name, prop, vars_, attrs=None):
    d = {"name": name, "prop": prop, "ty": "thm.ax", "vars": vars_}
    if attrs:
        d["attributes"] = attrs
    return d


BASE = {"name": "base", "imports": [], "description": "", "content": [
    {"name": "conj", "ty": "def.ax", "type": "bool ⇒ bool ⇒ bool"},
    {"name": "disj", "ty": "def.ax", "type": "bool ⇒ bool ⇒ bool"},
    {"name": "neg", "ty": "def.ax", "type": "bool ⇒ bool"},
    {"name": "true", "ty": "def.ax", "type": "bool"},
    {"name": "false", "ty": "def.ax", "type": "bool"},
    thm_ax("conjI", "A ⟶ B ⟶ A ∧ B", BOOL2, ["hint_backward"]),
    thm_ax("conjD1", "A ∧ B ⟶ A", BOOL2, ["hint_backward1", "hint_forward"]),
    thm_ax("conjD2", "A ∧ B ⟶ B", BOOL2, ["hint_backward1", "hint_forward"]),
    thm_ax("disjI1", "A ⟶ A ∨ B", BOOL2, ["hint_backward"]),
    thm_ax("disjI2", "B ⟶ A ∨ B", BOOL2, ["hint_backward"]),
]}
LA = {"attributes": ["hint_forward"], "name": "la", "prop": "A ∧ B ⟶ B", "ty": "thm", "vars": BOOL2}
LA2 = {"attributes": ["hint_forward"], "name": "la", "prop": "C ∧ A ⟶ A", "ty": "thm", "vars": {"A": "bool", "C": "bool"}}
LB = {"name": "lb", "prop": "A ∧ B ⟶ B ∧ A", "ty": "thm", "vars": BOOL2}
LC = {"name": "lc", "prop": "A ∧ B ⟶ B ∧ A", "ty": "thm", "vars": BOOL2}


def theory_file(name, imports, items):
    return {"name": name, "imports": imports, "description": "", "content": items}


CONTENT = {
    "base": BASE,
    "zreset": theory_file("zreset", [], []),
    "c1": theory_file("t1", ["base"], [LA, LB]),
    "c2": theory_file("t1", ["base"], [LB]),
    "c3": theory_file("t1", ["base"], [LA2, LB]),
    "d1": theory_file("t2", ["base", "t1"], [LC]),
    "d2": theory_file("t2", ["base"], [LC]),
}
EDIT = {
    "good": {"ty": "thm", "name": "la", "vars": "A :: bool\nC :: bool", "prop": "C ∧ A ⟶ A", "attributes": ["hint_forward"]},
    "bad": {"ty": "thm", "name": "la", "vars": "A :: bool\nB :: bool", "prop": "A ∧ ∧ B", "attributes": []},
}
EDIT_SAVED = {"good": LA2}
STEP = {
    "sI": {"method_name": "apply_backward_step", "theorem": "conjI", "goal_id": "1", "fact_ids": []},
    "sLa": {"method_name": "apply_backward_step", "theorem": "la", "goal_id": "1", "fact_ids": ["0"]},
    "sBad": {"method_name": "apply_backward_step", "theorem": "nosuch", "goal_id": "1", "fact_ids": []},
}
THM = {"t1": LB, "t2": LC}
SMALL_WORLD = {"master": {"base": "base", "t1": "c1", "zreset": "zreset"}, "ua": {"base": "base", "t1": "c1"}, "ub": {"base": "base", "t1": "c1"}}


def canon(obj):
    return json.dumps(obj, sort_keys=True, ensure_ascii=False, separators=(",", ":"))


def dig(obj):
    return hashlib.sha1(canon(obj).encode("utf-8")).hexdigest()[:16]


def strip_keys(obj, keys):
    if isinstance(obj, dict):
        return {k: strip_keys(v, keys) for k, v in obj.items() if k not in keys}
    if isinstance(obj, list):
        return [strip_keys(v, keys) for v in obj]
    return obj


def stored_item(item):
    """an item as the front end stores it (Theory.vue save_json_file): without error / display / edit / ext"""
    return {k: v for k, v in item.items() if k not in ("error", "display", "edit", "ext")}


def declaration(cid, data):
    items = [it for it in data.get("content", [])]
    return {"kind": "decl", "cid": cid, "name": data.get("name", ""), "imports": list(data.get("imports", [])),
            "items": [str(it.get("name", "")) for it in items], "itemdigs": [dig(stored_item(it)) for it in items]}


# --------------------------------------------------------------------------------------------------------------------
# the server process
# --------------------------------------------------------------------------------------------------------------------
class Timeout(Exception):
    pass


class Server:
    """The real application on a scratch root; requests go through the test client (no socket)."""

    def __init__(self, root, master_files):
        self.root = os.path.abspath(root)
        repo = os.getcwd()
        for d in ("logic", "library", "users"):
            os.makedirs(os.path.join(self.root, d), exist_ok=True)
        for fname, data in master_files.items():
            self.write(os.path.join(self.root, "library"), fname, data)
        m = types.ModuleType("smt")
        m.__path__ = [os.path.join(repo, "smt")]
        sys.modules["smt"] = m
        import flask.json
        if not hasattr(flask.json, "JSONEncoder"):
            flask.json.JSONEncoder = json.JSONEncoder          # Flask >= 2.3 dropped it; app/app.py still subclasses it
        from logic import basic
        self.basic = basic
        # path resolution only: the helpers join `dirname` with ../library and ../users
        if hasattr(basic, "dirname"):
            basic.dirname = os.path.join(self.root, "logic")
        self.check_paths()
        self.watch = self.repo_listing(repo)
        self.repo = repo
        with contextlib.redirect_stdout(io.StringIO()), contextlib.redirect_stderr(io.StringIO()):
            import app as application                       # app/__init__.py: creates the Flask object and registers the routes
        self.app = application.app
        self.client = self.app.test_client()
        self.last_exc = None
        try:
            from flask import got_request_exception
            got_request_exception.connect(self._on_exc, self.app)
        except Exception:  # noqa
            pass
        self.check_paths()

    def _on_exc(self, sender, exception=None, **kw):
        self.last_exc = exception

    def check_paths(self):
        basic = self.basic
        ok = True
        try:
            for u in ("master", "verif_probe_user"):
                p1 = os.path.realpath(basic.user_file("verif_probe", u))
                p2 = os.path.realpath(basic.user_dir(u))
                ok = ok and p1.startswith(self.root + os.sep) and (p2 + os.sep).startswith(self.root + os.sep)
        except Exception:  # noqa
            ok = False
        if not ok:
            # the helpers do not follow `dirname` (refactored): replace the helpers themselves
            root = self.root

            def user_dir(username="master"):
                assert username, "user_dir: empty username."
                return os.path.join(root, "library/") if username == "master" else os.path.join(root, "users", username)

            def user_file(filename, username="master"):
                assert username, "user_file: empty username."
                return os.path.join(user_dir(username), filename + ".json")
            basic.user_dir, basic.user_file = user_dir, user_file

    @staticmethod
    def repo_listing(repo):
        out = []
        for d in ("library", "users"):
            p = os.path.join(repo, d)
            if os.path.isdir(p):
                for fn in sorted(os.listdir(p)):
                    try:
                        st = os.stat(os.path.join(p, fn))
                        out.append((d, fn, st.st_mtime_ns, st.st_size))
                    except OSError:
                        pass
        return out

    def repo_untouched(self):
        return self.repo_listing(self.repo) == self.watch

    # ---- scratch files (the ENVIRONMENT: what is on disk before a session starts)
    @staticmethod
    def write(d, fname, data):
        os.makedirs(d, exist_ok=True)
        with open(os.path.join(d, fname + ".json"), "w", encoding="utf-8") as f:
            f.write(json.dumps(data, indent=4, ensure_ascii=False, sort_keys=True))

    def user_path(self, username):
        return os.path.join(self.root, "library") if username == "master" else os.path.join(self.root, "users", username)

    def make_user(self, username, files):
        d = self.user_path(username)
        shutil.rmtree(d, ignore_errors=True)
        for fname, data in files.items():
            self.write(d, fname, data)

    def bump_mtime(self, username, fname, clock):
        """file-system assumption of the check: every save gets a modification time later than all earlier ones"""
        p = os.path.join(self.user_path(username), fname + ".json")
        if os.path.exists(p):
            os.utime(p, (clock, clock))

    def snapshot(self, username):
        """{file name: parsed JSON or None} of a user directory"""
        d = self.user_path(username)
        out = {}
        if os.path.isdir(d):
            for fn in sorted(os.listdir(d)):
                if fn.endswith(".json"):
                    try:
                        with open(os.path.join(d, fn), encoding="utf-8") as f:
                            out[fn[:-5]] = json.load(f)
                    except Exception:  # noqa
                        out[fn[:-5]] = None
                else:
                    out["?" + fn] = None
        return out

    # ---- one request
    def request(self, route, payload, method="post", limit_s=60):
        self.last_exc = None

        def on_alarm(signum, frame):
            raise Timeout("request ran for more than %d s" % limit_s)
        old = signal.signal(signal.SIGALRM, on_alarm)
        signal.setitimer(signal.ITIMER_REAL, limit_s)
        t0 = time.time()
        status, body, exc = 0, None, ""
        try:
            with contextlib.redirect_stdout(io.StringIO()), contextlib.redirect_stderr(io.StringIO()):
                r = getattr(self.client, method)("/api/" + route, data=json.dumps(payload))
            status = r.status_code
            try:
                body = json.loads(r.get_data().decode("utf-8"))
            except Exception:  # noqa
                body = None
        except BaseException as e:  # noqa  (an exception that escapes Flask: the server would have died)
            status, exc = 599, type(e).__name__
        finally:
            signal.setitimer(signal.ITIMER_REAL, 0)
            signal.signal(signal.SIGALRM, old)
        if self.last_exc is not None and not exc:
            exc = type(self.last_exc).__name__ + ": " + str(self.last_exc)[:160]
        return status, body, exc, time.time() - t0


# --------------------------------------------------------------------------------------------------------------------
# projection of answers
# --------------------------------------------------------------------------------------------------------------------
def is_error_answer(body):
    return isinstance(body, dict) and "error" in body and "state" not in body and "item" not in body and "content" not in body


def project(op, status, body):
    """(kind, ans) - ans holds only JSON-friendly abstract fields; `adig` is the digest of everything that is compared"""
    if status >= 500:
        return "500", {}
    if status != 200 or not isinstance(body, dict):
        return "http", {"status": status}
    if is_error_answer(body):
        return "err", {}
    body = strip_keys(body, ("trace",))
    if op == "find":
        th = body.get("theories")
        if not isinstance(th, list):
            return "other", {}
        return "files", {"fs": [str(x) for x in th]}
    if op == "load":
        if not isinstance(body.get("content"), list):
            return "other", {}
        items = [it for it in body["content"] if isinstance(it, dict)]
        return "theory", {"name": str(body.get("name")), "imports": [str(x) for x in body.get("imports", [])],
                          "items": [str(it.get("name", "")) for it in items], "itemdigs": [dig(stored_item(it)) for it in items],
                          "full": dig(body)}
    if op in ("save", "remove"):
        return "ok", {}
    if op == "check":
        it = body.get("item")
        if not isinstance(it, dict):
            return "other", {}
        return "item", {"itemerr": "error" in it, "saved": dig(stored_item(it)), "full": dig(body)}
    if op in ("init", "reinit", "initbad", "apply"):
        if "query" in body and "state" not in body:
            return "query", {"full": dig(body)}
        st, hist = body.get("state"), body.get("history")
        if not isinstance(st, dict) or not isinstance(hist, list):
            return "other", {}
        return "proof", {"flags": [not (isinstance(h, dict) and "error" in h) for h in hist], "gaps": int(st.get("num_gaps", -1)),
                         "nlines": len(st.get("proof", [])), "checkerr": "error" in body, "full": dig(body)}
    if op == "search":
        res = body.get("search_res")
        if not isinstance(res, list):
            return "other", {}
        return "sugg", {"thms": sorted({str(r.get("theorem")) for r in res if isinstance(r, dict) and "theorem" in r}),
                        "n": len(res), "full": dig(body)}
    return "other", {}


ROUTE = {"find": ("find-files", "post"), "load": ("load-json-file", "post"), "save": ("save-file", "post"),
         "remove": ("remove-file", "put"), "check": ("check-modify", "post"), "init": ("init-saved-proof", "post"),
         "reinit": ("init-saved-proof", "post"), "initbad": ("init-saved-proof", "post"), "apply": ("apply-method", "post"), "search": ("search-method", "post")}
ORACLE_OPS = ("check", "init", "reinit", "initbad", "apply", "search")


# --------------------------------------------------------------------------------------------------------------------
# running sessions
# --------------------------------------------------------------------------------------------------------------------
class Runner:
    def __init__(self, server, out, contents):
        self.srv = server
        self.out = out
        self.contents = dict(contents)                  # cid -> JSON
        self.by_digest = {dig(v): k for k, v in self.contents.items()}
        self.extra_contents = {}                        # contents met on disk that are not in the alphabet
        self.tid = 0
        self.clock = int(time.time()) + 1000
        self.nsess = 0
        self.questions = {}
        self.prelude_ok = True

    def cid_of(self, data):
        if data is None:
            return "unreadable"
        d = dig(data)
        if d in self.by_digest:
            return self.by_digest[d]
        self.extra_contents["x:" + d] = data
        return "x:" + d

    def disk(self, names):
        out = []
        for alias, username in names.items():
            for fname, data in self.srv.snapshot(username).items():
                out.append([alias, fname, self.cid_of(data)])
        return out

    def emit(self, ev):
        self.tid += 1
        ev["tid"] = self.tid
        self.out.write(json.dumps(ev, separators=(",", ":"), ensure_ascii=False) + "\n")

    def start(self, sid, fam, world, extra=None):
        """fresh users with the given files; returns alias -> username"""
        self.nsess += 1
        names = {"master": "master"}
        for alias, files in world.items():
            if alias == "master":
                continue
            username = "%s%s" % (sid, alias)
            names[alias] = username
            self.srv.make_user(username, {f: self.contents[c] for f, c in files.items()})
        # a fixed first request (not an event): whatever the previous session left in the process-wide theory is replaced
        self.srv.request("load-json-file", {"username": "master", "filename": "zreset", "profile": False, "line_length": 80})
        st, body, _, _ = self.srv.request("init-saved-proof", {"username": "master", "profile": False, "theory_name": "zreset", "thm_name": "",
                                                                "vars": {"A": "bool"}, "prop": "A ⟶ A", "steps": [], "index": 0})
        self.prelude_ok = self.prelude_ok and st == 200 and isinstance(body, dict) and "state" in body
        ev = {"kind": "start", "sid": sid, "fam": fam, "disk": self.disk(names), "key": "start %s" % sid}
        if extra:
            ev.update(extra)
        self.emit(ev)
        return names

    def do(self, sid, fam, k, names, req, hist_labels):
        """req: {u, op, f?, payload (with "username": alias placeholder), labels...}"""
        alias = req["u"]
        payload = copy.deepcopy(req["payload"])
        payload["username"] = names[alias]
        before = self.srv.snapshot(names[alias])
        world = sorted([f, self.cid_of(d)] for f, d in before.items())
        route, method = ROUTE[req["op"]]
        status, body, exc, secs = self.srv.request(route, payload, method)
        if req["op"] == "save":
            self.clock += 10
            self.srv.bump_mtime(names[alias], str(req.get("f")), self.clock)
        kind, ans = project(req["op"], status, body)
        rq = dig([req["op"], req["payload"]])
        ev = {"kind": "req", "sid": sid, "fam": fam, "k": k, "u": alias, "op": req["op"], "f": str(req.get("f", "-")),
              "c": str(req.get("c", "-")), "rq": rq, "status": status, "rkind": kind, "ans": ans, "adig": dig([kind, ans]),
              "exc": exc, "world": world, "disk": self.disk(names), "secs": round(secs, 3),
              "sess": str(req.get("sess", "-")), "expect_saved": str(req.get("expect_saved", "")),
              "label": req.get("label", ""), "key": "%s | %s" % (" ; ".join(hist_labels), req.get("label", req["op"]))}
        if "exp" in req:
            ev["exp"] = req["exp"]
        if req["op"] in ORACLE_OPS:
            q = {"op": req["op"], "world": {f: c for f, c in world}, "payload": req["payload"]}
            ev["q"] = dig(q)
            self.questions[ev["q"]] = q
        self.emit(ev)
        return ev, body


def concretize(r):
    """abstract request of spec/X05_Ide.tla -> request descriptor"""
    op, u, f = r["req"]["op"], r["req"]["u"], r["req"]["f"]
    steps = list(r.get("steps", []))
    lab = {"find": "find(%s)" % u, "load": "load(%s,%s)" % (u, f), "save": "save(%s,%s,%s)" % (u, f, r["req"]["c"]),
           "remove": "remove(%s,%s)" % (u, f), "check": "check(%s,%s)" % (u, r["req"]["e"]), "init": "init(%s,%s)" % (u, f),
           "initbad": "initbad(%s,%s)" % (u, f),
           "reinit": "reinit(%s,%s,%s)" % (u, f, "".join(steps)), "apply": "apply(%s,%s,%s+%s)" % (u, f, "".join(steps), r["req"]["s"]),
           "search": "search(%s,%s,%s)" % (u, f, "".join(steps))}[op]
    d = {"u": u, "op": op, "f": f, "label": lab}
    if op == "find":
        d["payload"] = {"username": u}
    elif op == "load":
        d["payload"] = {"username": u, "filename": f, "profile": False, "line_length": 80}
    elif op == "save":
        d["c"] = r["req"]["c"]
        d["payload"] = {"username": u, "filename": f, "content": CONTENT[r["req"]["c"]]}
    elif op == "remove":
        d["payload"] = {"username": u, "filename": f}
    elif op == "check":
        e = r["req"]["e"]
        d["payload"] = {"username": u, "filename": f, "line_length": 80, "limit_ty": "thm", "limit_name": "la", "item": copy.deepcopy(EDIT[e])}
        d["expect_saved"] = dig(EDIT_SAVED[e]) if e in EDIT_SAVED else ""
    else:
        thm = THM[f]
        p = {"username": u, "profile": False, "theory_name": f, "thm_name": thm["name"], "vars": thm["vars"], "prop": thm["prop"],
             "steps": [STEP[s] for s in steps], "index": len(steps)}
        d["sess"] = dig([f, thm["name"], steps])
        if op == "initbad":
            p["prop"] = "A ∧ ∧ B"
            d["sess"] = dig([f, thm["name"], steps, "bad"])
        if op == "apply":
            p["step"] = STEP[r["req"]["s"]]
        elif op == "search":
            # the search is asked on the stated goal (index 0) with the assumption as fact: la is among the suggestions iff visible
            p["index"] = 0
            p["step"] = {"goal_id": "1", "fact_ids": ["0"]}
        d["payload"] = p
    return d


def solo_projections(reqs):
    users = []
    for r in reqs:
        if r["u"] not in users:
            users.append(r["u"])
    if len(users) < 2:
        return []
    return [(u, [r for r in reqs if r["u"] == u]) for u in users]


def run_script(runner, sid, fam, world, reqs, extra=None):
    names = runner.start(sid, fam, world, extra)
    labels = []
    for k, r in enumerate(reqs, 1):
        runner.do(sid, fam, k, names, r, labels)
        labels.append(r.get("label", r["op"]))


def mode_replay(vec_path, out_path, scratch, seed):
    vecs = json.load(open(vec_path))
    srv = Server(scratch, {f: CONTENT[c] for f, c in SMALL_WORLD["master"].items()})
    runner = Runner(srv, open(out_path, "w", encoding="utf-8"), CONTENT)
    for cid, data in CONTENT.items():
        runner.emit(declaration(cid, data))
    for v in vecs:
        reqs = []
        for st in v["steps"]:
            d = concretize(st)
            exp = dict(st.get("exp", {}))
            d["exp"] = {"k": exp.get("k", "none"), "fs": sorted(exp.get("fs", [])), "seq": list(exp.get("seq", [])), "flags": list(exp.get("flags", [])),
                        "files": sorted([u, f, c] for u, fs in st.get("files", {}).items() for f, c in fs.items() if c != "none")}
            reqs.append(d)
        sid = "v%d" % v["vid"]
        run_script(runner, sid, v["fam"], SMALL_WORLD, reqs)
        for u, sub in solo_projections(reqs):
            sub = [{k: x for k, x in r.items() if k != "exp"} for r in sub]
            run_script(runner, "%sx%s" % (sid, u), v["fam"] + "/solo", SMALL_WORLD, sub, {"solo_of": sid, "solo_user": u})
    finish(runner, out_path)


def finish(runner, out_path):
    for cid, data in runner.extra_contents.items():
        if data is not None:
            runner.emit(declaration(cid, data))
    runner.emit({"kind": "end", "repo_untouched": runner.srv.repo_untouched(), "sessions": runner.nsess, "prelude_ok": runner.prelude_ok, "key": "end"})
    runner.out.close()
    side = {"questions": runner.questions, "contents": {**{k: v for k, v in runner.contents.items()}, **runner.extra_contents}}
    with open(out_path + ".questions.json", "w", encoding="utf-8") as f:
        json.dump(side, f, ensure_ascii=False)


# --------------------------------------------------------------------------------------------------------------------
# seeded longer sessions on library files
# --------------------------------------------------------------------------------------------------------------------
def slim(data, keep_proofs_of=()):
    """a library file without the stored low-level proofs (they are not parsed by the loader; the files stay small)"""
    out = dict(data)
    out["content"] = []
    for it in data["content"]:
        it = dict(it)
        if it.get("name") not in keep_proofs_of:
            it.pop("proof", None)
        out["content"].append(it)
    return out


def mutate_step(rnd, step):
    s = copy.deepcopy(step)
    c = rnd.randrange(4)
    if c == 0 and "theorem" in s:
        s["theorem"] = "verif_no_such_theorem"
    elif c == 1:
        s["goal_id"] = "77"
    elif c == 2:
        s["method_name"] = "cut"
        s["goal"] = "A ∧ ∧"
    else:
        s["fact_ids"] = [s["goal_id"]]
    return s


def mode_sessions(spec_path, out_path, scratch, seed):
    spec = json.load(open(spec_path))
    rnd = random.Random(int(seed))
    lib = {}
    for th in spec["theories"]:
        with open(os.path.join("library", th + ".json"), encoding="utf-8") as f:
            lib[th] = slim(json.load(f))
    contents = {"lib:" + th: d for th, d in lib.items()}
    contents["zreset"] = CONTENT["zreset"]
    # variants that sessions save: the same file without its last theorem / with an extra (unused) axiom in front of the theorems
    srv = Server(scratch, {**{th: lib[th] for th in spec["theories"]}, "zreset": CONTENT["zreset"]})
    runner = Runner(srv, open(out_path, "w", encoding="utf-8"), contents)
    world = {a: {th: "lib:" + th for th in spec["theories"]} for a in ("master", "ua", "ub")}
    world["master"]["zreset"] = "zreset"
    targets = []
    for th in spec["theories"]:
        for idx, it in enumerate(lib[th]["content"]):
            if it.get("ty") == "thm" and it.get("steps") and 1 <= len(it["steps"]) <= spec.get("max_steps", 12):
                # theorems of the first theory need the theory itself to be complete (see C13): take them from later theories only
                if lib[th]["imports"]:
                    targets.append((th, idx))
    rnd.shuffle(targets)
    variants = {}

    def variant(th, how, thm_name):
        key = (th, how, thm_name)
        if key in variants:
            return variants[key]
        d = copy.deepcopy(lib[th])
        names = [it.get("name") for it in d["content"]]
        at = names.index(thm_name)
        if how == "drop_earlier":          # remove the nearest earlier theorem: a recorded step may need it
            for j in range(at - 1, -1, -1):
                if d["content"][j].get("ty") in ("thm", "thm.ax"):
                    del d["content"][j]
                    break
        elif how == "extra_axiom":
            d["content"].insert(at, {"name": "verif_extra_" + thm_name, "prop": "A ⟶ A", "ty": "thm.ax", "vars": {"A": "bool"}})
        elif how == "drop_import":
            d["imports"] = d["imports"][:-1]
        if dig(d) in runner.by_digest:                 # nothing to drop: the variant IS a content that already has a name
            variants[key] = runner.by_digest[dig(d)]
            return variants[key]
        cid = "var:%s:%s:%s" % (th, how, thm_name)
        variants[key] = cid
        runner.contents[cid] = d
        runner.by_digest[dig(d)] = cid
        return cid
    nsess = int(spec["sessions"])
    pending_decl = []
    for cid, data in contents.items():
        runner.emit(declaration(cid, data))
    for n in range(nsess):
        th, idx = targets[n % len(targets)]
        item = lib[th]["content"][idx]
        other = targets[rnd.randrange(len(targets))]
        oitem = lib[other[0]]["content"][other[1]]
        sid = "L%d" % n
        # the variants this session may save are declared before the session starts
        vcs = [variant(th, how, item["name"]) for how in ("drop_earlier", "extra_axiom")]
        for cid in vcs:
            if cid not in pending_decl:
                pending_decl.append(cid)
                runner.emit(declaration(cid, runner.contents[cid]))
        names = runner.start(sid, "lib", world)
        labels, done = [], []
        k = 0

        def send(req):
            nonlocal k
            k += 1
            ev, body = runner.do(sid, "lib", k, names, req, labels)
            labels.append(req["label"])
            done.append(req)
            return ev, body

        def proof_payload(u, thn, it, steps, index):
            return {"username": u, "profile": False, "theory_name": thn, "thm_name": it["name"], "vars": it["vars"], "prop": it["prop"],
                    "steps": steps, "index": index}

        def sess_of(thn, it, steps):
            return dig([thn, it["name"], steps])
        steps = []
        send({"u": "ua", "op": "init", "f": th, "label": "init(ua,%s.%s)" % (th, item["name"]), "sess": sess_of(th, item, steps),
              "payload": proof_payload("ua", th, item, [], 0)})
        osteps = []
        for si, step in enumerate(item["steps"]):
            # what happens between two steps of ua
            c = rnd.random()
            if c < 0.16:
                bad = mutate_step(rnd, step)
                p = proof_payload("ua", th, item, list(steps), len(steps))
                p["step"] = bad
                send({"u": "ua", "op": "apply", "f": th, "label": "apply(ua,bad#%d)" % si, "sess": sess_of(th, item, steps), "payload": p})
                send({"u": "ua", "op": "reinit", "f": th, "label": "reinit(ua,%d)" % len(steps), "sess": sess_of(th, item, steps),
                      "payload": proof_payload("ua", th, item, list(steps), len(steps))})
            elif c < 0.30:
                p = proof_payload("ua", th, item, list(steps), len(steps))
                p["step"] = {"goal_id": step["goal_id"], "fact_ids": list(step.get("fact_ids", []))}
                send({"u": "ua", "op": "search", "f": th, "label": "search(ua,#%d)" % si, "sess": sess_of(th, item, steps), "payload": p})
            elif c < 0.42:
                ot = other[0]
                send({"u": "ub", "op": "load", "f": ot, "label": "load(ub,%s)" % ot,
                      "payload": {"username": "ub", "filename": ot, "profile": False, "line_length": 80}})
            elif c < 0.54:
                if len(osteps) < len(oitem["steps"]):
                    p = proof_payload("ub", other[0], oitem, list(osteps), len(osteps))
                    p["step"] = oitem["steps"][len(osteps)]
                    ev, body = send({"u": "ub", "op": "apply", "f": other[0], "label": "apply(ub,%s#%d)" % (oitem["name"], len(osteps)),
                                     "sess": sess_of(other[0], oitem, osteps), "payload": p})
                    if ev["rkind"] == "proof":
                        osteps.append(oitem["steps"][len(osteps)])
            elif c < 0.62:
                cid = rnd.choice(vcs + ["lib:" + th])
                send({"u": "ua", "op": "save", "f": th, "c": cid, "label": "save(ua,%s,%s)" % (th, cid.split(":")[2] if cid.startswith("var") else "same"),
                      "payload": {"username": "ua", "filename": th, "content": runner.contents[cid]}})
                send({"u": "ua", "op": "reinit", "f": th, "label": "reinit(ua,%d)" % len(steps), "sess": sess_of(th, item, steps),
                      "payload": proof_payload("ua", th, item, list(steps), len(steps))})
            elif c < 0.68:
                j = rnd.randrange(len(steps) + 1)
                send({"u": "ua", "op": "reinit", "f": th, "label": "goto(ua,%d/%d)" % (j, len(steps)), "sess": sess_of(th, item, steps),
                      "payload": proof_payload("ua", th, item, list(steps), j)})
            elif c < 0.72:
                send({"u": "ub", "op": "save", "f": th, "c": vcs[0], "label": "save(ub,%s,drop_earlier)" % th,
                      "payload": {"username": "ub", "filename": th, "content": runner.contents[vcs[0]]}})
            elif c < 0.76:
                send({"u": "ua", "op": "find", "label": "find(ua)", "payload": {"username": "ua"}})
            elif c < 0.79:
                send({"u": "ua", "op": "load", "f": th, "label": "load(ua,%s)" % th,
                      "payload": {"username": "ua", "filename": th, "profile": False, "line_length": 80}})
            elif c < 0.83:
                # the same proof with a statement that does not parse, asked twice
                for _ in range(2):
                    p = proof_payload("ua", th, item, list(steps), len(steps))
                    p["prop"] = "A ∧ ∧ B"
                    send({"u": "ua", "op": "initbad", "f": th, "label": "initbad(ua,%d)" % len(steps), "sess": dig([th, item["name"], steps, "bad"]),
                          "payload": p})
            p = proof_payload("ua", th, item, list(steps), len(steps))
            p["step"] = step
            ev, body = send({"u": "ua", "op": "apply", "f": th, "label": "apply(ua,%s#%d)" % (item["name"], si), "sess": sess_of(th, item, steps),
                             "payload": p})
            if ev["rkind"] == "proof":
                steps.append(step)
            elif ev["rkind"] == "query" and isinstance(body, dict):
                pass                                     # the recorded step carries its parameters; a query here just ends the replay of steps
        send({"u": "ua", "op": "reinit", "f": th, "label": "reinit(ua,end)", "sess": sess_of(th, item, steps),
              "payload": proof_payload("ua", th, item, list(steps), len(steps))})
        if rnd.random() < 0.5:
            last = sorted(spec["theories"], key=lambda t: len(lib[t]["imports"]))[-1]
            first = lib[last]["imports"][-1] if lib[last]["imports"] else last
            send({"u": "ub", "op": "remove", "f": first, "label": "remove(ub,%s)" % first, "payload": {"username": "ub", "filename": first}})
            send({"u": "ub", "op": "load", "f": last, "label": "load(ub,%s)" % last,
                  "payload": {"username": "ub", "filename": last, "profile": False, "line_length": 80}})
            send({"u": "ua", "op": "load", "f": last, "label": "load(ua,%s)" % last,
                  "payload": {"username": "ua", "filename": last, "profile": False, "line_length": 80}})
        for u, sub in solo_projections(done):
            run_script(runner, "%sx%s" % (sid, u), "lib/solo", world, sub, {"solo_of": sid, "solo_user": u})
    finish(runner, out_path)


# --------------------------------------------------------------------------------------------------------------------
# the reference: the lower layers called directly
# --------------------------------------------------------------------------------------------------------------------
def mode_oracle(q_path, out_path, scratch):
    side = json.load(open(q_path))
    questions, contents = side["questions"], side["contents"]
    root = os.path.abspath(scratch)
    for d in ("logic", "library", "users"):
        os.makedirs(os.path.join(root, d), exist_ok=True)
    m = types.ModuleType("smt")
    m.__path__ = [os.path.join(os.getcwd(), "smt")]
    sys.modules["smt"] = m
    from logic import basic
    if hasattr(basic, "dirname"):
        basic.dirname = os.path.join(root, "logic")
    probe = os.path.realpath(basic.user_file("p", "verif_probe_user"))
    if not probe.startswith(root + os.sep):
        def user_dir(username="master"):
            return os.path.join(root, "library/") if username == "master" else os.path.join(root, "users", username)

        def user_file(filename, username="master"):
            return os.path.join(user_dir(username), filename + ".json")
        basic.user_dir, basic.user_file = user_dir, user_file
    # what the server does when it starts (app/ide.py): master's metadata is loaded once; the library of the oracle is empty
    Server.write(os.path.join(root, "library"), "zreset", CONTENT["zreset"])
    try:
        basic.load_metadata("master")
    except Exception:  # noqa
        pass
    # the registries of methods / macros are filled by module imports: have the same modules as the server process (the Flask
    # object itself is not used here)
    try:
        import flask.json
        if not hasattr(flask.json, "JSONEncoder"):
            flask.json.JSONEncoder = json.JSONEncoder
        with contextlib.redirect_stdout(io.StringIO()), contextlib.redirect_stderr(io.StringIO()):
            import app as _application  # noqa
    except Exception:  # noqa
        pass
    from kernel import theory
    from logic import context
    from server import server, method, items
    from syntax import settings, printer
    worlds = {}
    out = {}
    n = 0
    for qk, q in sorted(questions.items()):
        wk = dig(q["world"])
        if wk not in worlds:
            n += 1
            user = "o%d" % n
            d = os.path.join(root, "users", user)
            for fname, cid in q["world"].items():
                if contents.get(cid) is not None:
                    Server.write(d, fname, contents[cid])
            os.makedirs(d, exist_ok=True)
            worlds[wk] = user
        user = worlds[wk]
        p = q["payload"]
        op = q["op"]
        buf = io.StringIO()
        try:
            with contextlib.redirect_stdout(buf), contextlib.redirect_stderr(buf):
                body = answer(op, p, user, basic, theory, context, server, method, items, settings, printer)
            body = json.loads(json.dumps(body, default=lambda o: dict(o)))      # what jsonify + the client's JSON parser do
            kind, ans = project(op, 200, body)
        except Exception as e:  # noqa   the lower layer refuses the request: the reference answer is "an error"
            kind, ans = "err", {}
            body = {"exc": type(e).__name__ + ": " + str(e)[:120]}
        out[qk] = {"kind": kind, "ans": ans, "adig": dig([kind, ans]), "note": body.get("exc", "") if kind == "err" else ""}
    with open(out_path, "w", encoding="utf-8") as f:
        json.dump(out, f, ensure_ascii=False)


def answer(op, p, user, basic, theory, context, server, method, items, settings, printer):
    """what the route is documented to return, computed from the layers below it, in a context built for THIS question"""
    if op == "check":
        limit = (p["limit_ty"], p["limit_name"]) if "limit_ty" in p else None
        basic.load_theory(p["filename"], limit=limit, username=user)
        item = items.parse_edit(copy.deepcopy(p["item"]))
        if item.error is None:
            theory.thy.unchecked_extend(item.get_extension())
        with settings.global_setting(line_length=p.get("line_length")):
            return {"item": item.export_web()}
    limit = ("thm", p["thm_name"]) if p["thm_name"] != "" else None

    def fresh_state(steps):
        context.set_context(p["theory_name"], limit=limit, username=user, vars=p["vars"])
        state = server.parse_init_state(p["prop"])
        states = [copy.copy(state)]
        history = []
        for st in steps:
            history.extend(state.parse_steps([st]))
            states.append(copy.copy(state))
        return state, states, history
    if op in ("init", "reinit", "initbad"):
        state, states, history = fresh_state(p["steps"])
        res = {"state": states[p["index"]].json_data(), "history": history}
        try:
            state.check_proof()
        except Exception as e:  # noqa
            res["error"] = {"err_type": e.__class__.__name__, "err_str": str(e)}
        return res
    if op == "apply":
        state, states, history = fresh_state(p["steps"])
        st = copy.copy(states[p["index"]])
        try:
            method.apply_method(st, p["step"])
        except Exception as e:  # noqa
            if isinstance(e, theory.ParameterQueryException):
                return {"query": e.params}
            return {"error": {"err_type": e.__class__.__name__, "err_str": str(e)}}
        steps = p["steps"][:p["index"]] + [p["step"]] + p["steps"][p["index"]:]
        state, states, history = fresh_state(steps)
        return {"state": states[p["index"] + 1].json_data(), "history": history}
    if op == "search":
        state, states, history = fresh_state(p["steps"])
        basic.load_theory(p["theory_name"], limit=limit, username=user)
        st = states[p["index"]]
        res = st.search_method(p["step"]["goal_id"], p["step"]["fact_ids"])
        with settings.global_setting(unicode=True):
            for r in res:
                if "_goal" in r:
                    r["_goal"] = [printer.print_term(t) for t in r["_goal"]]
                if "_fact" in r:
                    r["_fact"] = [printer.print_term(t) for t in r["_fact"]]
        vars_ = st.get_vars(p["step"]["goal_id"])
        with settings.global_setting(unicode=True, highlight=True):
            pv = dict((k, printer.print_type(v)) for k, v in vars_.items())
        return json.loads(json.dumps({"search_res": res, "ctxt": pv}, default=lambda o: dict(o)))
    raise ValueError("no reference for " + op)


if __name__ == "__main__":
    mode = sys.argv[1]
    if mode == "replay":
        mode_replay(sys.argv[2], sys.argv[3], sys.argv[4], sys.argv[5])
    elif mode == "sessions":
        mode_sessions(sys.argv[2], sys.argv[3], sys.argv[4], sys.argv[5])
    elif mode == "oracle":
        mode_oracle(sys.argv[2], sys.argv[3], sys.argv[4])
    elif mode == "alphabet":
        json.dump({"decls": [declaration(c, d) for c, d in CONTENT.items()]}, open(sys.argv[2], "w"))
