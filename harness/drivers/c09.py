"""C09 driver: logic/matcher.py first_order_match / first_order_match_list on real terms.

modes
  replay <vectors.ndjson> <out.ndjson>      every TLC-generated input vector (pattern, target, given instantiation) is replayed:
                                            binders named "x" (clashing with the free variable x), binders with distinct
                                            names, and (route "s") targets built with maximal sharing of equal sub-term objects; and, when pattern and target are applications of a rigid head to the same
                                            number (>= 2) of arguments, also first_order_match_list on the argument lists
  rand   <out.ndjson> <n> <seed>            seeded random larger inputs: patterns = statements of library theorems (as loaded
                                            from the theory files) and random typed patterns, targets = random instances,
                                            perturbed instances, unrelated terms
Events: {ps, ts, inst0 (before the call), outcome, exc, inst1 (returned), inst0after}.  No verdict is computed here.
"""
import json
import random
import sys

from kernel.type import Type, TVar, STVar, TConst, TFun, BoolType
from kernel.term import Term, Var, SVar, Const, Comb, Abs, Bound, Inst
from kernel import theory
from logic import matcher
from logic.matcher import MatchException

from harness.codec import enc, encT, dec, decT, encInst
from harness.core import digest

NOINST = {"ty": [], "sv": [], "v": [], "an": []}


def enc_inst(inst):
    d = encInst(inst)
    d["an"] = [[str(k), str(v)] for k, v in inst.abs_name_inst.items()]
    return d


def build(j, names, memo=None):
    """Real Term from codec JSON; names() gives the name of the next binder.  With memo (a dict): maximal sharing -- structurally
    equal sub-terms (including those with loose bound variables, at whatever binder depth) become the SAME Python object."""
    if memo is not None:
        key = json.dumps(j)
        if key in memo:
            return memo[key]
    k = j[0]
    if k == "comb":
        r = Comb(build(j[1], names, memo), build(j[2], names, memo))
    elif k == "abs":
        nm = names()
        r = Abs(nm, decT(j[1]), build(j[2], names, memo))
    else:
        r = dec(j)
    if memo is not None:
        memo[key] = r
    return r


def namer(route):
    if route in ("x", "s"):
        return lambda: "x"
    cnt = [0]

    def f():
        cnt[0] += 1
        return "u%d" % cnt[0]
    return f


def can_share(j):
    """some compound sub-term occurs twice (so that maximal sharing really produces a shared object)"""
    seen = set()

    def walk(n):
        if n[0] not in ("comb", "abs"):
            return False
        k = json.dumps(n)
        if k in seen:
            return True
        seen.add(k)
        return walk(n[1]) or walk(n[2]) if n[0] == "comb" else walk(n[2])
    return walk(j)


def has_abs(j):
    return j[0] == "abs" or (j[0] == "comb" and (has_abs(j[1]) or has_abs(j[2])))


def mk_inst(s0, names):
    inst = Inst()
    for k, T in s0["ty"]:
        inst.tyinst[k] = decT(T)
    for k, s in s0["sv"]:
        inst[k] = build(s, names)
    return inst


def spine(j):
    args = []
    while j[0] == "comb":
        args.append(j[2])
        j = j[1]
    return j, args[::-1]


class Out:
    def __init__(self, path):
        self.f = open(path, "w")
        self.tid = 0

    def event(self, call, route, meta, ps_j, ts_j, s0_j):
        names = namer(route)
        ps = [build(p, names) for p in ps_j]
        memo = {} if route == "s" else None          # route "s": the targets are built with maximal sharing of equal sub-terms
        ts = [build(t, names, memo) for t in ts_j]
        inst0 = mk_inst(s0_j, names)
        before = enc_inst(inst0)
        exc = ""
        inst1 = None
        try:
            if call == "single":
                inst1 = matcher.first_order_match(ps[0], ts[0], inst0)
            else:
                inst1 = matcher.first_order_match_list(ps, ts, inst0)
            outcome = "success"
            res = enc_inst(inst1)            # projected immediately: Term.subst would extend inst1.tyinst
        except MatchException:
            outcome, exc, res = "MatchException", "MatchException", NOINST
        except RecursionError:
            outcome, exc, res = "other", "RecursionError", NOINST
        except Exception as e:               # noqa
            outcome, exc, res = "other", type(e).__name__, NOINST
        after = enc_inst(inst0)
        self.tid += 1
        ev = {"tid": self.tid, "call": call, "route": route, "ps": [enc(p) for p in ps], "ts": [enc(t) for t in ts],
              "inst0": before, "outcome": outcome, "exc": exc, "inst1": res, "inst0after": after}
        ev.update(meta)
        ev["key"] = "%s:%s:%s" % (call, route, digest([ps_j, ts_j, s0_j]))
        self.f.write(json.dumps(ev, separators=(",", ":")) + "\n")

    def close(self):
        self.f.close()


def replay(vec_path, out_path):
    theory.thy = theory.EmptyTheory()
    out = Out(out_path)
    nlist = 0
    for ln in open(vec_path):
        ln = ln.strip()
        if not ln:
            continue
        v = json.loads(ln)
        meta = {"kind": v.get("kind", "given"), "seed": v.get("seed", "given"), "gi": v.get("gi", {"ty": [], "sv": []})}
        # binder names and sharing of sub-term objects only matter when a binder is entered
        routes = ["x"]
        if has_abs(v["p"]) or has_abs(v["t"]):
            routes.append("u")
            if can_share(v["t"]):
                routes.append("s")
        for route in routes:
            out.event("single", route, meta, [v["p"]], [v["t"]], v["s0"])
        hp, ap = spine(v["p"])
        ht, at = spine(v["t"])
        if len(ap) >= 2 and len(ap) == len(at) and hp[0] in ("var", "const"):
            nlist += 1
            out.event("list", "s" if any(has_abs(a) for a in at) and can_share(v["t"]) else "x", meta, ap, at, v["s0"])
    out.close()
    print("replay events", out.tid, "list calls", nlist)


# ---------------------------------------------------------------------------------------------------
# seeded random larger inputs
# ---------------------------------------------------------------------------------------------------
class Gen:
    """Random well-typed closed terms over a signature of variables (no schematic variables)."""

    def __init__(self, rnd):
        self.rnd = rnd
        a = TVar("a")
        nat = TConst("nat")
        self.base = [a, nat, BoolType]
        self.atoms = {}
        for T, names in ((a, "xyc"), (nat, "mn"), (BoolType, "AB")):
            self.add([Var(n, T) for n in names])
        self.add([Var("f", TFun(a, a)), Var("h", TFun(a, a)), Var("P", TFun(a, BoolType)), Var("Q", TFun(a, BoolType)),
                  Var("R", TFun(a, a, BoolType)), Var("g", TFun(a, a, a)), Var("S", TFun(nat, nat)), Var("plus", TFun(nat, nat, nat)),
                  Var("E", TFun(nat, BoolType)), Var("L", TFun(nat, a)), Var("K", TFun(a, nat)),
                  Const("implies", TFun(BoolType, BoolType, BoolType)), Const("conj", TFun(BoolType, BoolType, BoolType)),
                  Const("neg", TFun(BoolType, BoolType)),
                  Const("equals", TFun(a, a, BoolType)), Const("equals", TFun(nat, nat, BoolType)),
                  Const("all", TFun(TFun(a, BoolType), BoolType)), Const("all", TFun(TFun(nat, BoolType), BoolType)),
                  Const("zero", nat)])

    def add(self, ts):
        for t in ts:
            self.atoms.setdefault(str(encT(t.T)), []).append(t)

    def term(self, T, depth, env=()):
        """env: tuple of binder types, innermost first."""
        rnd = self.rnd
        cands = list(self.atoms.get(str(encT(T)), []))
        cands += [Bound(i) for i, U in enumerate(env) if encT(U) == encT(T)]
        if depth <= 0 or rnd.random() < 0.2:
            if cands:
                return rnd.choice(cands)
        if T.is_fun() and rnd.random() < 0.6:
            return Abs("x", T.domain_type(), self.term(T.range_type(), depth - 1, (T.domain_type(),) + tuple(env)))
        # application: pick a function atom whose final result is T
        heads = []
        for lst in self.atoms.values():
            for h in lst:
                Ts, R = h.T.strip_type()
                for k in range(1, len(Ts) + 1):
                    if encT(TFun(*(list(Ts[k:]) + [R]))) == encT(T):
                        heads.append((h, Ts[:k]))
        for i, U in enumerate(env):
            Ts, R = U.strip_type()
            for k in range(1, len(Ts) + 1):
                if encT(TFun(*(list(Ts[k:]) + [R]))) == encT(T):
                    heads.append((Bound(i), Ts[:k]))
        if heads:
            h, Ts = rnd.choice(heads)
            res = h
            for U in Ts:
                res = Comb(res, self.term(U, depth - 1, env))
            return res
        if cands:
            return rnd.choice(cands)
        if T.is_fun():
            return Abs("x", T.domain_type(), self.term(T.range_type(), depth - 1, (T.domain_type(),) + tuple(env)))
        return Var("d_" + str(abs(hash(str(T))) % 97), T)


def svars_of(j, acc):
    if j[0] == "svar":
        if j[1] not in [n for n, _ in acc]:
            acc.append((j[1], j[2]))
    elif j[0] == "comb":
        svars_of(j[1], acc)
        svars_of(j[2], acc)
    elif j[0] == "abs":
        svars_of(j[2], acc)
    return acc


def stvars_ofT(T, acc):
    if T[0] == "stv":
        if T[1] not in acc:
            acc.append(T[1])
    elif T[0] == "tc":
        for a in T[2]:
            stvars_ofT(a, acc)
    return acc


def stvars_of(j, acc):
    if j[0] in ("svar", "var", "const"):
        stvars_ofT(j[2], acc)
    elif j[0] == "comb":
        stvars_of(j[1], acc)
        stvars_of(j[2], acc)
    elif j[0] == "abs":
        stvars_ofT(j[1], acc)
        stvars_of(j[2], acc)
    return acc


def substT(T, ti):
    if T[0] == "stv":
        return ti.get(T[1], T)
    if T[0] == "tc":
        return ["tc", T[1], [substT(a, ti) for a in T[2]]]
    return T


def perturb(j, rnd):
    """replace one variable atom by another variable of the same type (JSON level)"""
    j = json.loads(json.dumps(j))
    leaves = []

    def walk(n):
        if n[0] == "comb":
            walk(n[1])
            walk(n[2])
        elif n[0] == "abs":
            walk(n[2])
        elif n[0] == "var":
            leaves.append(n)
    walk(j)
    if not leaves:
        return None
    n = rnd.choice(leaves)
    n[1] = n[1] + "'" if rnd.random() < 0.5 else {"x": "y", "y": "x", "m": "n", "n": "m", "A": "B", "B": "A", "f": "h", "h": "f",
                                                    "P": "Q", "Q": "P"}.get(n[1], n[1] + "'")
    return j


def library_patterns(limit):
    """Statements of library theorems (with schematic variables), as codec JSON; only those whose types are built from
    type variables / bool / fun / nat / set-like constructors are kept as they are (the T spec treats type constructors
    uniformly)."""
    from logic import basic
    pats = []
    try:
        basic.load_theory("set")
        thy = theory.thy
        for name in sorted(thy.get_data("theorems")):
            th = thy.get_theorem(name, svar=True)
            if not th.hyps:
                pats.append((name, th.prop))
    except Exception as e:      # noqa
        print("library patterns unavailable:", type(e).__name__, e)
    res = []
    for name, prop in pats:
        try:
            if prop.size() <= 40:
                res.append((name, enc(prop)))
        except Exception:       # noqa
            pass
    return res[:limit]


def rand(out_path, n, seed):
    rnd = random.Random(seed)
    libs = library_patterns(400)
    gen_thy = theory.thy
    out = Out(out_path)
    g = Gen(rnd)
    a, nat = TVar("a"), TConst("nat")
    types = [a, nat, BoolType]
    made = 0
    tries = 0
    while made < n and tries < 20 * n:
        tries += 1
        if libs and rnd.random() < 0.6:
            name, pj = rnd.choice(libs)
            # also sub-patterns: a hypothesis / the conclusion / one side of an equation
            for _ in range(rnd.randint(0, 2)):
                if pj[0] == "comb" and rnd.random() < 0.7:
                    pj = pj[2] if rnd.random() < 0.6 or pj[1][0] != "comb" else pj[1][2]
            src = "lib:" + name
        else:
            # random typed pattern: a random term in which some variables are made schematic
            T = rnd.choice([BoolType, BoolType, a, TFun(a, BoolType)])
            tj = enc(g.term(T, rnd.randint(2, 4)))
            mk = {nm: rnd.random() < 0.5 for nm in "xycmnABfhPQRgSEL"}

            def schem(j):
                if j[0] == "var" and mk.get(j[1]):
                    return ["svar", j[1], j[2]]
                if j[0] == "comb":
                    return ["comb", schem(j[1]), schem(j[2])]
                if j[0] == "abs":
                    return ["abs", j[1], schem(j[2])]
                return j
            pj = schem(tj)
            src = "rnd"
        svs = svars_of(pj, [])
        if not svs or len(svs) > 5:
            continue
        stvs = stvars_of(pj, [])
        ti = {nm: encT(rnd.choice(types + [TFun(a, a)] if rnd.random() < 0.2 else types)) for nm in stvs}
        # random closed instances of the right types
        sv = []
        ok = True
        for nm, Tj in svs:
            try:
                val = g.term(decT(substT(Tj, ti)), rnd.randint(0, 3))
                val.checked_get_type()
            except Exception:   # noqa
                ok = False
                break
            sv.append([nm, enc(val)])
        if not ok:
            continue
        inst = Inst()
        for k, T in ti.items():
            inst.tyinst[k] = decT(T)
        for k, s in sv:
            inst[k] = dec(s)
        try:
            pos = dec(pj).subst(inst)
            if rnd.random() < 0.8:
                pos = pos.beta_norm()
            pos.checked_get_type()
        except Exception:       # noqa
            continue
        posj = enc(pos)
        gi = {"ty": [[k, T] for k, T in ti.items()], "sv": sv}
        empty = {"ty": [], "sv": []}
        seeds = [("empty", empty)]
        if sv:
            k = rnd.randrange(len(sv))
            seeds.append(("sv1", {"ty": [], "sv": [sv[k]]}))
            other = enc(g.term(dec(sv[k][1]).get_type(), 1))
            if other != sv[k][1]:
                seeds.append(("bad_sv", {"ty": gi["ty"], "sv": [[sv[k][0], other]]}))
        if gi["ty"]:
            seeds.append(("ty", {"ty": gi["ty"], "sv": []}))
        sd = rnd.choice(seeds)
        route = rnd.choice(["x", "u", "s"])
        out.event("single", route, {"kind": "pos", "seed": sd[0], "gi": gi, "src": src}, [pj], [posj], sd[1])
        made += 1
        nj = perturb(posj, rnd)
        if nj is not None:
            out.event("single", route, {"kind": "neg", "seed": "empty", "gi": gi, "src": src}, [pj], [nj], empty)
            made += 1
        if rnd.random() < 0.3:
            u = enc(g.term(rnd.choice([BoolType, a, nat, TFun(a, BoolType)]), rnd.randint(1, 3)))
            out.event("single", route, {"kind": "unrel", "seed": "empty", "gi": empty, "src": src}, [pj], [u], empty)
            made += 1
    out.close()
    print("rand events", out.tid, "library patterns", len(libs))


def event(in_path, out_path):
    """replay recorded events exactly (same call, same binder-naming route)"""
    theory.thy = theory.EmptyTheory()
    out = Out(out_path)
    for ln in open(in_path):
        if ln.strip():
            e = json.loads(ln)
            meta = {"kind": e.get("kind", "given"), "seed": e.get("seed", "given"), "gi": e.get("gi", {"ty": [], "sv": []})}
            s0 = {"ty": e["inst0"]["ty"], "sv": e["inst0"]["sv"]}
            out.event(e.get("call", "single"), e.get("route", "x"), meta, e["ps"], e["ts"], s0)
    out.close()
    print("events", out.tid)


if __name__ == "__main__":
    mode = sys.argv[1]
    if mode == "event":
        event(sys.argv[2], sys.argv[3])
    elif mode == "replay":
        replay(sys.argv[2], sys.argv[3])
    elif mode == "rand":
        rand(sys.argv[2], int(sys.argv[3]), int(sys.argv[4]))
