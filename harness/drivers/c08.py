"""C08 driver: runs the REAL type inference (syntax/infertype.type_infer) on skeletons and logs events.

modes
  replay <vectors.ndjson> <out.ndjson>       spec -> code: every TLC-generated case {fam, keep, declared, skel, ctx, orig}
                                             is decoded to a Term with missing types = None, the context is set with
                                             logic.context.Context(vars=..., svars=...), type_infer is called
  random <n> <out.ndjson> <seed>             seeded larger inputs: random well-typed terms (deeper, more binders) erased
                                             with random per-occurrence masks (every 7th with some free variables turned
                                             into constants under definition, context.ctxt.defs), long random
                                             constraint conjunctions, and then n HISTORY cases: the current theory
                                             (kernel.theory.thy) is switched all the time between three scratch
                                             theories that declare the same constant names at different types (one
                                             name is a constant in two of them and a variable in the third); erasures
                                             of terms well-typed in the current theory, and skeletons made for another
  corpus <out.ndjson> <limit> <seed>         statements of the theorems of the loaded library theory, erased with the
                                             four patterns, variables declared
Event: {tid, key, fam, keep, declared, skel, ctx, sig, orig, outcome, cls, err, result}
  outcome  "term" | "own" (TypeInferenceException) | "other" (any other exception, class in cls) | "timeout"
  err      kind of the TypeInferenceException, read off the first line of its message
  sig      declared types (schematic) of the constants occurring in the skeleton, from theory.thy.get_term_sig
  result   structural encoding of the returned term (harness/codec.py; a missing type is ["none"])
No verdict is computed here.
"""
import json
import random
import resource
import signal
import sys
import time

from kernel.type import Type, TVar, STVar, TConst, TFun, BoolType, NatType, IntType, RealType
from kernel.term import Term, Var, SVar, Const, Comb, Abs, Bound
from kernel import theory
from logic import basic, context
from syntax import infertype
from syntax.infertype import type_infer, TypeInferenceException

from harness.codec import encT, decT
from harness.core import digest

THEORY = "real"
NONE = ["none"]
CALL_TIMEOUT = 5.0          # seconds; the median call takes well under a millisecond


class CallTimeout(BaseException):
    pass


def _alarm(signum, frame):
    raise CallTimeout()


# ---------------------------------------------------------------------------------- codec with missing types
def dec_skel(j):
    k = j[0]
    if k == "svar":
        return SVar(j[1], None if j[2] == NONE else decT(j[2]))
    if k == "var":
        return Var(j[1], None if j[2] == NONE else decT(j[2]))
    if k == "const":
        return Const(j[1], None if j[2] == NONE else decT(j[2]))
    if k == "comb":
        return Comb(dec_skel(j[1]), dec_skel(j[2]))
    if k == "abs":
        return Abs("z", None if j[1] == NONE else decT(j[1]), dec_skel(j[2]))
    if k == "bound":
        return Bound(j[1])
    raise ValueError("c08 driver: cannot decode %r" % (j,))


def encT_opt(T):
    if T is None:
        return NONE
    if not isinstance(T, Type):
        return ["tc", "!not-a-type:" + type(T).__name__, []]
    return encT(T)


def enc_opt(t):
    ty = t.ty
    if ty == Term.SVAR:
        return ["svar", t.name, encT_opt(t.T)]
    if ty == Term.VAR:
        return ["var", t.name, encT_opt(t.T)]
    if ty == Term.CONST:
        return ["const", t.name, encT_opt(t.T)]
    if ty == Term.COMB:
        return ["comb", enc_opt(t.fun), enc_opt(t.arg)]
    if ty == Term.ABS:
        return ["abs", encT_opt(t.var_T), enc_opt(t.body)]
    if ty == Term.BOUND:
        return ["bound", t.n]
    raise TypeError("c08 driver: not a term: %r" % (t,))


def const_names(j, acc):
    k = j[0]
    if k == "const":
        acc.add(j[1])
    elif k == "comb":
        const_names(j[1], acc)
        const_names(j[2], acc)
    elif k == "abs":
        const_names(j[2], acc)
    return acc


def signature(skel, ctx):
    """Declared types of the constants of the skeleton: the theory's signature (type variables schematic), else the
    type under which the name is being defined (context.ctxt.defs)."""
    sig = []
    defs = dict(ctx.get("defs", []))
    for name in sorted(const_names(skel, set())):
        try:
            sig.append([name, encT(theory.thy.get_term_sig(name, stvar=True))])
        except theory.TheoryException:
            if name in defs:
                sig.append([name, defs[name]])
            # else not declared: the event is outside the quantifier (the trace spec sees the gap)
    return sig


ERR_KINDS = (("Unspecified type", "unspecified"), ("Infinite loop", "loop"), ("Unable to unify", "unify"))


def err_kind(e):
    msg = e.err if isinstance(getattr(e, "err", None), str) else ""
    first = msg.split("\n", 1)[0]
    for prefix, kind in ERR_KINDS:
        if first.startswith(prefix):
            return kind
    if first.endswith("is not of function type"):
        return "nofun"
    return "otherown"


def run_one(skel, ctx):
    """Call the real type_infer on a fresh Term built from the skeleton; returns (outcome, cls, err, result)."""
    t = dec_skel(skel)
    context.ctxt = context.Context(vars={n: decT(T) for n, T in ctx["vars"]}, svars={n: decT(T) for n, T in ctx["svars"]},
                                   defs={n: decT(T) for n, T in ctx.get("defs", [])})
    signal.setitimer(signal.ITIMER_REAL, CALL_TIMEOUT)
    try:
        try:
            r = type_infer(t)
        finally:
            signal.setitimer(signal.ITIMER_REAL, 0)
        return "term", "", "", enc_opt(r)
    except TypeInferenceException as e:
        return "own", "TypeInferenceException", err_kind(e), NONE
    except CallTimeout:
        return "timeout", "", "", NONE
    except Exception as e:
        return "other", type(e).__name__, "", NONE


class Log:
    def __init__(self, path):
        self.f = open(path, "w")
        self.tid = 0
        self.times = []

    def case(self, fam, keep, declared, skel, ctx, orig, extra=None):
        t0 = time.perf_counter()
        outcome, cls, err, result = run_one(skel, ctx)
        self.times.append(time.perf_counter() - t0)
        self.tid += 1
        ev = {"tid": self.tid, "key": "%s:%s:%s" % (fam, keep, digest([skel, ctx])), "fam": fam, "keep": keep,
              "declared": bool(declared), "skel": skel, "ctx": ctx, "sig": signature(skel, ctx), "orig": orig,
              "outcome": outcome, "cls": cls, "err": err, "result": result}
        if extra:
            ev.update(extra)
        self.f.write(json.dumps(ev, separators=(",", ":")) + "\n")

    def close(self):
        self.f.close()
        ts = sorted(self.times)
        if ts:
            sys.stderr.write("c08 driver: %d calls, median %.3f ms, max %.1f ms\n" % (len(ts), ts[len(ts) // 2] * 1e3, ts[-1] * 1e3))


def setup():
    basic.load_theory(THEORY)
    signal.signal(signal.SIGALRM, _alarm)
    try:
        resource.setrlimit(resource.RLIMIT_AS, (6 * 2 ** 30, 6 * 2 ** 30))
    except (ValueError, OSError):
        pass


def replay(vec_path, out_path):
    log = Log(out_path)
    for ln in open(vec_path):
        ln = ln.strip()
        if not ln:
            continue
        v = json.loads(ln)
        log.case(v["fam"], v["keep"], v["declared"], v["skel"], v["ctx"], v["orig"])
    log.close()


# ---------------------------------------------------------------------------------- seeded random inputs (JSON level)
def T_(name, *args):
    return ["tc", name, list(args)]


BOOL, NAT, INT, REAL = T_("bool"), T_("nat"), T_("int"), T_("real")
TA, TB = ["tv", "a"], ["tv", "b"]


def fun(*ts):
    r = ts[-1]
    for a in reversed(ts[:-1]):
        r = T_("fun", a, r)
    return r


def lst(a):
    return T_("list", a)


def is_fun(T):
    return T[0] == "tc" and T[1] == "fun"


class Gen:
    """Random well-typed closed terms in the structural encoding; every free variable name has one type."""
    BASE = [BOOL, NAT, INT, REAL, TA, lst(NAT), lst(TA), fun(NAT, NAT), fun(TA, BOOL), fun(NAT, BOOL)]

    def __init__(self, rng, insts=()):
        self.rng = rng
        self.vars = {}      # (schematic?, name) -> type
        self.n = 0
        self.insts = list(insts)    # instances of further constants: (name, [argument types], result type)

    def inst_app(self, inst, d, env):
        name, args, res = inst
        t = ["const", name, fun(*(list(args) + [res]))]
        for A in args:
            t = ["comb", t, self.term(A, d, env)]
        return t

    def var_of(self, T, svar=False):
        """A (schematic) variable of type T.  Ordinary and schematic variables draw their names from ONE pool: a
        schematic variable may carry the name of an ordinary one (and vice versa), at the same or at another type;
        within a kind a name has one type."""
        rng = self.rng
        cands = [n for (s, n), U in self.vars.items() if U == T and s == svar]
        if cands and rng.random() < 0.7:
            n = rng.choice(cands)
        else:
            other = [(n, U) for (s, n), U in self.vars.items() if s != svar and (svar, n) not in self.vars]
            same = [n for n, U in other if U == T]
            if other and rng.random() < 0.4:
                n = rng.choice(same) if same and rng.random() < 0.5 else rng.choice(other)[0]
            else:
                n = "v%d" % self.n
                self.n += 1
            self.vars[(svar, n)] = T
        return ["svar" if svar else "var", n, T]

    def term(self, T, depth, env):
        rng = self.rng
        bounds = [i for i, U in enumerate(env) if U == T]
        cands = [i for i in self.insts if i[2] == T and (depth > 0 or not i[1])]
        if cands and rng.random() < 0.45:
            return self.inst_app(rng.choice(cands), depth - 1, env)
        if depth <= 0 or rng.random() < 0.12:
            if bounds and rng.random() < 0.6:
                return ["bound", rng.choice(bounds)]
            c = self.const_leaf(T)
            if c is not None and rng.random() < 0.4:
                return c
            return self.var_of(T, svar=rng.random() < 0.2)
        choices = ["app", "app"]
        if is_fun(T):
            choices += ["abs"] * 4 + ["comp"]
        if T == BOOL:
            choices += ["eq", "eq", "quant", "quant", "conn", "le"]
        if T in (NAT, INT, REAL):
            choices += ["plus", "plus", "ofnat" if T != NAT else "suc", "if", "length" if T == NAT else "plus"]
        if T[0] == "tc" and T[1] == "list":
            choices += ["cons", "cons", "append"]
        if T == TA:
            choices += ["if", "the"]
        ch = rng.choice(choices)
        d = depth - 1
        if ch == "abs":
            return ["abs", T[2][0], self.term(T[2][1], d, [T[2][0]] + env)]
        if ch == "comp":        # comp_fun :: (b => c) => (a => b) => a => c at three types
            A, C_, B = T[2][0], T[2][1], rng.choice(self.BASE[:7])
            return self.bin("comp_fun", fun(fun(B, C_), fun(A, B), T), self.term(fun(B, C_), d, env), self.term(fun(A, B), d, env))
        if ch == "eq":
            A = rng.choice(self.BASE)
            return self.bin("equals", fun(A, A, BOOL), self.term(A, d, env), self.term(A, d, env))
        if ch == "quant":
            A = rng.choice(self.BASE)
            q = rng.choice(["all", "exists"])
            return ["comb", ["const", q, fun(fun(A, BOOL), BOOL)], ["abs", A, self.term(BOOL, d, [A] + env)]]
        if ch == "conn":
            c = rng.choice(["conj", "disj", "implies"])
            return self.bin(c, fun(BOOL, BOOL, BOOL), self.term(BOOL, d, env), self.term(BOOL, d, env))
        if ch == "le":
            A = rng.choice([NAT, INT, REAL])
            return self.bin(rng.choice(["less_eq", "less"]), fun(A, A, BOOL), self.term(A, d, env), self.term(A, d, env))
        if ch == "plus":
            return self.bin(rng.choice(["plus", "times", "minus"]), fun(T, T, T), self.term(T, d, env), self.term(T, d, env))
        if ch == "ofnat":
            return ["comb", ["const", "of_nat", fun(NAT, T)], self.term(NAT, d, env)]
        if ch == "suc":
            return ["comb", ["const", "Suc", fun(NAT, NAT)], self.term(NAT, d, env)]
        if ch == "length":
            A = rng.choice([NAT, TA, BOOL])
            return ["comb", ["const", "length", fun(lst(A), NAT)], self.term(lst(A), d, env)]
        if ch == "if":
            return ["comb", self.bin("IF", fun(BOOL, T, T, T), self.term(BOOL, d, env), self.term(T, d, env)), self.term(T, d, env)]
        if ch == "the":
            return ["comb", ["const", "The", fun(fun(T, BOOL), T)], ["abs", T, self.term(BOOL, d, [T] + env)]]
        if ch == "cons":
            return self.bin("cons", fun(T[2][0], T, T), self.term(T[2][0], d, env), self.term(T, d, env))
        if ch == "append":
            return self.bin("append", fun(T, T, T), self.term(T, d, env), self.term(T, d, env))
        # application of a (possibly higher-order) function term to an argument
        A = rng.choice(self.BASE)
        return ["comb", self.term(fun(A, T), d, env), self.term(A, d, env)]

    @staticmethod
    def bin(name, T, a, b):
        return ["comb", ["comb", ["const", name, T], a], b]

    def const_leaf(self, T):
        if T == BOOL:
            return ["const", self.rng.choice(["true", "false"]), BOOL]
        if T in (NAT, INT, REAL):
            return ["const", self.rng.choice(["zero", "one"]), T]
        if T[0] == "tc" and T[1] == "list":
            return ["const", "nil", T]
        return None


def erase(t, rng, pv, pc, pb):
    """Drop each variable / constant / binder type independently with probability pv / pc / pb."""
    k = t[0]
    if k in ("var", "svar"):
        return [k, t[1], NONE if rng.random() < pv else t[2]]
    if k == "const":
        return [k, t[1], NONE if rng.random() < pc else t[2]]
    if k == "comb":
        return ["comb", erase(t[1], rng, pv, pc, pb), erase(t[2], rng, pv, pc, pb)]
    if k == "abs":
        return ["abs", NONE if rng.random() < pb else t[1], erase(t[2], rng, pv, pc, pb)]
    return t


def free_vars(t, acc):
    k = t[0]
    if k in ("var", "svar"):
        acc[(k, t[1])] = t[2]
    elif k == "comb":
        free_vars(t[1], acc)
        free_vars(t[2], acc)
    elif k == "abs":
        free_vars(t[2], acc)
    return acc


def decl_ctx(t):
    fv = free_vars(t, {})
    return {"vars": [[n, T] for (k, n), T in sorted(fv.items()) if k == "var"],
            "svars": [[n, T] for (k, n), T in sorted(fv.items()) if k == "svar"]}


NOCTX = {"vars": [], "svars": []}


def to_defs(t, names):
    """Turn the free variables `names` of t into constants under definition (context.ctxt.defs): d_<name>."""
    k = t[0]
    if k == "var" and t[1] in names:
        return ["const", "d_" + t[1], t[2]]
    if k == "comb":
        return ["comb", to_defs(t[1], names), to_defs(t[2], names)]
    if k == "abs":
        return ["abs", t[1], to_defs(t[2], names)]
    return t


def xv(i, T=None):
    return ["var", "x%d" % i, T if T is not None else NONE]


def c0(n):
    return ["const", n, NONE]


def eq0(a, b):
    return ["comb", ["comb", c0("equals"), a], b]


def xs(i, T=None):
    return ["svar", "x%d" % i, T if T is not None else NONE]


def atom(rng, nv):
    a = atom0(rng, nv)
    if rng.random() < 0.25:
        # some of the variable occurrences become SCHEMATIC variables of the same name
        a = some_schematic(a, rng)
    return a


def some_schematic(t, rng):
    k = t[0]
    if k == "var":
        return ["svar", t[1], t[2]] if rng.random() < 0.5 else t
    if k == "comb":
        return ["comb", some_schematic(t[1], rng), some_schematic(t[2], rng)]
    if k == "abs":
        return ["abs", t[1], some_schematic(t[2], rng)]
    return t


def atom0(rng, nv):
    i, j = rng.randrange(nv), rng.randrange(nv)
    k = rng.choice("AAELLFFGPNBMS")
    if k == "A":
        return ["comb", xv(i), xv(j)]
    if k == "E":
        return eq0(xv(i), xv(j))
    if k == "L":
        return eq0(xv(i), ["comb", ["comb", c0("cons"), xv(j)], c0("nil")])
    if k == "F":
        return eq0(xv(i), ["abs", NONE, xv(j)])
    if k == "G":
        return eq0(xv(i), ["comb", xv(j), xv(rng.randrange(nv))])
    if k == "P":
        return xv(i)
    if k == "N":
        return eq0(xv(i), ["comb", c0("Suc"), xv(i)])
    if k == "B":
        return xv(i, BOOL)
    if k == "M":
        return eq0(xv(i, NAT), c0("zero"))
    return eq0(["abs", NONE, ["comb", ["bound", 0], xv(i)]], ["abs", NONE, ["comb", xv(j), ["bound", 0]]])


def conj_of(atoms):
    t = atoms[-1]
    for a in reversed(atoms[:-1]):
        t = ["comb", ["comb", c0("conj"), a], t]
    return t


def random_mode(n, out_path, seed):
    rng = random.Random(seed * 7919 + 8)
    log = Log(out_path)
    goals = [BOOL, BOOL, BOOL, NAT, REAL, lst(NAT), fun(NAT, BOOL), fun(TA, TA), fun(fun(NAT, NAT), NAT)]
    for i in range(n):
        if i % 3 != 2:
            g = Gen(rng)
            t = g.term(rng.choice(goals), rng.choice([3, 4, 4, 5]), [])
            declared = rng.random() < 0.6
            mode = rng.choice(["none", "vars", "cb", "mixed", "mixed", "mixed"])
            defs = []
            if i % 7 == 0:
                # some free variables become constants that are being defined (context.ctxt.defs); when the term is an
                # equation  d args = rhs  type_infer takes the type of d from defs before inferring
                fv = sorted(n for (k, n) in free_vars(t, {}) if k == "var")
                if fv:
                    names = set(rng.sample(fv, max(1, len(fv) // 3)))
                    types = {n: T for (k, n), T in free_vars(t, {}).items() if k == "var"}
                    if rng.random() < 0.5:
                        n0 = sorted(names)[0]
                        A = types[n0]
                        t = g.bin("equals", fun(A, A, BOOL), ["var", n0, A], g.term(A, 2, []))
                        types = {n: T for (k, n), T in free_vars(t, {}).items() if k == "var"}
                        names = {n for n in names if n in types}
                    t = to_defs(t, names)
                    defs = [["d_" + n, types[n]] for n in sorted(names)]
            if mode == "none":
                s = erase(t, rng, 1, 1, 1)
            elif mode == "vars":
                s = erase(t, rng, 0, 1, 1)
            elif mode == "cb":
                s = erase(t, rng, 1, 0, 0)
            else:
                s = erase(t, rng, rng.random(), rng.random(), rng.random())
            ctx = dict(decl_ctx(t) if declared else NOCTX)
            if defs:
                ctx["defs"] = defs
            log.case("randdef" if defs else "rand", mode, declared, s, ctx, t)
        else:
            nv = rng.choice([3, 4, 5, 6])
            atoms = [atom(rng, nv) for _ in range(rng.choice([3, 4, 5, 6, 7, 8]))]
            ctx = NOCTX
            if rng.random() < 0.4:      # some of the variables declared: bare and annotated uses of declared variables
                ctx = {"vars": [["x%d" % v, rng.choice([NAT, BOOL, BOOL, fun(NAT, BOOL), lst(NAT)])]
                                for v in range(nv) if rng.random() < 0.5],
                       "svars": [["x%d" % v, rng.choice([NAT, BOOL, BOOL, fun(NAT, BOOL), lst(NAT)])]
                                 for v in range(nv) if rng.random() < 0.3]}
            decl = bool(ctx["vars"] or ctx["svars"])
            log.case("randcs", "decl" if decl else "none", decl, conj_of(atoms), ctx, NONE)
    # (an event of a history is reproduced only by re-running the history: the event records how)
    history_mode(max(600, n // 2), log, seed, {"gen": {"mode": "random", "n": n, "seed": seed}})
    log.close()


# ---------------------------------------------------------------------------------- histories over several theories
# Three scratch theories (copies of the loaded theory, extended with unchecked_extend) in which the SAME constant
# names are declared at DIFFERENT types; `hv` is a constant in H0 and H2 and an ordinary variable in H1.
LN, LA = lst(NAT), lst(TA)
HIST_SIG = [
    {"weight": fun(NAT, NAT), "hsel": fun(TA, TA, TA), "hrel": fun(NAT, NAT, BOOL), "hv": NAT},
    {"weight": fun(LA, NAT), "hsel": fun(LA, TA), "hrel": fun(TA, LA, BOOL)},
    {"weight": fun(fun(TA, NAT), LA, NAT), "hsel": fun(BOOL, TA, TA, TA), "hrel": fun(REAL, REAL, BOOL), "hv": BOOL},
]
# instances used by the generator: (name, argument types, result type)
HIST_INST = [
    [("weight", [NAT], NAT), ("hsel", [NAT, NAT], NAT), ("hsel", [BOOL, BOOL], BOOL), ("hsel", [LN, LN], LN),
     ("hrel", [NAT, NAT], BOOL), ("hv", [], NAT)],
    [("weight", [LN], NAT), ("weight", [LA], NAT), ("weight", [lst(BOOL)], NAT), ("hsel", [LN], NAT), ("hsel", [LA], TA),
     ("hsel", [lst(BOOL)], BOOL), ("hrel", [NAT, LN], BOOL), ("hrel", [TA, LA], BOOL)],
    [("weight", [fun(NAT, NAT), LN], NAT), ("weight", [fun(TA, NAT), LA], NAT), ("hsel", [BOOL, NAT, NAT], NAT),
     ("hsel", [BOOL, REAL, REAL], REAL), ("hsel", [BOOL, BOOL, BOOL], BOOL), ("hrel", [REAL, REAL], BOOL), ("hv", [], BOOL)],
]


def history_mode(n, log, seed, gen):
    """One process, one history: the current theory (theory.thy) is switched between the scratch theories all the
    time; in each, erasures of terms that are well-typed THERE are inferred (fam "hist"), and so are fully erased
    terms that were generated for ANOTHER theory (fam "histx": mostly ill-typed here).  The signature recorded in an
    event is read from the theory that is current at the call."""
    import copy as _copy
    from kernel import extension
    rng = random.Random(seed * 15485863 + 8)
    base = theory.thy
    ths = []
    for sig in HIST_SIG:
        th = _copy.copy(base)
        th.unchecked_extend([extension.Constant(name, decT(T)) for name, T in sorted(sig.items())])
        ths.append(th)
    goals = [BOOL, BOOL, NAT, NAT, REAL, LN, TA, fun(NAT, BOOL), fun(TA, NAT)]
    prev_terms = [[], [], []]
    k = 0
    try:
        for i in range(n):
            k = (k + rng.choice([1, 1, 2, 0])) % 3            # mostly a switch, sometimes the same theory again
            theory.thy = ths[k]
            tag = "H%d" % k
            if i % 4 == 3 and any(prev_terms[j] for j in range(3) if j != k):
                j = rng.choice([j for j in range(3) if j != k and prev_terms[j]])
                t = rng.choice(prev_terms[j])
                if k == 1:
                    t = const_to_var(t, "hv")                 # hv is not a constant in H1: the parser would make it a variable
                log.case("histx", "none@%s<-H%d" % (tag, j), False, erase(t, rng, 1, 1, 1), NOCTX, NONE, gen)
                continue
            g = Gen(rng, HIST_INST[k])
            if k == 1:
                g.vars[(False, "hv")] = rng.choice([NAT, LN, BOOL])
            inst = rng.choice(HIST_INST[k])
            if rng.random() < 0.5:
                t = g.inst_app(inst, rng.choice([1, 2, 3]), [])
                if inst[2] != BOOL and rng.random() < 0.7:
                    t = g.bin("equals", fun(inst[2], inst[2], BOOL), t, g.term(inst[2], 2, []))
            else:
                t = g.term(rng.choice(goals), rng.choice([2, 3, 4]), [])
            prev_terms[k].append(t)
            declared = rng.random() < 0.75
            mode = rng.choice(["none", "none", "vars", "mixed", "cb"])
            if mode == "none":
                s = erase(t, rng, 1, 1, 1)
            elif mode == "vars":
                s = erase(t, rng, 0, 1, 1)
            elif mode == "cb":
                s = erase(t, rng, 1, 0, 0)
            else:
                s = erase(t, rng, rng.random(), 0.5 + rng.random() / 2, rng.random())
            log.case("hist", "%s@%s" % (mode, tag), declared, s, decl_ctx(t) if declared else NOCTX, t, gen)
    finally:
        theory.thy = base


def const_to_var(t, name):
    k = t[0]
    if k == "const" and t[1] == name:
        return ["var", name, t[2]]
    if k == "comb":
        return ["comb", const_to_var(t[1], name), const_to_var(t[2], name)]
    if k == "abs":
        return ["abs", t[1], const_to_var(t[2], name)]
    return t


# ---------------------------------------------------------------------------------- library corpus
def corpus_mode(out_path, limit, seed):
    from harness.codec import enc
    rng = random.Random(seed * 104729 + 8)
    log = Log(out_path)
    ths = sorted(theory.thy.get_data("theorems").items())
    rng.shuffle(ths)
    count = 0
    for name, th in ths:
        if count >= limit:
            break
        try:
            t = enc(th.prop)
        except Exception:
            continue
        if len(json.dumps(t)) > 12000:
            continue
        count += 1
        ctx = decl_ctx(t)
        for keep, (pv, pc, pb) in (("none", (1, 1, 1)), ("vars", (0, 1, 1)), ("cb", (1, 0, 0)), ("all", (0, 0, 0))):
            log.case("corpus", keep, True, erase(t, rng, pv, pc, pb), ctx, t)
        log.case("corpus", "mixed", True, erase(t, rng, 0.5, 0.5, 0.5), ctx, t)
    log.close()


def main(argv):
    mode = argv[0]
    setup()
    if mode == "replay":
        replay(argv[1], argv[2])
    elif mode == "random":
        random_mode(int(argv[1]), argv[2], int(argv[3]))
    elif mode == "corpus":
        corpus_mode(argv[1], int(argv[2]), int(argv[3]))
    else:
        raise SystemExit("unknown mode " + mode)


if __name__ == "__main__":
    main(sys.argv[1:])
