"""X06 driver: runs paraverifier/ (load_system, get_subgoal, verify_subgoal, add_invariant, add_semantics) and gcl.convert_term /
gcl.mk_assign on system descriptions and logs one event per operation.  Projection only: no verdict is computed here.

usage:  python -m harness.drivers.x06 replay   <vectors.ndjson> <behaviours.ndjson> <out.ndjson> <seed> <max goal events> <tid0> <scratch>
        python -m harness.drivers.x06 examples <out.ndjson> <seed> <max goal events per example> <tid0> <share of hinted tuples with N = 3>
        python -m harness.drivers.x06 random   <out.ndjson> <seed> <sessions> <tid0> <scratch>
        python -m harness.drivers.x06 one      <event.json> <out.ndjson> <scratch>         (re-run the input of one recorded event)

vectors   : systems emitted by spec/X06_Para.tla  {name, vars [[name, type]], enum, rules [{param, guard, asg [[lhs, rhs]]}],
            invs [{vars, prop}], tuples [{inv, rule, case, h, hint {k, inst}}]}; terms in the encoding of harness/codec.py
behaviours: {name, vars, enum, rules, steps [{rule, k, pre, post}]}  printed by X06_Para (Finish)
A description is written as a JSON file of the shape of paraverifier/examples/*.json into the scratch directory and loaded
through load_system by a path relative to paraverifier/examples (nothing under the repository is written).

events (kind): load, goal, enc, fire -- see spec/X06_Trace.tla.
"""
import json
import os
import random
import re
import sys
import traceback

NAT = ["tc", "nat", []]
BOOL = ["tc", "bool", []]


def FUN(a, b):
    return ["tc", "fun", [a, b]]


NONE = ["none"]
TYPE_STR = {json.dumps(NAT): "nat", json.dumps(BOOL): "bool", json.dumps(FUN(NAT, NAT)): "nat => nat",
            json.dumps(FUN(NAT, BOOL)): "nat => bool"}


# ------------------------------------------------------------------------------------------------ input generation: text of a term
def is_bits(t):
    return t == ["const", "one", NAT] or (t[0] == "comb" and t[1][0] == "const" and t[1][1] in ("bit0", "bit1") and is_bits(t[2]))


def bits_val(t):
    return 1 if t[0] == "const" else 2 * bits_val(t[2]) + (1 if t[1][1] == "bit1" else 0)


def text(t):
    """concrete syntax (fully bracketed) of a term of the fragment the vectors are built from"""
    k = t[0]
    if k in ("var", "svar"):
        return t[1]
    if k == "const":
        if t[1] == "zero":
            return "(0::nat)"
        if t[1] == "one":
            return "(1::nat)"
        return t[1]
    if k == "comb":
        f, a = t[1], t[2]
        if f[0] == "const" and f[1] == "of_nat" and is_bits(a):
            return "(%d::nat)" % bits_val(a)
        if f[0] == "const" and f[1] == "neg":
            return "~(%s)" % text(a)
        if f[0] == "comb" and f[1][0] == "const" and f[1][1] in ("equals", "conj", "disj", "implies"):
            op = {"equals": "=", "conj": "&", "disj": "|", "implies": "-->"}[f[1][1]]
            return "(%s %s %s)" % (text(f[2]), op, text(a))
        if f[0] == "comb" and f[1][0] == "comb" and f[1][1][0] == "const" and f[1][1][1] == "IF":
            return "(if %s then %s else %s)" % (text(f[1][2]), text(f[2]), text(a))
        if f[0] == "const" and f[1] in ("all", "exists") and a[0] == "abs":
            raise ValueError("quantifiers are not generated")
        return "(%s %s)" % (text(f), text(a))
    raise ValueError("text: %r" % (t,))


def lhs_text(t):
    s = text(t)
    return s[1:-1] if s.startswith("(") else s


def description(sysd):
    """the JSON description load_system reads"""
    return {"name": sysd.get("name", "sys"),
            "vars": {v[0]: TYPE_STR[json.dumps(v[1])] for v in sysd["vars"]},
            "states": list(sysd["enum"]),
            "rules": [{"var": r["param"], "guard": text(r["guard"]),
                       "assign": {lhs_text(a[0]): text(a[1]) for a in r["asg"]}} for r in sysd["rules"]],
            "invs": [{"vars": list(iv["vars"]), "prop": text(iv["prop"])} for iv in sysd["invs"]]}


# ------------------------------------------------------------------------------------------------ running the code
class Runner:
    def __init__(self, out_path, tid0, scratch):
        from harness import codec
        from paraverifier import paraverifier as pv
        from paraverifier import gcl
        from kernel import theory
        from kernel.term import Term, Var
        from syntax import parser
        from logic import context
        self.codec, self.pv, self.gcl, self.theory, self.Term, self.Var = codec, pv, gcl, theory, Term, Var
        self.parser, self.context = parser, context
        self.out = open(out_path, "w")
        self.tid = int(tid0)
        self.scratch = scratch
        self.nfile = 0
        self.examples_dir = os.path.join(os.path.dirname(os.path.realpath(pv.__file__)), "examples")

    def emit(self, ev):
        self.tid += 1
        ev["tid"] = self.tid
        self.out.write(json.dumps(ev, separators=(",", ":")) + "\n")

    def close(self):
        self.out.close()

    # ---- projection of the loaded object (public attributes of ParaSystem)
    def enc(self, t):
        try:
            return self.codec.enc(t)
        except Exception:
            return NONE

    def proj_rule(self, rule):
        rule_var, guard, assigns = rule
        param = rule_var.name if isinstance(rule_var, self.Term) else ""
        return {"param": param, "guard": self.enc(guard), "asg": [[self.enc(k), self.enc(v)] for k, v in assigns.items()]}

    def proj_inv(self, inv):
        inv_vars, prop = inv
        return {"vars": [v.name for v in inv_vars], "prop": self.enc(prop)}

    def proj_sys(self, s):
        return {"vars": [[v.name, self.codec.encT(v.T)] for v in s.vars], "enum": [c.name for c in s.states],
                "rules": [self.proj_rule(r) for r in s.rules], "invs": [self.proj_inv(i) for i in s.invs]}

    # ---- load
    def load_file(self, name):
        return self.pv.load_system(name)

    def load_description(self, sysd):
        self.nfile += 1
        path = os.path.join(self.scratch, "sys_%d_%d.json" % (os.getpid(), self.nfile))
        with open(path, "w", encoding="utf-8") as f:
            json.dump(description(sysd), f)
        rel = os.path.relpath(path[:-len(".json")], self.examples_dir)
        return self.pv.load_system(rel)

    def shown(self, s, p):
        """guards, assignments and invariants as str(system) shows them, parsed again in the system's context"""
        res = {"guards": [], "asgs": [], "invs": [], "skipped": 0}
        try:
            lines = str(s).split("\n")
        except Exception:
            res["skipped"] = 1
            return res
        sysvars = {v.name: v.T for v in s.vars}

        def parse(txt, extra):
            ctx = dict(sysvars)
            ctx.update(extra)
            try:
                with self.context.fresh_context(vars=ctx):
                    return "ok", self.enc(self.parser.parse_term(txt))
            except Exception:
                return "perr", NONE
        part = None
        for ln in lines:
            if ln.startswith("Number of rules"):
                part = "rules"
                continue
            if ln.startswith("Number of invariants"):
                part = "invs"
                continue
            if part == "rules":
                m = re.match(r"^(\d+): \[(.*)\] (.*)$", ln)
                if not m or int(m.group(1)) >= len(s.rules):
                    res["skipped"] += 1 if ln.strip() else 0
                    continue
                i = int(m.group(1))
                rv = s.rules[i][0]
                extra = {rv.name: rv.T} if isinstance(rv, self.Term) else {v.name: v.T for v in rv}
                st, t = parse(m.group(2), extra)
                res["guards"].append({"at": i + 1, "st": st, "t": t})
                parts = m.group(3).split(", ") if m.group(3) else []
                if len(parts) != len(p["rules"][i]["asg"]) or any(" := " not in q for q in parts):
                    res["skipped"] += 1
                    continue
                for j, q in enumerate(parts):
                    lt, rt = q.split(" := ", 1)
                    st1, l = parse(lt, extra)
                    st2, r = parse(rt, extra)
                    res["asgs"].append({"at": i + 1, "pos": j + 1, "st": "ok" if (st1, st2) == ("ok", "ok") else "perr", "l": l, "r": r})
            elif part == "invs":
                m = re.match(r"^(\d+): (.*)$", ln)
                if not m or int(m.group(1)) >= len(s.invs):
                    res["skipped"] += 1 if ln.strip() else 0
                    continue
                i = int(m.group(1))
                st, t = parse(m.group(2), {v.name: v.T for v in s.invs[i][0]})
                res["invs"].append({"at": i + 1, "st": st, "t": t})
        return res

    def ev_load(self, key, N, sysd, loader):
        """returns (ParaSystem | None, projection | None)"""
        ev = {"kind": "load", "key": key, "N": N, "hassrc": sysd is not None}
        if sysd is not None:
            ev["src"] = {k: sysd[k] for k in ("vars", "enum", "rules", "invs")}
        empty = {"vars": [], "enum": [], "rules": [], "invs": [], "shown": {"guards": [], "asgs": [], "invs": [], "skipped": 0}}
        try:
            s = loader()
        except Exception as e:
            ev.update(empty)
            ev.update({"outcome": "exc:" + type(e).__name__, "msg": str(e)[:200]})
            self.emit(ev)
            return None, None
        try:
            p = self.proj_sys(s)
        except Exception as e:
            # the loaded object does not have the attributes this driver reads: not observable (no clause is judged)
            ev.update(empty)
            ev.update({"outcome": "unobservable", "msg": "%s: %s" % (type(e).__name__, str(e)[:200])})
            self.emit(ev)
            return None, None
        ev.update({"outcome": "ok", "vars": p["vars"], "enum": p["enum"], "rules": p["rules"], "invs": p["invs"],
                   "shown": self.shown(s, p)})
        self.emit(ev)
        return s, p

    # ---- subgoals
    def ev_goal(self, key, N, s, p, tup):
        pv = self.pv
        hint = tup["hint"]
        ev = {"kind": "goal", "key": key, "N": N, "vars": p["vars"], "enum": p["enum"],
              "inv": tup["inv"], "rule": tup["rule"], "case": tup["case"], "h": tup["h"],
              "hint": {"k": hint["k"], "inst": list(hint["inst"])},
              "r": p["rules"][tup["rule"]], "iv": p["invs"][tup["inv"]], "hv": p["invs"][tup["h"]],
              "goal": NONE, "vgoal": NONE, "ans": False}
        if hint["k"] == "GUARD":
            h = pv.GUARD
        elif hint["k"] == "PRE":
            h = pv.PRE
        else:
            h = (pv.INV, tup["h"], list(hint["inst"]))
        try:
            g = s.get_subgoal(tup["inv"], tup["rule"], tup["case"], h)
            vg, ans = s.verify_subgoal(tup["inv"], tup["rule"], tup["case"], h)
            ev.update({"outcome": "ok", "goal": self.codec.enc(g), "vgoal": self.codec.enc(vg), "ans": bool(ans)})
        except Exception as e:
            ev.update({"outcome": "exc:" + type(e).__name__, "msg": str(e)[:200]})
        self.emit(ev)

    # ---- encodings
    def conv(self, s):
        gcl = self.gcl
        sv = self.Var("s", gcl.stateT)
        g, a, i = [], [], []
        for (_, guard, assigns) in s.rules:
            try:
                g.append(self.codec.enc(gcl.convert_term(s.var_map, sv, guard)))
            except Exception:
                g.append(NONE)
            try:
                a.append(self.codec.enc(gcl.mk_assign(s.var_map, sv, assigns)))
            except Exception:
                a.append(NONE)
        for (_, prop) in s.invs:
            try:
                i.append(self.codec.enc(gcl.convert_term(s.var_map, sv, prop)))
            except Exception:
                i.append(NONE)
        return {"g": g, "a": a, "i": i}

    def ev_enc(self, key, N, s, p, twice=False):
        ev = {"kind": "enc", "key": key, "N": N, "vars": p["vars"], "enum": p["enum"], "rules": p["rules"], "invs": p["invs"],
              "conv": self.conv(s), "invdef": NONE, "trans": [NONE for _ in p["rules"]], "notes": []}
        thy = self.theory
        try:
            s.add_invariant()
            ev["invdef"] = self.codec.enc(thy.thy.get_theorem("inv_def").prop)
        except Exception as e:
            ev["notes"].append("add_invariant:" + type(e).__name__)
        try:
            s.add_semantics()
            for i in range(len(p["rules"])):
                try:
                    ev["trans"][i] = self.codec.enc(thy.thy.get_theorem("trans_rule%d" % i).prop)
                except Exception as e:
                    ev["notes"].append("trans_rule%d:%s" % (i, type(e).__name__))
        except Exception as e:
            ev["notes"].append("add_semantics:" + type(e).__name__)
        self.emit(ev)

    def ev_fire(self, key, N, s, p, step, conv):
        r = step["rule"]
        ev = {"kind": "fire", "key": key, "N": N, "vars": p["vars"], "enum": p["enum"], "r": p["rules"][r], "k": step["k"],
              "pre": step["pre"], "hasexp": "post" in step, "genc": conv["g"][r], "aenc": conv["a"][r],
              "outcome": "ok" if conv["g"][r] != NONE and conv["a"][r] != NONE else "exc"}
        if "post" in step:
            ev["exp"] = step["post"]
        self.emit(ev)


# ------------------------------------------------------------------------------------------------ tuples
def all_tuples(p, with_inv_hints=True):
    """every (invariant, rule, case) with GUARD and PRE, and INV hints by the parameter names at hand"""
    res = []
    for i, iv in enumerate(p["invs"]):
        for r, rl in enumerate(p["rules"]):
            for c in range(len(iv["vars"]) + 1):
                res.append({"inv": i, "rule": r, "case": c, "h": i, "hint": {"k": "GUARD", "inst": []}})
                res.append({"inv": i, "rule": r, "case": c, "h": i, "hint": {"k": "PRE", "inst": []}})
    return res


def sample(rng, items, n):
    items = list(items)
    if len(items) <= n:
        return items
    return [items[i] for i in sorted(rng.sample(range(len(items)), n))]


def tup_key(t):
    return "%d.%d.%d.%s%s" % (t["inv"], t["rule"], t["case"], t["hint"]["k"],
                              ("." + str(t["h"]) + "." + "".join(t["hint"]["inst"])) if t["hint"]["k"] == "INV" else "")


# ------------------------------------------------------------------------------------------------ modes
def sys_key(sysd):
    import hashlib
    return hashlib.sha1(json.dumps([sysd["vars"], sysd["enum"], sysd["rules"], sysd["invs"]], sort_keys=True).encode()).hexdigest()[:10]


def replay(vec_path, beh_path, out_path, seed, max_goals, tid0, scratch):
    rng = random.Random(int(seed))
    R = Runner(out_path, tid0, scratch)
    vecs = [json.loads(ln) for ln in open(vec_path) if ln.strip()]
    max_goals = int(max_goals)
    total = sum(len(v["tuples"]) for v in vecs)
    for v in vecs:
        key = "%s:%s" % (v["name"], sys_key(v))
        N = 3 if v["name"].startswith("mutual") and rng.random() < 0.5 else 2
        s, p = R.ev_load("load|" + key, N, v, lambda: R.load_description(v))
        if s is None:
            continue
        quota = max(6, int(max_goals * len(v["tuples"]) / max(total, 1)) + 1)
        for t in sample(rng, v["tuples"], quota):
            R.ev_goal("goal|%s|%s" % (key, tup_key(t)), N, s, p, t)
        R.ev_enc("enc|" + key, N, s, p)
    if beh_path and os.path.exists(beh_path):
        for b in (json.loads(ln) for ln in open(beh_path) if ln.strip()):
            b = dict(b)
            b["invs"] = []
            key = "%s:%s" % (b["name"], sys_key(b))
            N = len(next(iter(x for x in b["steps"][0]["pre"].values() if isinstance(x, list)), [0, 0]))
            try:
                s = R.load_description(b)
                p = R.proj_sys(s)
                conv = R.conv(s)
            except Exception:
                traceback.print_exc()
                continue
            for n, st in enumerate(b["steps"]):
                R.ev_fire("fire|%s|%d.%d.%d" % (key, n, st["rule"], st["k"]), N, s, p, st, conv)
    R.close()


def examples(out_path, seed, max_goals, tid0, n3_share="1.0"):
    """the two files of paraverifier/examples: their hint files and further tuples; mutual_ex with 3 processes for a seeded
    share of the hinted tuples (all of them in the thorough tier), 2 otherwise"""
    rng = random.Random(int(seed))
    R = Runner(out_path, tid0, None)
    for name, N in (("mutual_ex", 2), ("german", 2)):
        s, p = R.ev_load("load|file:" + name, N, None, lambda: R.load_file(name))
        if s is None:
            continue
        tups = []
        try:
            for (i, r, c, h) in R.pv.load_hints(name + "_hints"):
                if isinstance(h, tuple):
                    tups.append({"inv": i, "rule": r, "case": c, "h": h[1], "hint": {"k": "INV", "inst": list(h[2])}})
                else:
                    tups.append({"inv": i, "rule": r, "case": c, "h": i, "hint": {"k": {R.pv.GUARD: "GUARD", R.pv.PRE: "PRE"}[h], "inst": []}})
        except Exception:
            traceback.print_exc()
        rest = [t for t in all_tuples(p) if t not in tups]
        for n, t in enumerate(tups + sample(rng, rest, int(max_goals))):
            n_here = 3 if name == "mutual_ex" and n < len(tups) and rng.random() < float(n3_share) else N
            R.ev_goal("goal|file:%s|%s" % (name, tup_key(t)), n_here, s, p, t)
        R.ev_enc("enc|file:" + name, N, s, p)
    R.close()


# ---- seeded random systems (wider shapes than the vectors: two arrays, boolean arrays, if-then-else, scalar <-> cell)
def V(n, T):
    return ["var", n, T]


def EQ(T, a, b):
    return ["comb", ["comb", ["const", "equals", FUN(T, FUN(T, BOOL))], a], b]


def NOT(p):
    return ["comb", ["const", "neg", FUN(BOOL, BOOL)], p]


def BIN(op, p, q):
    return ["comb", ["comb", ["const", op, FUN(BOOL, FUN(BOOL, BOOL))], p], q]


def ITE(c, a, b):
    return ["comb", ["comb", ["comb", ["const", "IF", FUN(BOOL, FUN(NAT, FUN(NAT, NAT)))], c], a], b]


TRUE, FALSE = ["const", "true", BOOL], ["const", "false", BOOL]


def random_system(rng):
    enum = ["I", "T", "C", "E"][:rng.choice([2, 3, 3, 4])]
    vars_ = [["a", FUN(NAT, NAT)]]
    if rng.random() < 0.5:
        vars_.append(["b", FUN(NAT, NAT)])
    if rng.random() < 0.5:
        vars_.append(["f", FUN(NAT, BOOL)])
    vars_.append(["x", BOOL])
    if rng.random() < 0.6:
        vars_.append(["y", NAT])
    rng.shuffle(vars_)
    names = {v[0]: v[1] for v in vars_}
    narr = [n for n, T in names.items() if T == FUN(NAT, NAT)]
    barr = [n for n, T in names.items() if T == FUN(NAT, BOOL)]
    nsc = [n for n, T in names.items() if T == NAT]

    def const():
        return ["const", rng.choice(enum), NAT]

    def nat_expr(p, depth=1):
        c = rng.random()
        if c < 0.45:
            return const()
        if c < 0.75:
            return ["comb", V(rng.choice(narr), FUN(NAT, NAT)), V(p, NAT)]
        if c < 0.9 and nsc:
            return V(rng.choice(nsc), NAT)
        if depth > 0:
            return ITE(atom(p), nat_expr(p, 0), nat_expr(p, 0))
        return const()

    def atom(p):
        c = rng.random()
        if c < 0.5:
            return EQ(NAT, ["comb", V(rng.choice(narr), FUN(NAT, NAT)), V(p, NAT)], nat_expr(p, 0))
        if c < 0.7:
            return EQ(BOOL, V("x", BOOL), rng.choice([TRUE, FALSE]))
        if c < 0.85 and barr:
            return EQ(BOOL, ["comb", V(rng.choice(barr), FUN(NAT, BOOL)), V(p, NAT)], rng.choice([TRUE, FALSE]))
        if nsc:
            return EQ(NAT, V(rng.choice(nsc), NAT), const())
        return EQ(BOOL, V("x", BOOL), TRUE)

    def formula(ps, depth):
        c = rng.random()
        if depth == 0 or c < 0.3:
            return atom(rng.choice(ps))
        if c < 0.5:
            return NOT(formula(ps, depth - 1))
        return BIN(rng.choice(["conj", "conj", "disj"]), formula(ps, depth - 1), formula(ps, depth - 1))

    rules = []
    for _ in range(rng.choice([1, 2, 2, 3])):
        asg, targets = [], set()
        for _ in range(rng.choice([1, 1, 2, 3])):
            c = rng.random()
            if c < 0.5:
                a = rng.choice(narr)
                if a in targets:
                    continue
                targets.add(a)
                asg.append([["comb", V(a, FUN(NAT, NAT)), V("k", NAT)], nat_expr("k")])
            elif c < 0.65:
                if "x" in targets:
                    continue
                targets.add("x")
                asg.append([V("x", BOOL), rng.choice([TRUE, FALSE])])
            elif c < 0.75 and nsc:
                y = rng.choice(nsc)
                if y in targets:
                    continue
                targets.add(y)
                asg.append([V(y, NAT), nat_expr("k")])
            elif c < 0.85 and barr:
                f = rng.choice(barr)
                if f in targets:
                    continue
                targets.add(f)
                asg.append([["comb", V(f, FUN(NAT, BOOL)), V("k", NAT)], rng.choice([TRUE, FALSE])])
            elif len(narr) > 1:
                a, b = rng.sample(narr, 2)
                if a in targets:
                    continue
                targets.add(a)
                asg.append([V(a, FUN(NAT, NAT)), V(b, FUN(NAT, NAT))])
        if not asg:
            asg.append([["comb", V(narr[0], FUN(NAT, NAT)), V("k", NAT)], const()])
        rules.append({"param": "k", "guard": formula(["k"], rng.choice([0, 1, 2])), "asg": asg})
    invs = []
    for _ in range(rng.choice([1, 2, 2, 3])):
        ps = [["i"], ["i", "j"], ["i", "j"], []][rng.randrange(4)]
        if not ps:
            prop = NOT(BIN("conj", EQ(BOOL, V("x", BOOL), TRUE), EQ(NAT, V(nsc[0], NAT), const()))) if nsc else EQ(BOOL, V("x", BOOL), rng.choice([TRUE, FALSE]))
        else:
            prop = NOT(BIN("conj", atom(ps[0]), atom(ps[-1]))) if rng.random() < 0.6 else formula(ps, 2)
        invs.append({"vars": ps, "prop": prop})
    return {"name": "rnd", "vars": vars_, "enum": enum, "rules": rules, "invs": invs}


def random_tuples(rng, sysd, n):
    tups = []
    for _ in range(n):
        i = rng.randrange(len(sysd["invs"]))
        r = rng.randrange(len(sysd["rules"]))
        c = rng.randrange(len(sysd["invs"][i]["vars"]) + 1)
        k = rng.choice(["GUARD", "PRE", "INV", "INV"])
        if k == "INV" and len(sysd["invs"]) > 1:
            h = rng.choice([x for x in range(len(sysd["invs"])) if x != i])
            pool = list(sysd["invs"][i]["vars"]) + ["k"] + (["m"] if rng.random() < 0.15 else [])
            inst = [rng.choice(pool) for _ in sysd["invs"][h]["vars"]]
            tups.append({"inv": i, "rule": r, "case": c, "h": h, "hint": {"k": "INV", "inst": inst}})
        else:
            tups.append({"inv": i, "rule": r, "case": c, "h": i, "hint": {"k": k if k != "INV" else "PRE", "inst": []}})
    return tups


def random_pre(rng, p, N):
    st = {}
    nvals = max(len(p["enum"]), 2)
    for name, T in p["vars"]:
        if T == NAT:
            st[name] = rng.randrange(nvals)
        elif T == BOOL:
            st[name] = rng.randrange(2)
        elif T == FUN(NAT, NAT):
            st[name] = [rng.randrange(nvals) for _ in range(N)]
        else:
            st[name] = [rng.randrange(2) for _ in range(N)]
    return st


def random_sessions(out_path, seed, nsessions, tid0, scratch):
    """one session = a history over two systems in this process: load A, subgoals of A, load B, subgoals of B and again of the
    object A (its answers may not depend on what was loaded since), encodings of B, then of a fresh A"""
    rng = random.Random(int(seed) * 7919 + 13)
    R = Runner(out_path, tid0, scratch)
    for n in range(int(nsessions)):
        A, B = random_system(rng), random_system(rng)
        N = rng.choice([2, 2, 3])
        ka, kb = "rnd%d.A:%s" % (n, sys_key(A)), "rnd%d.B:%s" % (n, sys_key(B))
        sa, pa = R.ev_load("load|" + ka, N, A, lambda: R.load_description(A))
        ta = random_tuples(rng, A, 6) if sa is not None else []
        for t in ta[:3]:
            R.ev_goal("goal|%s|%s" % (ka, tup_key(t)), N, sa, pa, t)
        sb, pb = R.ev_load("load|" + kb, N, B, lambda: R.load_description(B))
        if sb is not None:
            for t in random_tuples(rng, B, 4):
                R.ev_goal("goal|%s|%s" % (kb, tup_key(t)), N, sb, pb, t)
        for t in ta[3:]:
            R.ev_goal("goal|%s|late.%s" % (ka, tup_key(t)), N, sa, pa, t)
        if sb is not None:
            R.ev_enc("enc|" + kb, N, sb, pb)
            conv = R.conv(sb)
            for j in range(3):
                st = {"rule": rng.randrange(len(pb["rules"])), "k": rng.randrange(1, N + 1), "pre": random_pre(rng, pb, N)}
                R.ev_fire("fire|%s|%d" % (kb, j), N, sb, pb, st, conv)
        if sa is not None:
            sa2, pa2 = R.ev_load("load|%s|again" % ka, N, A, lambda: R.load_description(A))
            if sa2 is not None:
                R.ev_enc("enc|" + ka, N, sa2, pa2)
    R.close()


def one(ev_path, out_path, scratch):
    """re-run the input of one recorded event on the current tree"""
    e = json.load(open(ev_path))
    R = Runner(out_path, 0, scratch)
    key = e.get("key", "")
    if "|file:" in key:
        name = key.split("|file:")[1].split("|")[0]
        s, p = R.ev_load("load|file:" + name, e["N"], None, lambda: R.load_file(name))
    else:
        src = e.get("src")
        if src is None:
            # goal / enc / fire events carry the loaded projection: re-describe the system from it
            if e["kind"] == "goal":
                idx = sorted({e["inv"], e["h"]})
                invs = [None] * (max(idx) + 1)
                invs[e["inv"]], invs[e["h"]] = e["iv"], e["hv"]
                invs = [iv if iv is not None else e["iv"] for iv in invs]
                rules = [e["r"]] * (e["rule"] + 1)
            elif e["kind"] == "fire":
                invs, rules = [], [e["r"]]
            else:
                invs, rules = e["invs"], e["rules"]
            src = {"vars": e["vars"], "enum": e["enum"], "rules": rules, "invs": invs}
        src = dict(src)
        src["name"] = "replay"
        s, p = R.ev_load("load|replay", e["N"], src, lambda: R.load_description(src))
    if s is not None:
        if e["kind"] == "goal":
            R.ev_goal(key, e["N"], s, p, {"inv": e["inv"], "rule": e["rule"], "case": e["case"], "h": e["h"], "hint": e["hint"]})
        elif e["kind"] == "enc":
            R.ev_enc(key, e["N"], s, p)
        elif e["kind"] == "fire":
            st = {"rule": 0, "k": e["k"], "pre": e["pre"]}
            if e.get("hasexp"):
                st["post"] = e["exp"]
            R.ev_fire(key, e["N"], s, p, st, R.conv(s))
    R.close()


if __name__ == "__main__":
    mode = sys.argv[1]
    if mode == "replay":
        replay(*sys.argv[2:9])
    elif mode == "examples":
        examples(*sys.argv[2:7])
    elif mode == "random":
        random_sessions(*sys.argv[2:7])
    elif mode == "one":
        one(*sys.argv[2:5])
    else:
        raise SystemExit("unknown mode " + mode)
