"""C20 driver: runs the real imperative/ code (com.py, expr.py, parser2.py, imp.py, parser.py) and logs events.

modes
  com <vectors.ndjson> <out.ndjson> <seed> <nrandom> <maxnest> <twice_every> [<tid_base>]
        (a) for every integer (program, pre, post) vector and for <nrandom> seeded random programs: build the real
            Com / Expr objects, c.pre = [pre]; c.compute_wp(post); c.get_lines(vars); log the computed condition trees
            (structural projection of the Expr objects held in the pre/post chains), the printed strings, the strings
            re-parsed by parser2.cond_parser, and the HOL form of each line (projection of the HOL term)
        (c) every <twice_every>-th vector: compute_wp a second time on the SAME object (history)
  imp <triples.ndjson> <sem.ndjson> <out.ndjson> <seed> <nsem> <nvcg> <nrandom>
        (b) natural-number programs as HOL terms: imp.eval_Sem on (program, initial state) + theory.check_proof;
            imp.vcg_norm on Valid P c Q + theory.check_proof
  hist <histvectors.ndjson> <out.ndjson> <tid_base>
        (c) histories on ONE command object: annotate for (p1, q1), then for (p2, q2) / after replacing an invariant;
            also applied to every 20th vector and to a fifth of the random programs in mode com
  one <event.json> <out.ndjson>     re-run the input of one recorded event (replay)
No verdict is computed here: only projection of objects to JSON trees in the encoding of spec/C20_HoareSem.tla.
"""
import json
import random
import sys

from harness.core import digest

UNK = ["?"]
VARS = ("x", "y")


# ------------------------------------------------------------------------------------------------
# structural codec for imperative/expr.py and imperative/com.py objects (raw fields only; no __eq__, no __str__)
# ------------------------------------------------------------------------------------------------
def _E():
    from imperative import expr
    return expr


BIN = {"+": "+", "-": "-", "*": "*", "==": "==", "!=": "!=", "<=": "<=", "<": "<", "&": "and", "|": "or", "-->": "imp"}


def enc_expr(e):
    E = _E()
    t = type(e)
    if t is E.Var:
        return ["v", e.name]
    if t is E.Const:
        if type(e.val) is bool:
            return ["true"] if e.val else ["false"]
        if type(e.val) is int and abs(e.val) < 2 ** 30:
            return ["n", e.val]
        return UNK
    if t is E.Op:
        if len(e.args) == 1:
            if e.op == "-":
                return ["neg", enc_expr(e.args[0])]
            if e.op == "~":
                return ["not", enc_expr(e.args[0])]
            return UNK
        if len(e.args) == 2 and e.op in BIN:
            return [BIN[e.op], enc_expr(e.args[0]), enc_expr(e.args[1])]
        return UNK
    if t is E.ITE:
        return ["ite", enc_expr(e.cond), enc_expr(e.e1), enc_expr(e.e2)]
    return UNK


def enc_com(c):
    from imperative import com
    t = type(c)
    if t is com.Skip:
        return ["skip"]
    if t is com.Assign:
        E = _E()
        if type(c.v) is E.Var:
            return ["asg", c.v.name, enc_expr(c.e)]
        return UNK
    if t is com.Seq:
        return ["seq", enc_com(c.c1), enc_com(c.c2)]
    if t is com.Cond:
        return ["if", enc_expr(c.b), enc_com(c.c1), enc_com(c.c2)]
    if t is com.While:
        return ["while", enc_expr(c.b), enc_expr(c.inv), enc_com(c.c)]
    return UNK


RBIN = {v: k for k, v in BIN.items()}


def dec_expr(j):
    E = _E()
    k = j[0]
    if k == "v":
        return E.Var(j[1])
    if k == "n":
        return E.Const(j[1])
    if k == "true":
        return E.Const(True)
    if k == "neg":
        return E.Op("-", dec_expr(j[1]))
    if k == "not":
        return E.Op("~", dec_expr(j[1]))
    if k == "ite":
        return E.ITE(dec_expr(j[1]), dec_expr(j[2]), dec_expr(j[3]))
    if k in RBIN:
        return E.Op(RBIN[k], dec_expr(j[1]), dec_expr(j[2]))
    raise ValueError("dec_expr: %r" % (j,))


def dec_com(j):
    from imperative import com
    k = j[0]
    if k == "skip":
        return com.Skip()
    if k == "asg":
        return com.Assign(j[1], dec_expr(j[2]))
    if k == "seq":
        return com.Seq(dec_com(j[1]), dec_com(j[2]))
    if k == "if":
        return com.Cond(dec_expr(j[1]), dec_com(j[2]), dec_com(j[3]))
    if k == "while":
        return com.While(dec_expr(j[1]), dec_expr(j[2]), dec_com(j[3]))
    raise ValueError("dec_com: %r" % (j,))


# ------------------------------------------------------------------------------------------------
# structural codec for HOL terms (kernel.term raw fields): integer / natural-number conditions, programs, states
# ------------------------------------------------------------------------------------------------
def _head_args(t):
    from kernel.term import Term
    args = []
    while t.ty == Term.COMB:
        args.append(t.arg)
        t = t.fun
    return t, args[::-1]


def _binary(t):
    """value of a nat binary numeral built from zero/one/bit0/bit1, else None"""
    from kernel.term import Term
    if t.ty == Term.CONST:
        return {"zero": 0, "one": 1}.get(t.name)
    if t.ty == Term.COMB and t.fun.ty == Term.CONST and t.fun.name in ("bit0", "bit1"):
        v = _binary(t.arg)
        if v is None:
            return None
        return 2 * v + (1 if t.fun.name == "bit1" else 0)
    return None


HBIN = {"plus": "+", "minus": "-", "times": "*", "less": "<", "less_eq": "<=", "conj": "and", "disj": "or", "implies": "imp"}


def enc_hol(t, state=None):
    """state: None for integer conditions (variables are HOL variables x, y), or the de Bruijn index / name of the
    state function for imp.py conditions (variable k is  s k, named chr(97 + k))."""
    from kernel.term import Term
    h, args = _head_args(t)
    if h.ty == Term.VAR and not args:
        return ["v", h.name] if state is None else UNK
    if state is not None and len(args) == 1 and ((h.ty == Term.BOUND and h.n == state) or (h.ty == Term.VAR and h.name == state)):
        k = _num(args[0])
        if k is not None and 0 <= k < 26:
            return ["v", chr(97 + k)]
        return UNK
    if h.ty != Term.CONST:
        return UNK
    n = h.name
    if not args:
        if n in ("zero", "one"):
            return ["n", 0 if n == "zero" else 1]
        if n in ("true", "false"):
            return [n]
        return UNK
    if n == "of_nat" and len(args) == 1:
        v = _binary(args[0])
        return ["n", v] if v is not None and v < 2 ** 30 else UNK
    if n == "uminus" and len(args) == 1:
        return ["neg", enc_hol(args[0], state)]
    if n == "neg" and len(args) == 1:
        return ["not", enc_hol(args[0], state)]
    if n in HBIN and len(args) == 2:
        return [HBIN[n], enc_hol(args[0], state), enc_hol(args[1], state)]
    if n == "equals" and len(args) == 2:
        dom = h.T.args[0] if getattr(h.T, "name", None) == "fun" and len(h.T.args) == 2 else None
        if dom is not None and getattr(dom, "name", None) in ("int", "nat"):
            return ["==", enc_hol(args[0], state), enc_hol(args[1], state)]
        return UNK
    if n == "IF" and len(args) == 3:
        return ["ite", enc_hol(args[0], state), enc_hol(args[1], state), enc_hol(args[2], state)]
    return UNK


def _num(t):
    from kernel.term import Term
    if t.ty == Term.CONST:
        return {"zero": 0, "one": 1}.get(t.name)
    if t.ty == Term.COMB and t.fun.ty == Term.CONST and t.fun.name == "of_nat":
        return _binary(t.arg)
    return None


def _abs_body(t):
    from kernel.term import Term
    return t.body if t.ty == Term.ABS else None


def enc_hol_com(c):
    """HOL program of imperative/imp.py -> program tree"""
    h, args = _head_args(c)
    from kernel.term import Term
    if h.ty != Term.CONST:
        return UNK
    n = h.name
    if n == "Skip" and not args:
        return ["skip"]
    if n == "Assign" and len(args) == 2:
        k, b = _num(args[0]), _abs_body(args[1])
        if k is None or not (0 <= k < 26) or b is None:
            return UNK
        return ["asg", chr(97 + k), enc_hol(b, 0)]
    if n == "Seq" and len(args) == 2:
        return ["seq", enc_hol_com(args[0]), enc_hol_com(args[1])]
    if n == "Cond" and len(args) == 3:
        b = _abs_body(args[0])
        return ["if", enc_hol(b, 0) if b is not None else UNK, enc_hol_com(args[1]), enc_hol_com(args[2])]
    if n == "While" and len(args) == 3:
        b, i = _abs_body(args[0]), _abs_body(args[1])
        return ["while", enc_hol(b, 0) if b is not None else UNK, enc_hol(i, 0) if i is not None else UNK, enc_hol_com(args[2])]
    return UNK


def enc_hol_state(t):
    """(%x. k)(a1 := b1, ...) -> ["upd", f, name, value] / ["cf", value]"""
    from kernel.term import Term
    h, args = _head_args(t)
    if h.ty == Term.CONST and h.name == "fun_upd" and len(args) == 3:
        k = _num(args[1])
        return ["upd", enc_hol_state(args[0]), chr(97 + k) if k is not None and 0 <= k < 26 else "?", enc_hol(args[2], "\0")]
    if t.ty == Term.ABS:
        return ["cf", enc_hol(t.body, "\0")]
    return UNK


def enc_hol_pred(t):
    b = _abs_body(t)
    return enc_hol(b, 0) if b is not None else UNK


def enc_hol_vc(t):
    """!s. body  -> body tree"""
    from kernel.term import Term
    if t.ty == Term.COMB and t.fun.ty == Term.CONST and t.fun.name == "all" and t.arg.ty == Term.ABS:
        return enc_hol(t.arg.body, 0)
    return UNK


def enc_valid(t):
    """Valid P c Q -> [pre, prog, post]"""
    h, args = _head_args(t)
    from kernel.term import Term
    if h.ty == Term.CONST and h.name == "Valid" and len(args) == 3:
        return [enc_hol_pred(args[0]), enc_hol_com(args[1]), enc_hol_pred(args[2])]
    return [UNK, UNK, UNK]


def enc_sem(t):
    """Sem c s s2 -> [prog, s, s2]"""
    h, args = _head_args(t)
    from kernel.term import Term
    if h.ty == Term.CONST and h.name == "Sem" and len(args) == 3:
        return [enc_hol_com(args[0]), enc_hol_state(args[1]), enc_hol_state(args[2])]
    return [UNK, UNK, UNK]


# ------------------------------------------------------------------------------------------------
# random programs (inputs only)
# ------------------------------------------------------------------------------------------------
class Gen:
    def __init__(self, rnd, nat=False):
        self.r = rnd
        self.nat = nat

    def var(self):
        return ["v", self.r.choice(VARS)]

    def expr(self, d, mults=1):
        r = self.r
        if d == 0 or r.random() < 0.3:
            return self.var() if r.random() < 0.6 else ["n", r.randint(0, 2)]
        ops = ["+", "*"] if self.nat else ["+", "-", "-", "*", "neg"]
        op = r.choice(ops)
        if op == "*" and mults <= 0:
            op = "+"
        if op == "neg":
            return ["neg", self.expr(d - 1, mults)]
        m = mults - 1 if op == "*" else mults
        return [op, self.expr(d - 1, m), self.expr(d - 1, 0 if op == "*" else m)]

    def atom(self):
        r = self.r
        op = r.choice(["<", "<=", "==", "!="])
        return [op, self.expr(r.choice([0, 1, 1, 2])), self.expr(r.choice([0, 0, 1]))]

    def cond(self, d, imp=True):
        r = self.r
        if d == 0 or r.random() < 0.4:
            return self.atom()
        k = r.choice(["not", "and", "or"] + (["imp"] if imp else []))
        if k == "not":
            return ["not", self.cond(d - 1, imp)]
        return [k, self.cond(d - 1, imp), self.cond(d - 1, imp)]

    def eqguard(self):
        r = self.r
        op = r.choice(["==", "!=", "!="])
        return [op, self.var(), self.var() if r.random() < 0.3 else ["n", r.randint(0, 4)]]

    def likely_inv(self):
        r = self.r
        c = r.randint(0, 3)
        v, w = (["v", "x"], ["v", "y"]) if r.random() < 0.5 else (["v", "y"], ["v", "x"])
        forms = ([["true"]] if self.nat else [["<=", v, ["n", 2]]]) + [["<=", ["n", 0], v], ["<=", v, ["n", c]], ["==", ["+", v, w], ["n", c]], ["<=", v, w],
                 ["not", ["<", v, ["n", 0]]], ["==", v, ["n", c]]]
        return r.choice(forms)

    def assertion(self):
        return self.likely_inv() if self.r.random() < 0.5 else self.cond(2)

    def guard(self):
        if self.nat and self.r.random() < 0.7:
            return self.eqguard()
        return self.cond(1, imp=False)

    def tmp_branch(self, box):
        """assignment(s) to x, then a (possibly nested) conditional whose tests read x and whose branches assign y from
        expressions without x; used with postconditions about y only"""
        r = self.r
        X, Y = ["v", "x"], ["v", "y"]

        def ax():
            return ["asg", "x", r.choice([["+", X, ["n", 1]], ["-", X, ["n", 1]], ["-", ["-", X, Y], ["n", 1]], ["*", X, ["n", 2]],
                                           ["neg", X], ["+", X, Y]])]

        def gx():
            return r.choice([["<", X, ["n", r.randint(0, 2)]], ["<", ["n", r.randint(0, 1)], X],
                             ["==", X, ["n", r.randint(0, 2)]], ["not", ["<", X, Y]], ["and", ["<", ["n", 0], X], ["<", X, ["n", 2]]]])

        def ay():
            return r.choice([["asg", "y", ["n", r.randint(0, 2)]], ["asg", "y", ["+", Y, ["n", 1]]], ["asg", "y", ["-", Y, ["n", 1]]], ["skip"]])

        def cond(d):
            if d == 0 or r.random() < 0.5:
                return ["if", gx(), ay(), ay()]
            return ["if", gx(), cond(d - 1), ay() if r.random() < 0.6 else cond(d - 1)]
        body = ["seq", ax(), cond(2)]
        if r.random() < 0.4:
            body = ["seq", ax(), body]
        k = r.random()
        if k < 0.25:
            return ["seq", ["while", self.guard(), boxed(box, self.likely_inv()), self.com(0, box)], body]
        if k < 0.45:
            return ["while", self.guard(), boxed(box, self.y_assertion()), body]
        return body

    def y_assertion(self):
        r = self.r
        Y = ["v", "y"]
        return r.choice([["==", Y, ["n", r.randint(0, 2)]], ["<=", Y, ["n", r.randint(0, 1)]], ["<", ["n", 0], Y],
                         ["not", ["==", Y, ["n", 1]]], ["or", ["==", Y, ["n", 0]], ["==", Y, ["n", 1]]]])

    def com(self, d, box):
        r = self.r
        if d == 0 or r.random() < 0.15:
            if r.random() < 0.1:
                return ["skip"]
            return ["asg", r.choice(VARS), self.expr(2)]
        k = r.choice(["seq", "seq", "if", "while"])
        if k == "seq":
            return ["seq", self.com(d - 1, box), self.com(d - 1, box)]
        if k == "if":
            return ["if", self.guard(), self.com(d - 1, box), self.com(d - 1, box)]
        return ["while", self.guard(), boxed(box, self.assertion()), self.com(d - 1, box)]


def lit(k):
    return ["neg", ["n", -k]] if k < 0 else ["n", k]


def box_atoms(lo, hi, need_lower):
    res = []
    for x in VARS:
        if need_lower:
            res.append(["<=", lit(lo), ["v", x]])
        res.append(["<=", ["v", x], lit(hi)])
    return res


def and_chain(atoms):
    return atoms[0] if len(atoms) == 1 else ["and", atoms[0], and_chain(atoms[1:])]


def box_cond(lo, hi, need_lower):
    return and_chain(box_atoms(lo, hi, need_lower))


def boxed(box, a):
    """right-nested chain: box atoms, then the assertion"""
    if box[0] == "and":
        return ["and", box[1], boxed(box[2], a)]
    return ["and", box, a]


IBOX = box_cond(-2, 2, True)
NBOX = box_cond(0, 3, False)


# ------------------------------------------------------------------------------------------------
# (a) + (c)  imperative/com.py
# ------------------------------------------------------------------------------------------------
def chains(c):
    """The pre/post chains of every sub-command in the order get_lines visits them (raw object state)."""
    from imperative import com
    out = []

    def rec(cmd):
        out.append(list(cmd.pre))
        if type(cmd) is com.Seq:
            rec(cmd.c1)
            rec(cmd.c2)
        elif type(cmd) is com.Cond:
            rec(cmd.c1)
            rec(cmd.c2)
        elif type(cmd) is com.While:
            rec(cmd.c)
            out.append(list(cmd.post))
    rec(c)
    return out


def computed_vcs(c):
    """The condition objects the code forms from consecutive elements of each chain (mirror of Com.get_lines.add_vc)."""
    E = _E()
    res = []
    for ls in chains(c):
        for i in range(len(ls) - 1):
            a = ls[i]
            is_true = type(a) is E.Const and a.val is True
            res.append(ls[i + 1] if is_true else E.implies(ls[i], ls[i + 1]))
    return res


def observe(c, vars_, cross=False):
    """After compute_wp: the computed trees, what the user is shown, and what is parsed back."""
    from imperative.parser2 import cond_parser
    lines = [l for l in c.get_lines(vars_) if l["ty"] == "vc"]
    strs = c.get_vcs(vars_) if cross else [l["str"] for l in lines]
    trees = computed_vcs(c)
    vcs = []
    for i, l in enumerate(lines):
        s = l["str"]
        try:
            r, rok = enc_expr(cond_parser.parse(s)), "ok"
        except Exception as ex:
            r, rok = UNK, "error:" + type(ex).__name__
        vcs.append({"t": enc_expr(trees[i]) if i < len(trees) else UNK, "s": s, "r": r, "rok": rok,
                    "h": enc_hol(l["prop"], None)})
    return vcs, len(trees), strs == [l["str"] for l in lines]


def run_com(prog, pre, post, mode, tid, origin):
    from imperative.parser2 import com_parser
    vars_ = {"x": "int", "y": "int"}
    ev = {"tid": tid, "kind": "com", "mode": mode, "origin": origin, "prog": prog, "pre": pre, "post": post,
          "key": "%s:%s" % (mode, digest([prog, pre, post])), "wp": UNK, "vcs": [], "first": [], "ntrees": 0,
          "rt": UNK, "rtok": "none", "shown": ""}
    try:
        c = dec_com(prog)
        P, Q = dec_expr(pre), dec_expr(post)
        c.pre = [P]
        wp = c.compute_wp(Q)
        vcs, ntrees, same = observe(c, vars_, cross=(tid % 8 == 0))
        if mode == "twice":
            ev["first"] = [v["t"] for v in vcs]
            wp = c.compute_wp(Q)
            vcs, ntrees, same = observe(c, vars_)
        ev["wp"] = enc_expr(wp)
        ev["vcs"] = vcs
        ev["ntrees"] = ntrees
        ev["outcome"] = "ok" if same else "error:get_vcs"
        # the program as shown to the user and read back (app/imperative.py round trip)
        shown = "\n".join(dec_com(prog).print_com(vars_))
        ev["shown"] = shown
        try:
            ev["rt"], ev["rtok"] = enc_com(com_parser.parse(shown)), "ok"
        except Exception as ex:
            ev["rtok"] = "error:" + type(ex).__name__
    except Exception as ex:
        ev["outcome"] = "error:" + type(ex).__name__
    return ev


def first_while(c):
    """the loop whose invariant SetInv of the specification replaces (leftmost, outermost)"""
    from imperative import com
    t = type(c)
    if t is com.While:
        return c
    if t is com.Seq or t is com.Cond:
        return first_while(c.c1) or first_while(c.c2)
    return None


def run_hist(prog, steps, inv2, tid, origin):
    """History on ONE command object: for every step (pre, post):  c.pre = [pre]; c.compute_wp(post); c.get_vcs(vars);
    before the last step the invariant of the first loop is replaced by inv2 (unless inv2 = ["true"]).
    The event describes the object after the last step: its program, the last (pre, post), the conditions it shows;
    `first` = the condition trees a FRESH object of the same final program gives for the last triple."""
    vars_ = {"x": "int", "y": "int"}
    pre, post = steps[-1]
    ev = {"tid": tid, "kind": "com", "mode": "hist", "origin": origin, "vprog": prog, "prog": prog, "pre": pre, "post": post,
          "steps": steps, "inv2": inv2, "key": "hist:%s" % digest([prog, steps, inv2]), "wp": UNK, "vcs": [], "first": [],
          "ntrees": 0, "rt": prog, "rtok": "ok", "shown": ""}
    try:
        c = dec_com(prog)
        same = True
        for k, (P, Q) in enumerate(steps):
            if k == len(steps) - 1 and inv2 != ["true"]:
                w = first_while(c)
                if w is not None:
                    w.inv = dec_expr(inv2)
            c.pre = [dec_expr(P)]
            wp = c.compute_wp(dec_expr(Q))
            if k < len(steps) - 1:
                c.get_vcs(vars_)
        vcs, ntrees, same = observe(c, vars_, cross=True)
        final = enc_com(c)
        ev["prog"] = final
        ev["rt"] = final
        ev["wp"] = enc_expr(wp)
        ev["vcs"] = vcs
        ev["ntrees"] = ntrees
        ev["outcome"] = "ok" if same else "error:get_vcs"
        f = dec_com(final)
        f.pre = [dec_expr(pre)]
        f.compute_wp(dec_expr(post))
        ev["first"] = [enc_expr(t) for t in computed_vcs(f)]
    except Exception as ex:
        ev["outcome"] = "error:" + type(ex).__name__
    return ev


def self_pre(prog, post):
    """box & wp, where wp is what compute_wp returns on a fresh object (input construction only)"""
    try:
        wp = enc_expr(dec_com(prog).compute_wp(dec_expr(post)))
    except Exception:
        return None
    if "?" in json.dumps(wp):
        return None
    return boxed(IBOX, wp)


def main_hist(hist_path, out_path, tid_base):
    from logic import basic
    basic.load_theory("hoare")
    tid = tid_base
    with open(out_path, "w") as out:
        for ln in open(hist_path):
            if ln.strip():
                v = json.loads(ln)
                tid += 1
                ev = run_hist(v["prog"], [[v["p1"], v["q1"]], [v["p2"], v["q2"]]], v["inv2"], tid, "tlc-hist")
                out.write(json.dumps(ev, separators=(",", ":")) + "\n")


def main_com(vec_path, out_path, seed, nrandom, maxnest, twice_every, tid_base=0):
    from logic import basic
    basic.load_theory("hoare")
    rnd = random.Random(seed * 7919 + 20 + tid_base)
    tid = tid_base
    n = 0
    selfdone, seen = set(), set()
    allkeys = set()
    with open(vec_path) as f:
        for ln in f:
            if ln.strip():
                v = json.loads(ln)
                allkeys.add(digest([v["prog"], v["pre"], v["post"]]))
    with open(out_path, "w") as out:
        def emit(ev):
            out.write(json.dumps(ev, separators=(",", ":")) + "\n")
        with open(vec_path) as f:
            for ln in f:
                ln = ln.strip()
                if not ln:
                    continue
                v = json.loads(ln)
                if v["dom"] != "int":
                    continue
                n += 1
                tid += 1
                emit(run_com(v["prog"], v["pre"], v["post"], "fresh", tid, "tlc"))
                seen.add(digest([v["prog"], v["pre"], v["post"]]))
                k = digest([v["prog"], v["post"]])
                if k not in selfdone:
                    # the same program and postcondition, precondition := box & (the wp the code itself computes);
                    # on a correct tree this coincides with the reference-wp triple of the universe and is skipped
                    selfdone.add(k)
                    sp = self_pre(v["prog"], v["post"])
                    if sp is not None and digest([v["prog"], sp, v["post"]]) not in allkeys:
                        tid += 1
                        emit(run_com(v["prog"], sp, v["post"], "fresh", tid, "tlc-selfpre"))
                if twice_every and n % (2 * twice_every) == twice_every:
                    # the same object, then the weakest precondition of the box for the same postcondition
                    tid += 1
                    emit(run_hist(v["prog"], [[v["pre"], v["post"]], [IBOX, v["post"]]], ["true"], tid, "tlc"))
                if twice_every and n % (2 * twice_every) == 0:
                    tid += 1
                    emit(run_com(v["prog"], v["pre"], v["post"], "twice", tid, "tlc"))
        g = Gen(rnd)
        for i in range(nrandom):
            if i % 5 == 3:
                # "branch on a temporary": the postcondition is silent about the variable the tests read
                prog = g.tmp_branch(IBOX)
                pre = boxed(IBOX, g.likely_inv()) if rnd.random() < 0.5 else IBOX
                post = g.y_assertion()
            else:
                prog = g.com(rnd.randint(1, maxnest), IBOX)
                pre = boxed(IBOX, g.assertion())
                post = g.assertion()
            tid += 1
            emit(run_com(prog, pre, post, "twice" if i % 10 == 9 else "fresh", tid, "random"))
            if i % 10 in (4, 7):
                # a history on one object: another (often weaker) precondition, sometimes another postcondition / invariant
                pre2 = IBOX if rnd.random() < 0.5 else boxed(IBOX, g.likely_inv())
                post2 = post if rnd.random() < 0.7 else g.assertion()
                inv2 = boxed(IBOX, g.likely_inv()) if rnd.random() < 0.2 else ["true"]
                tid += 1
                emit(run_hist(prog, [[pre, post], [pre2, post2]], inv2, tid, "random"))
            if i % 2 == 0 or i % 5 == 3:
                sp = self_pre(prog, post)
                if sp is not None:
                    tid += 1
                    emit(run_com(prog, sp, post, "fresh", tid, "random-selfpre"))


# ------------------------------------------------------------------------------------------------
# (b)  imperative/imp.py
# ------------------------------------------------------------------------------------------------
class HolBuild:
    """program / condition trees -> the HOL terms of imperative/imp.py over states nat => nat"""

    def __init__(self):
        from kernel.type import TFun, NatType
        from kernel.term import Var
        self.natFunT = TFun(NatType, NatType)
        self.st = Var("s", self.natFunT)

    def idx(self, name):
        return ord(name) - ord("a")

    def e(self, j):
        from kernel.term import Nat
        from data import nat
        k = j[0]
        if k == "v":
            return self.st(Nat(self.idx(j[1])))
        if k == "n":
            return Nat(j[1])
        if k == "+":
            return nat.plus(self.e(j[1]), self.e(j[2]))
        if k == "*":
            return nat.times(self.e(j[1]), self.e(j[2]))
        raise ValueError("HolBuild.e: %r" % (j,))

    def b(self, j):
        from kernel.term import Eq, Not, And, Or, Implies, true
        from data import nat
        k = j[0]
        if k == "==":
            return Eq(self.e(j[1]), self.e(j[2]))
        if k == "!=":
            return Not(Eq(self.e(j[1]), self.e(j[2])))
        if k == "<=":
            return nat.less_eq(self.e(j[1]), self.e(j[2]))
        if k == "<":
            return nat.less(self.e(j[1]), self.e(j[2]))
        if k == "true":
            return true
        if k == "not":
            return Not(self.b(j[1]))
        if k == "and":
            return And(self.b(j[1]), self.b(j[2]))
        if k == "or":
            return Or(self.b(j[1]), self.b(j[2]))
        if k == "imp":
            return Implies(self.b(j[1]), self.b(j[2]))
        if k == "ite":
            from logic import logic
            return logic.mk_if(self.b(j[1]), self.b(j[2]), self.b(j[3]))
        raise ValueError("HolBuild.b: %r" % (j,))

    def pred(self, j):
        from kernel.term import Lambda
        return Lambda(self.st, self.b(j))

    def c(self, j):
        from imperative import imp
        from kernel.term import Lambda, Nat
        from kernel.type import NatType
        T = self.natFunT
        k = j[0]
        if k == "skip":
            return imp.Skip(T)
        if k == "asg":
            return imp.Assign(NatType, NatType)(Nat(self.idx(j[1])), Lambda(self.st, self.e(j[2])))
        if k == "seq":
            return imp.Seq(T)(self.c(j[1]), self.c(j[2]))
        if k == "if":
            return imp.Cond(T)(self.pred(j[1]), self.c(j[2]), self.c(j[3]))
        if k == "while":
            return imp.While(T)(self.pred(j[1]), self.pred(j[2]), self.c(j[3]))
        raise ValueError("HolBuild.c: %r" % (j,))

    def state(self, s0):
        from kernel.term import Nat
        from kernel.type import NatType
        from data import nat
        from data.function import mk_const_fun, mk_fun_upd
        st = mk_const_fun(NatType, nat.zero)
        for name in sorted(s0):
            st = mk_fun_upd(st, Nat(self.idx(name)), Nat(s0[name]))
        return st


# concrete syntax of imperative/parser.py (no brackets, no negation): used when the whole program can be written in it
def text_e(j):
    k = j[0]
    if k == "v":
        return j[1]
    if k == "n":
        return str(j[1])
    if k in ("+", "*") and j[1][0] in ("v", "n"):
        return "%s %s %s" % (text_e(j[1]), k, text_e(j[2]))
    raise ValueError


def text_b(j):
    k = j[0]
    if k in ("==", "!=", "<=", "<"):
        return "%s %s %s" % (text_e(j[1]), k, text_e(j[2]))
    if k == "true":
        return "true"
    if k in ("and", "or") and j[1][0] in ("==", "!=", "<=", "<", "true"):
        return "%s %s %s" % (text_b(j[1]), "&" if k == "and" else "|", text_b(j[2]))
    raise ValueError


def text_c(j, top=True):
    k = j[0]
    if k == "skip":
        return "skip"
    if k == "asg":
        return "%s := %s" % (j[1], text_e(j[2]))
    if k == "seq" and j[1][0] != "seq":
        return "%s; %s" % (text_c(j[1]), text_c(j[2]))
    if k == "if" and j[3][0] != "seq":
        return "if (%s) then %s else %s" % (text_b(j[1]), text_c(j[2]), text_c(j[3]))
    if k == "while":
        return "while (%s) { [%s] %s }" % (text_b(j[1]), text_b(j[2]), text_c(j[3]))
    raise ValueError


def build_prog(hb, prog):
    """through imperative/parser.py when the program can be written in its grammar, else directly"""
    from imperative.parser import parse_com
    try:
        txt = text_c(prog)
    except ValueError:
        return hb.c(prog), "direct"
    try:
        return parse_com(txt), "parser"
    except Exception:
        return hb.c(prog), "direct"


class Timeout(Exception):
    pass


def _alarm(signum, frame):
    raise Timeout()


def limited(seconds, f, *args):
    """run f(*args) under a wall-clock limit (inputs whose symbolic evaluation explodes are simply not examined)"""
    import signal
    signal.signal(signal.SIGALRM, _alarm)
    signal.setitimer(signal.ITIMER_REAL, seconds, 1.0)     # re-fires every second in case something swallows it
    try:
        return f(*args)
    finally:
        signal.setitimer(signal.ITIMER_REAL, 0)


def run_sem(hb, prog, s0, tid, origin):
    from imperative import imp
    from kernel import theory
    ev = {"tid": tid, "kind": "sem", "origin": origin, "vprog": prog, "s0": s0, "key": "sem:%s" % digest([prog, s0]),
          "goal": [UNK, UNK, UNK], "chk": "none", "chk_goal": [UNK, UNK, UNK], "chk_hyps": 0}
    c, ev["via"] = build_prog(hb, prog)
    ev["prog"] = enc_hol_com(c)
    st = hb.state(s0)
    ev["st"] = enc_hol_state(st)
    try:
        pt = limited(10, imp.eval_Sem, c, st)
        ev["outcome"] = "ok"
        ev["goal"] = enc_sem(pt.prop)
        ev["hyps"] = len(pt.hyps)
    except RecursionError:
        ev["outcome"] = "error:RecursionError"
        return ev
    except Exception as ex:
        ev["outcome"] = "error:" + type(ex).__name__
        return ev
    try:
        th = limited(30, theory.check_proof, pt.export())
        ev["chk"] = "accepted"
        ev["chk_goal"] = enc_sem(th.prop)
        ev["chk_hyps"] = len(th.hyps)
    except Exception as ex:
        ev["chk"] = "rejected:" + type(ex).__name__
    return ev


def run_vcg(hb, prog, pre, post, tid, origin):
    from imperative import imp
    from kernel import theory
    ev = {"tid": tid, "kind": "vcg", "origin": origin, "vprog": prog, "vpre": pre, "vpost": post, "key": "vcg:%s" % digest([prog, pre, post]),
          "vcs": [], "concl": [UNK, UNK, UNK], "chk": "none", "chk_vcs": [], "chk_concl": [UNK, UNK, UNK], "chk_hyps": 0}
    c, ev["via"] = build_prog(hb, prog)
    goal = imp.Valid(hb.natFunT)(hb.pred(pre), c, hb.pred(post))
    ev["pre"], ev["prog"], ev["post"] = enc_valid(goal)
    try:
        pt = limited(30, imp.vcg_norm, hb.natFunT, goal)
        As, concl = pt.prop.strip_implies()
        ev["outcome"] = "ok"
        ev["vcs"] = [enc_hol_vc(A) for A in As]
        ev["concl"] = enc_valid(concl)
        ev["hyps"] = len(pt.hyps)
    except RecursionError:
        ev["outcome"] = "error:RecursionError"
        return ev
    except Exception as ex:
        ev["outcome"] = "error:" + type(ex).__name__
        return ev
    try:
        th = limited(60, theory.check_proof, pt.export())
        As, concl = th.prop.strip_implies()
        ev["chk"] = "accepted"
        ev["chk_vcs"] = [enc_hol_vc(A) for A in As]
        ev["chk_concl"] = enc_valid(concl)
        ev["chk_hyps"] = len(th.hyps)
    except Exception as ex:
        ev["chk"] = "rejected:" + type(ex).__name__
    return ev


def sample(rnd, items, n):
    if len(items) <= n:
        return items
    idx = sorted(rnd.sample(range(len(items)), n))
    return [items[i] for i in idx]


def main_imp(trip_path, sem_path, out_path, seed, nsem, nvcg, nrandom, tid_base=5000000):
    from logic import basic
    basic.load_theory("hoare")
    from imperative import parser as _p   # noqa: F401  (registers nothing, but loads the grammar once)
    sys.setrecursionlimit(3000)
    rnd = random.Random(seed * 104729 + 20)
    hb = HolBuild()
    trips = [v for v in (json.loads(ln) for ln in open(trip_path) if ln.strip()) if v["dom"] == "nat"]
    sems = [json.loads(ln) for ln in open(sem_path) if ln.strip()]
    tid = tid_base
    with open(out_path, "w") as out:
        def emit(ev):
            out.write(json.dumps(ev, separators=(",", ":")) + "\n")
            out.flush()
        for v in sample(rnd, sems, nsem):
            tid += 1
            emit(run_sem(hb, v["prog"], v["s0"], tid, "tlc"))
        # input selection (no verdict): a third of the sample from the triples whose reference conditions all hold, a third
        # from those where exactly one fails (most sensitive to a change of a single condition), the rest from the others;
        # three quarters of each from programs with loops
        def has_loop(j):
            return isinstance(j, list) and (j[:1] == ["while"] or any(has_loop(x) for x in j[1:]))

        def pick(pool, n):
            lo = [v for v in pool if has_loop(v["prog"])]
            st = [v for v in pool if not has_loop(v["prog"])]
            a = sample(rnd, lo, n - n // 4)
            return a + sample(rnd, st, n - len(a))
        third = nvcg // 3
        chosen = (pick([v for v in trips if v.get("nfail") == 0], third) + pick([v for v in trips if v.get("nfail") == 1], third)
                  + pick([v for v in trips if v.get("nfail", 2) >= 2], nvcg - 2 * third))
        for v in chosen:
            tid += 1
            emit(run_vcg(hb, v["prog"], v["pre"], v["post"], tid, "tlc"))
        g = Gen(rnd, nat=True)
        for i in range(nrandom):
            prog = g.com(rnd.randint(1, 3), NBOX)
            tid += 1
            if i % 2 == 0:
                emit(run_vcg(hb, prog, boxed(NBOX, g.likely_inv() if rnd.random() < 0.6 else g.cond(1)), g.assertion(), tid, "random"))
            else:
                sys.setrecursionlimit(400)
                emit(run_sem(hb, prog, {"x": rnd.randint(0, 3), "y": rnd.randint(0, 3)}, tid, "random"))
                sys.setrecursionlimit(3000)


def main_one(ev_path, out_path):
    from logic import basic
    basic.load_theory("hoare")
    e = json.load(open(ev_path))
    if e["kind"] == "com" and e.get("mode") == "hist":
        ev = run_hist(e["vprog"], e["steps"], e["inv2"], e["tid"], e.get("origin", "replay"))
    elif e["kind"] == "com":
        ev = run_com(e["prog"], e["pre"], e["post"], e["mode"], e["tid"], e.get("origin", "replay"))
    elif e["kind"] == "sem":
        sys.setrecursionlimit(3000)
        ev = run_sem(HolBuild(), e["vprog"], e["s0"], e["tid"], e.get("origin", "replay"))
    else:
        sys.setrecursionlimit(3000)
        ev = run_vcg(HolBuild(), e["vprog"], e["vpre"], e["vpost"], e["tid"], e.get("origin", "replay"))
    with open(out_path, "w") as out:
        out.write(json.dumps(ev, separators=(",", ":")) + "\n")


if __name__ == "__main__":
    mode = sys.argv[1]
    if mode == "com":
        main_com(sys.argv[2], sys.argv[3], int(sys.argv[4]), int(sys.argv[5]), int(sys.argv[6]), int(sys.argv[7]),
                 int(sys.argv[8]) if len(sys.argv) > 8 else 0)
    elif mode == "hist":
        main_hist(sys.argv[2], sys.argv[3], int(sys.argv[4]))
    elif mode == "one":
        main_one(sys.argv[2], sys.argv[3])
    elif mode == "imp":
        main_imp(sys.argv[2], sys.argv[3], sys.argv[4], int(sys.argv[5]), int(sys.argv[6]), int(sys.argv[7]), int(sys.argv[8]))
    else:
        raise SystemExit("unknown mode " + mode)
