"""C06 driver: prover/z3wrapper.py and prover/sympywrapper.py on real HOL terms.

modes
  z3vec  <vectors.ndjson> <out.ndjson> <k> <n>   every TLC-generated goal (C06_Bridge universe) whose index is k mod n is built as a
                                                 real HOL term and given to z3wrapper.solve; every 2nd goal of the form A --> B is also split
                                                 and given to Z3Macro.eval (premises as previous theorems) and, for every 7th vector,
                                                 to the proof checker as a one-step proof
  z3rand <out.ndjson> <n> <seed>                 the goals of the repository's own z3 tests, a deterministic family around the
                                                 translation's special cases, and n seeded random goals over nat / int / real / bool /
                                                 'a with min, max, abs, if, truncated minus, of_nat, real division, predicates and sets
  sympy  <out.ndjson> <n> <seed>                 deterministic polynomial identity / non-identity families, n seeded random
                                                 (in)equalities and disequalities over polynomials and rational functions with and
                                                 without an interval-membership premise, and a few transcendental goals (recorded, never judged)
  mixed  <out_z3> <out_sympy> <nz3> <nsympy> <seed> <stride>   z3rand then sympy in one process (stride > 1 = quick tier: every stride-th interval
                                                 of the SymPy family, every stride-th function type and one premise set of the history family)
  event  <in.ndjson> <out.ndjson>                re-run recorded events (replay of a finding)
Events: {tid, key, solver, goal, prems, acc "yes"|"no"|"exc"|"timeout" (Z3 interrupted by the driver's watchdog), exc, flag (z3wrapper.check_z3), src}.
goal / prems are structural projections of the REAL terms given to the bridge (applied form of spec/C06_Sem.tla).
No verdict is computed here.
"""
import json
import random
import sys
from fractions import Fraction

from kernel.type import Type, TVar, TConst, TFun, BoolType, NatType, IntType, RealType
from kernel.term import Term, Var, Const, Comb, Abs, Bound
from kernel.thm import Thm
from kernel import theory
from kernel.proofterm import ProofTerm
from logic import basic

INT31 = 2 ** 31 - 1
Z3_TIMEOUT_MS = 1500


# ------------------------------------------------------------------------------------------------
# types <-> strings
# ------------------------------------------------------------------------------------------------

def tstr(T):
    if T.ty == Type.TVAR:
        return "'" + T.name
    if T.ty == Type.STVAR:
        return "?'" + T.name
    if T.name == "fun" and len(T.args) == 2:
        return "(" + tstr(T.args[0]) + "=>" + tstr(T.args[1]) + ")"
    if not T.args:
        return T.name
    return "(" + " ".join(tstr(a) for a in T.args) + " " + T.name + ")"


def tparse(s):
    s = s.strip()
    if s.startswith("("):
        inner = s[1:-1]
        depth = 0
        for i, ch in enumerate(inner):
            if ch == "(":
                depth += 1
            elif ch == ")":
                depth -= 1
            elif depth == 0 and inner.startswith("=>", i):
                return TFun(tparse(inner[:i]), tparse(inner[i + 2:]))
        # "(A name)"
        j = inner.rindex(" ")
        return TConst(inner[j + 1:], tparse(inner[:j]))
    if s.startswith("'"):
        return TVar(s[1:])
    return TConst(s)


# ------------------------------------------------------------------------------------------------
# projection  Term -> node   (raw fields only: no Term.__eq__, no printer, no is_number)
# ------------------------------------------------------------------------------------------------

def _binary(t):
    """value of a bit0/bit1 numeral (None if t is not one)"""
    if t.ty == Term.CONST and t.name == "zero" and tstr(t.T) == "nat":
        return 0
    if t.ty == Term.CONST and t.name == "one" and tstr(t.T) == "nat":
        return 1
    if t.ty == Term.COMB and t.fun.ty == Term.CONST and t.fun.name in ("bit0", "bit1"):
        v = _binary(t.arg)
        if v is None:
            return None
        return 2 * v + (1 if t.fun.name == "bit1" else 0)
    return None


def _peel(T, n):
    for _ in range(n):
        if not (T.ty == Type.TCONST and T.name == "fun" and len(T.args) == 2):
            return None
        T = T.args[1]
    return T


def enc(t, benv=()):
    ty = t.ty
    if ty == Term.VAR:
        return ["var", t.name, tstr(t.T), 0, []]
    if ty == Term.BOUND:
        if t.n < len(benv):
            return ["bound", "", tstr(benv[t.n]), t.n, []]
        return ["other", "loose", "?", 0, []]
    if ty == Term.CONST:
        if t.name in ("zero", "one") and not t.T.args:
            return ["num", "", tstr(t.T), 0 if t.name == "zero" else 1, []]
        return ["op", t.name, tstr(t.T), 0, []]
    if ty == Term.COMB:
        args = []
        h = t
        while h.ty == Term.COMB:
            args.append(h.arg)
            h = h.fun
        args.reverse()
        if h.ty == Term.CONST:
            if h.name == "of_nat" and len(args) == 1:
                v = _binary(args[0])
                RT = _peel(h.T, 1)
                if v is not None and RT is not None and v <= INT31:
                    return ["num", "", tstr(RT), v, []]
            if h.name in ("all", "exists") and len(args) == 1:
                a = args[0]
                if a.ty == Term.ABS:
                    return [h.name, a.var_name, tstr(a.var_T), 0, [enc(a.body, (a.var_T,) + tuple(benv))]]
                return ["other", h.name, "bool", 0, []]
            RT = _peel(h.T, len(args))
            if RT is None:
                return ["other", h.name, "?", 0, []]
            return ["op", h.name, tstr(RT), 0, [enc(a, benv) for a in args]]
        if h.ty == Term.VAR:
            RT = _peel(h.T, len(args))
            if RT is None:
                return ["other", h.name, "?", 0, []]
            return ["app", h.name, tstr(RT), 0, [enc(a, benv) for a in args]]
        return ["other", "redex", "?", 0, []]
    if ty == Term.ABS:
        return ["lam", t.var_name, tstr(t.var_T), 0, [enc(t.body, (t.var_T,) + tuple(benv))]]
    return ["other", "svar", "?", 0, []]


# ------------------------------------------------------------------------------------------------
# construction  node -> Term
# ------------------------------------------------------------------------------------------------

def ntype(j):
    if j[0] in ("all", "exists"):
        return "bool"
    if j[0] == "lam":
        return "(" + j[2] + "=>" + ntype(j[4][0]) + ")"
    return j[2]


def number(T, n):
    if n == 0:
        return Const("zero", T)
    if n == 1:
        return Const("one", T)
    b = Const("one", NatType)
    for bit in bin(n)[3:]:
        b = Comb(Const("bit1" if bit == "1" else "bit0", TFun(NatType, NatType)), b)
    return Comb(Const("of_nat", TFun(NatType, T)), b)


def build(j):
    k = j[0]
    if k == "var":
        return Var(j[1], tparse(j[2]))
    if k == "bound":
        return Bound(j[3])
    if k == "num":
        return number(tparse(j[2]), j[3])
    if k in ("all", "exists"):
        T = tparse(j[2])
        return Comb(Const(k, TFun(TFun(T, BoolType), BoolType)), Abs(j[1], T, build(j[4][0])))
    if k == "lam":
        return Abs(j[1], tparse(j[2]), build(j[4][0]))
    if k in ("op", "app"):
        T = tparse(j[2])
        for c in reversed(j[4]):
            T = TFun(tparse(ntype(c)), T)
        h = Const(j[1], T) if k == "op" else Var(j[1], T)
        for c in j[4]:
            h = Comb(h, build(c))
        return h
    raise ValueError("c06.build: cannot build %r" % (j,))


def buildable(j):
    return j[0] != "other" and all(buildable(c) for c in j[4])


# ------------------------------------------------------------------------------------------------
# a compact rendering used only as a stable event key
# ------------------------------------------------------------------------------------------------

INFIX = {"plus": "+", "minus": "-", "times": "*", "real_divide": "/", "less": "<", "less_eq": "<=", "greater": ">", "greater_eq": ">=",
         "equals": "=", "conj": "&", "disj": "|", "implies": "-->", "member": "Mem", "power": "^"}


def show(j, names=()):
    k = j[0]
    if k == "var":
        return j[1]
    if k == "bound":
        return names[j[3]] if j[3] < len(names) else "B%d" % j[3]
    if k == "num":
        return "(%d::%s)" % (j[3], j[2])
    if k in ("all", "exists", "lam"):
        nm = j[1] + str(len(names))
        return "(%s%s::%s. %s)" % ({"all": "!", "exists": "?", "lam": "%"}[k], nm, j[2], show(j[4][0], (nm,) + tuple(names)))
    if k in ("op", "app"):
        if k == "op" and j[1] in INFIX and len(j[4]) == 2:
            return "(%s %s %s)" % (show(j[4][0], names), INFIX[j[1]], show(j[4][1], names))
        if not j[4]:
            return j[1]
        return "(%s %s)" % (j[1], " ".join(show(c, names) for c in j[4]))
    return "<%s>" % j[1]


# ------------------------------------------------------------------------------------------------
# running the bridge
# ------------------------------------------------------------------------------------------------

class Out:
    def __init__(self, path, base=0):
        self.f = open(path, "w")
        self.tid = base
        from prover import z3wrapper
        self.z3w = z3wrapper

    def emit(self, solver, goal_t, prem_ts, acc, exc, src, route=""):
        g = enc(goal_t)
        ps = [enc(p) for p in prem_ts]
        self.tid += 1
        fv = {}
        for j in ps + [g]:
            all_vars(j, fv)
        key = "%s%s: %s [%s]" % (solver, "[" + route + "]" if route else "", " ; ".join([show(p) for p in ps] + ["|- " + show(g)]),
                               ", ".join("%s::%s" % kv for kv in sorted(fv.items())))
        ev = {"tid": self.tid, "key": key[:500], "solver": solver, "goal": g, "prems": ps, "acc": acc, "exc": exc[:200],
              "flag": bool(self.z3w.check_z3), "src": src, "route": route}
        self.f.write(json.dumps(ev, separators=(",", ":")) + "\n")

    def close(self):
        self.f.close()


class Watchdog:
    """Harness safety only (z3wrapper.solve has no time limit): when Z3 has not answered after the limit it is interrupted
    (check() then returns unknown = "not solved"), again every half second until the call returns; if it still has not
    returned after HARD_LIMIT_S the driver process gives up with exit code 3 (a machinery failure, never a verdict)."""
    HARD_LIMIT_S = 120.0

    def __init__(self):
        import threading
        self.done = threading.Event()
        self.fired = False
        self.t = threading.Thread(target=self.run, daemon=True)
        self.t.start()

    def run(self):
        import os
        import time
        import z3
        if self.done.wait(Z3_TIMEOUT_MS / 1000.0 + 1.0):
            return
        t0 = time.time()
        while not self.done.is_set():
            self.fired = True
            z3.main_ctx().interrupt()
            if time.time() - t0 > self.HARD_LIMIT_S:
                sys.stderr.write("c06: Z3 did not react to interrupts for %d s; giving up\n" % self.HARD_LIMIT_S)
                sys.stderr.flush()
                os._exit(3)
            self.done.wait(0.5)

    def stop(self):
        self.done.set()


def call(fn, watchdog=False):
    wd = Watchdog() if watchdog else None
    try:
        r = fn()
    except AssertionError as e:
        if wd is not None and wd.fired:
            return "timeout", "interrupted by the driver's watchdog; AssertionError: " + str(e)
        return "no", "AssertionError: " + str(e)
    except Exception as e:  # noqa
        return "exc", "%s: %s" % (type(e).__name__, e)
    finally:
        if wd is not None:
            wd.stop()
    if wd is not None and wd.fired and r is not True and not isinstance(r, Thm):
        return "timeout", "interrupted by the driver's watchdog"
    if r is True:
        return "yes", ""
    if r is False:
        return "no", ""
    # sympy relational / numpy-like truth values, theorems returned by macros
    if isinstance(r, Thm):
        return "yes", ""
    return ("yes" if r == True else "no"), "returned " + type(r).__name__  # noqa: E712


def implies_term(prems, goal):
    imp = Const("implies", TFun(BoolType, BoolType, BoolType))
    t = goal
    for p in reversed(prems):
        t = Comb(Comb(imp, p), t)
    return t


def run_z3(out, goal_t, prem_ts, src, routes=("solve",)):
    z3w = out.z3w
    if "solve" in routes:
        full = implies_term(prem_ts, goal_t)
        acc, exc = call(lambda: z3w.solve(full), watchdog=True)
        out.emit("z3.solve", full, [], acc, exc, src)
        if acc == "exc" and not src.endswith(":after-exc"):
            follow_up(out, enc(full), src)
    if "giveup" in routes:
        # the same goal with a resource limit under which Z3 gives up ("unknown") on everything but trivial goals:
        # a solver that gives up has not proved anything
        import z3
        full = implies_term(prem_ts, goal_t)
        z3.set_param("rlimit", 10)
        try:
            acc, exc = call(lambda: z3w.solve(full), watchdog=True)
        finally:
            z3.set_param("rlimit", 0)
        out.emit("z3.solve", full, [], acc, exc, src, route="giveup")
    if "macro" in routes:
        macro = theory.global_macros["z3"]
        prevs = [Thm(p, p) for p in prem_ts]

        def f():
            th = macro.eval(goal_t, prevs)
            return isinstance(th, Thm)
        acc, exc = call(f, watchdog=True)
        out.emit("z3.macro", goal_t, prem_ts, acc, exc, src)
        if acc == "exc" and not src.endswith(":after-exc"):
            follow_up(out, enc(implies_term(prem_ts, goal_t)), src)
    if "proof" in routes:
        def g():
            pt = ProofTerm("z3", args=goal_t, prevs=[ProofTerm.assume(p) for p in prem_ts])
            th = theory.check_proof(pt.export())
            return isinstance(th, Thm)
        acc, exc = call(g, watchdog=True)
        out.emit("z3.proof", goal_t, prem_ts, acc, exc, src)


def follow_up(out, j, src):
    """History independence: right after a step that RAISED, every premise of the failed goal (and the conjunction of two of
    them) is given to the bridge as a goal of its own, in the same process: its verdict must not depend on the failed step."""
    prems, _ = split_imp(j)
    prems = [p for p in prems if buildable(p)]
    goals = list(prems)
    if len(prems) >= 2:
        goals.append(Op("conj", "bool", prems[0], prems[1]))
    for g in goals:
        run_z3(out, build(g), [], src + ":after-exc", routes=("solve", "macro"))


def run_sympy(out, goal_t, prem_ts, src, routes=("fn",)):
    from prover import sympywrapper
    if "fn" in routes:
        if not prem_ts:
            acc, exc = call(lambda: sympywrapper.solve_goal(goal_t))
            out.emit("sympy.goal", goal_t, [], acc, exc, src)
        elif len(prem_ts) == 1:
            acc, exc = call(lambda: sympywrapper.solve_with_interval(goal_t, prem_ts[0]))
            out.emit("sympy.interval", goal_t, prem_ts, acc, exc, src)
    if "macro" in routes:
        macro = theory.global_macros["sympy"]
        prevs = [Thm(p, p) for p in prem_ts]

        def f():
            th = macro.eval(goal_t, prevs)
            return isinstance(th, Thm)
        acc, exc = call(f)
        out.emit("sympy.macro", goal_t, prem_ts, acc, exc, src)


def split_imp(j):
    prems = []
    while j[0] == "op" and j[1] == "implies" and len(j[4]) == 2:
        prems.append(j[4][0])
        j = j[4][1]
    return prems, j


def setup(thy="misc"):
    basic.load_theory(thy)                        # misc: nat, int, real, set, real intervals;  real: without the intervals
    from prover import z3wrapper, sympywrapper  # noqa: F401
    assert z3wrapper.z3_loaded, "z3 is not installed"
    # the flag is part of the anchored state: its value is logged here and recorded in every event; the T clause
    # SolverConsulted (and Z3Sound on the goals the step then accepts) judges a run with the flag off
    # harness safety only: a goal on which Z3 does not answer within the limit counts as "not solved"
    # (check() returns unknown); the limit never produces the answer "unsat"
    import z3
    z3.set_param("timeout", Z3_TIMEOUT_MS)
    sys.stderr.write("c06: check_z3=%r z3_loaded=%r\n" % (z3wrapper.check_z3, z3wrapper.z3_loaded))


# ------------------------------------------------------------------------------------------------
# node builders for the generators
# ------------------------------------------------------------------------------------------------

def V(n, T):
    return ["var", n, T, 0, []]


def B(k, T):
    return ["bound", "", T, k, []]


def N(T, n):
    return ["num", "", T, n, []]


def Op(name, T, *args):
    return ["op", name, T, 0, list(args)]


def App(name, T, *args):
    return ["app", name, T, 0, list(args)]


def Q(kind, name, T, body):
    return [kind, name, T, 0, [body]]


def Rel(r, a, b):
    return Op(r, "bool", a, b)


def Not(a):
    return Op("neg", "bool", a)


def Num(T, v):
    """numeral for an int or Fraction value at type T (negative: uminus, fraction: real_divide)"""
    v = Fraction(v)
    if v < 0:
        return Op("uminus", T, Num(T, -v))
    if v.denominator == 1:
        return N(T, v.numerator)
    return Op("real_divide", T, N(T, v.numerator), N(T, v.denominator))


def abstract(j, name, d=0):
    """replace the free variable `name` by the bound variable of a binder put around j"""
    if j[0] == "var":
        return B(d, j[2]) if j[1] == name else j
    if j[0] in ("all", "exists", "lam"):
        return [j[0], j[1], j[2], j[3], [abstract(j[4][0], name, d + 1)]]
    return [j[0], j[1], j[2], j[3], [abstract(c, name, d) for c in j[4]]]


def all_vars(j, acc):
    """names and types of the free variables and applied function variables (for the event key)"""
    if j[0] == "var":
        acc[j[1]] = j[2]
    elif j[0] == "app":
        acc[j[1]] = "(%s)=>%s" % (",".join(ntype(c) for c in j[4]), j[2])
    for c in j[4]:
        all_vars(c, acc)
    return acc


def rename_binders(j, name):
    """the same term with every binder called `name` (bound variables are nameless: the meaning does not change)"""
    if j[0] in ("all", "exists", "lam"):
        return [j[0], name, j[2], j[3], [rename_binders(j[4][0], name)]]
    return [j[0], j[1], j[2], j[3], [rename_binders(c, name) for c in j[4]]]


def has_binder(j):
    return j[0] in ("all", "exists", "lam") or any(has_binder(c) for c in j[4])


def clash_variant(j):
    """binders renamed to the name of a free variable of the goal (None if there is no binder or no free variable)"""
    fv = sorted(free_vars(j))
    if not fv or not has_binder(j):
        return None
    return rename_binders(j, fv[0])


def free_vars(j, acc=None):
    acc = {} if acc is None else acc
    if j[0] == "var":
        acc[j[1]] = j[2]
    for c in j[4]:
        free_vars(c, acc)
    return acc


# ------------------------------------------------------------------------------------------------
# mode z3vec
# ------------------------------------------------------------------------------------------------

def mode_z3vec(vec_path, out_path, k, n):
    setup("real")           # the universe has no interval terms: z3wrapper.norm_term tries fewer rewrite rules (3x faster)
    out = Out(out_path, base=k * 10 ** 6)
    bad = 0
    with open(vec_path) as f:
        for i, ln in enumerate(f):
            if i % n != k:
                continue
            v = json.loads(ln)
            j = v["f"]
            t = build(j)
            t.checked_get_type()
            if enc(t) != j:                       # builder and projection must be inverse on the universe
                bad += 1
                sys.stderr.write("c06: round trip failed on vector %s\n" % v["id"])
                continue
            src = "vec:%s:%d" % (v["flv"], v["id"])
            run_z3(out, t, [], src, routes=("solve",))
            prems, concl = split_imp(j)
            if prems and v["id"] % 2 == 0:
                run_z3(out, build(concl), [build(p) for p in prems], src, routes=("macro",))
            if v["id"] % 7 == 0:
                run_z3(out, t, [], src, routes=("proof",))
            if v["id"] % 10 == 2:
                run_z3(out, t, [], src, routes=("giveup",))
            cj = clash_variant(j)
            if cj is not None and v["id"] % 3 == 1:      # same goal, binders named like a free variable of the goal
                run_z3(out, build(cj), [], src + ":clash", routes=("solve",))
    out.close()
    if bad:
        raise SystemExit("c06: %d vectors did not round-trip through build/enc" % bad)


# ------------------------------------------------------------------------------------------------
# mode z3rand
# ------------------------------------------------------------------------------------------------

REPO_TEST_GOALS = [
    # prover/tests/z3wrapper_test.py (context, goal)
    ({"s": "nat => nat", "A": "nat", "B": "nat"}, "s 0 = 0 & s 1 = 0 --> s 1 = s 0 * B"),
    ({"s": "nat => nat", "A": "nat", "B": "nat"}, "A * B + 1 = 1 + B * A"),
    ({"s": "nat => nat", "A": "nat", "B": "nat"}, "s 0 = s 1"),
    ({"x": "nat", "y": "nat", "z": "nat"}, "x - y + z = x + z - y"),
    ({"x": "nat", "y": "nat", "z": "nat"}, "x >= y --> x - y + z = x + z - y"),
    ({"a": "'a", "A": "'a set"}, "(?a1. a = a1 & a1 Mem A) --> a Mem A"),
    ({"a": "real", "b": "real"}, "max a b = (1/2) * (a + b + abs(a - b))"),
    ({"n": "nat"}, "(0::real) <= of_nat n + 1"),
    ({"n": "nat", "b": "real"}, "1 / (of_nat n + 1) < b --> 1 < (of_nat n + 1) * b"),
    ({"a": "real", "b": "real"}, "1 / (a + 1) < b --> 1 < (a + 1) * b"),
    ({"a": "real", "n": "nat"}, "a <= of_nat n --> a < of_nat (n + 1)"),
    ({"n": "nat"}, "~(n = 0) --> of_nat (n - 1) + (1::real) = of_nat n"),
    ({"a": "real", "b": "real"}, "(1::real) = 0 --> real_inverse a = b"),
]


def z3_family(thin=1):
    """deterministic goals around the special cases of the translation (nodes)"""
    gs = []
    for T in ("nat", "int"):
        x, y = V("x", T), V("y", T)
        c = lambda n: N(T, n)  # noqa: E731
        plus = lambda a, b: Op("plus", T, a, b)  # noqa: E731
        minus = lambda a, b: Op("minus", T, a, b)  # noqa: E731
        times = lambda a, b: Op("times", T, a, b)  # noqa: E731
        atoms = [
            Rel("less_eq", minus(x, y), x), Rel("equals", plus(minus(x, y), y), x), Rel("less", minus(x, c(1)), x),
            Rel("equals", minus(minus(x, y), y), minus(x, plus(y, y))), Rel("less_eq", c(0), minus(x, y)),
            Rel("equals", Op("abs", T, x), x), Rel("less_eq", c(0), Op("abs", T, x)),
            Rel("less_eq", Op("min", T, x, y), x), Rel("less_eq", x, Op("max", T, x, y)), Rel("equals", Op("min", T, x, y), Op("max", T, x, y)),
            Rel("less_eq", x, times(x, x)), Rel("less_eq", x, times(x, y)), Rel("less_eq", c(0), times(x, y)),
            Rel("less_eq", Op("IF", T, Rel("less", x, y), x, y), x), Rel("equals", Op("IF", T, Rel("less", x, y), minus(y, x), minus(x, y)), c(0)),
            Rel("greater_eq", x, c(0)), Rel("greater", plus(x, c(1)), c(0)), Rel("less", x, plus(x, c(1))),
            Rel("equals", times(c(2), x), plus(x, x)), Rel("equals", minus(plus(x, y), y), x),
            Rel("equals", minus(x, y), minus(y, x)), Op("implies", "bool", Rel("equals", minus(x, y), c(0)), Rel("equals", x, y)),
            Op("implies", "bool", Rel("less", x, y), Rel("less", c(0), minus(y, x))), Rel("less_eq", minus(x, y), plus(minus(y, x), x)),
            Op("disj", "bool", Rel("equals", minus(x, y), c(0)), Rel("equals", minus(y, x), c(0))),
        ]
        for a in atoms:
            gs.append(a)
            gs.append(Not(a))
            for v in ("x", "y"):
                if v in free_vars(a):
                    for q in ("all", "exists"):
                        b = Q(q, v, T, abstract(a, v))
                        gs.append(b)
                        gs.append(Not(b))
                        gs.append(Q(q, v, T, abstract(Not(a), v)))
    # every order relation against x, x + 1 and y: fixes the direction and the strictness of each translation
    for T in ("nat", "int", "real"):
        x, y = V("x", T), V("y", T)
        x1 = Op("plus", T, x, N(T, 1))
        for rel in ("less", "less_eq", "greater", "greater_eq", "equals"):
            for a, b in ((x, x), (x, x1), (x1, x)):
                gs.append(Rel(rel, a, b))
            gs.append(Op("implies", "bool", Rel(rel, x, y), Rel("less_eq", x, y)))
            gs.append(Op("implies", "bool", Rel(rel, x, y), Rel("greater_eq", x, y)))
            gs.append(Op("implies", "bool", Rel("less", x, y), Rel(rel, x, y)))
            gs.append(Op("implies", "bool", Rel("greater", x, y), Rel(rel, x, y)))
            gs.append(Op("implies", "bool", Rel("equals", x, y), Rel(rel, x, y)))
    # of_nat at real / int, division at real
    x, y, r, s = V("x", "nat"), V("y", "nat"), V("r", "real"), V("s", "real")
    rx, ry = Op("of_nat", "real", x), Op("of_nat", "real", y)
    half = Num("real", Fraction(1, 2))
    ratoms = [
        Rel("less_eq", N("real", 0), rx), Rel("less", rx, N("real", 1)), Rel("equals", rx, half), Rel("less", rx, half),
        Rel("equals", Op("of_nat", "real", Op("plus", "nat", x, y)), Op("plus", "real", rx, ry)),
        Rel("equals", Op("of_nat", "real", Op("minus", "nat", x, y)), Op("minus", "real", rx, ry)),
        Op("equals", "bool", Rel("less", rx, N("real", 1)), Rel("less", N("nat", 0), x)),
        Op("equals", "bool", Rel("less", rx, N("real", 1)), Rel("equals", x, N("nat", 0))),
        Op("implies", "bool", Rel("less", x, y), Rel("less", rx, ry)),
        Op("implies", "bool", Rel("less", x, y), Rel("less_eq", Op("plus", "real", rx, N("real", 1)), ry)),
        Rel("equals", Op("real_divide", "real", r, r), N("real", 1)), Rel("equals", Op("times", "real", Op("real_divide", "real", r, s), s), r),
        Rel("equals", Op("real_divide", "real", r, N("real", 0)), N("real", 0)),
        Op("implies", "bool", Not(Rel("equals", s, N("real", 0))), Rel("equals", Op("times", "real", Op("real_divide", "real", r, s), s), r)),
        Rel("less_eq", N("real", 0), Op("times", "real", r, r)), Rel("less_eq", r, Op("abs", "real", r)),
        Rel("equals", Op("max", "real", r, s), Op("times", "real", half,
            Op("plus", "real", Op("plus", "real", r, s), Op("abs", "real", Op("minus", "real", r, s))))),
        Rel("less", Op("real_divide", "real", N("real", 1), Op("plus", "real", rx, N("real", 1))), N("real", 2)),
        Rel("equals", Op("of_nat", "int", x), Op("of_nat", "int", x)),
    ]
    for a in ratoms:
        gs.append(a)
        gs.append(Not(a))
        fv = free_vars(a)
        for v in sorted(fv):
            for q in ("all", "exists"):
                b = Q(q, v, fv[v], abstract(a, v))
                gs.append(b)
                gs.append(Not(b))
    # uninterpreted type, predicates, sets, bool
    a, b = V("a", "'a"), V("b", "'a")
    P = lambda t: App("P", "bool", t)  # noqa: E731
    F = lambda t: App("f", "'a", t)  # noqa: E731
    S = V("S", "('a set)")
    mem = lambda t: Op("member", "bool", t, S)  # noqa: E731
    p, q = V("p", "bool"), V("q", "bool")
    ua = [
        Op("implies", "bool", P(a), Q("exists", "z", "'a", P(B(0, "'a")))),
        Op("implies", "bool", Q("all", "z", "'a", P(B(0, "'a"))), P(a)),
        Op("implies", "bool", Q("exists", "z", "'a", P(B(0, "'a"))), P(a)),
        Op("implies", "bool", Q("exists", "z", "'a", P(B(0, "'a"))), Q("all", "z", "'a", P(B(0, "'a")))),
        Q("exists", "z", "'a", Op("implies", "bool", P(B(0, "'a")), Q("all", "w", "'a", P(B(0, "'a"))))),
        Q("exists", "z", "'a", Q("exists", "w", "'a", Not(Rel("equals", B(1, "'a"), B(0, "'a"))))),
        Q("all", "z", "'a", Q("all", "w", "'a", Rel("equals", B(1, "'a"), B(0, "'a")))),
        Op("implies", "bool", Rel("equals", a, b), Rel("equals", F(a), F(b))),
        Op("implies", "bool", Rel("equals", F(a), F(b)), Rel("equals", a, b)),
        Op("implies", "bool", mem(a), Q("exists", "z", "'a", mem(B(0, "'a")))),
        Op("implies", "bool", Q("exists", "z", "'a", Op("conj", "bool", Rel("equals", a, B(0, "'a")), mem(B(0, "'a")))), mem(a)),
        Op("implies", "bool", Q("exists", "z", "'a", mem(B(0, "'a"))), mem(a)),
        Op("disj", "bool", p, Not(p)), Op("implies", "bool", Op("implies", "bool", Op("implies", "bool", p, q), p), p),
        Op("equals", "bool", Op("conj", "bool", p, q), Op("conj", "bool", q, p)), Op("implies", "bool", p, q),
        Q("all", "z", "bool", Op("disj", "bool", B(0, "bool"), Not(B(0, "bool")))), Q("exists", "z", "bool", Op("conj", "bool", B(0, "bool"), Not(B(0, "bool")))),
        Q("all", "z", "bool", B(0, "bool")), Not(Q("all", "z", "bool", B(0, "bool"))),
        Op("equals", "bool", Op("IF", "bool", p, q, Not(q)), Op("equals", "bool", p, q)),
    ]
    gs += ua
    # xor, the constants true / false (fologic.simplify), interval membership (unfolded by norm_term)
    T_, F_ = Op("true", "bool"), Op("false", "bool")
    xn = V("x", "nat")
    lt0 = Rel("less", xn, N("nat", 0))
    bl = [
        Op("equals", "bool", Op("xor", "bool", p, q), Not(Op("equals", "bool", p, q))), Op("xor", "bool", p, p), Op("xor", "bool", p, Not(p)),
        Op("equals", "bool", Op("xor", "bool", p, q), Op("disj", "bool", p, q)), Op("implies", "bool", Op("xor", "bool", p, q), p),
        Op("equals", "bool", Op("implies", "bool", p, F_), Not(p)), Op("implies", "bool", F_, p), Op("implies", "bool", p, T_),
        Op("implies", "bool", T_, p), Op("equals", "bool", Op("conj", "bool", p, T_), p), Op("equals", "bool", Op("disj", "bool", p, F_), p),
        Op("conj", "bool", p, F_), Op("disj", "bool", p, T_), Op("equals", "bool", p, T_), Op("equals", "bool", p, F_), Not(T_), Not(F_),
        Op("equals", "bool", lt0, F_), Op("equals", "bool", lt0, T_), Op("equals", "bool", F_, lt0), Op("implies", "bool", lt0, F_),
        Op("implies", "bool", Not(lt0), F_), Op("disj", "bool", lt0, F_), Op("conj", "bool", Not(lt0), T_), Op("equals", "bool", T_, F_),
        Q("exists", "z", "nat", T_), Q("all", "z", "nat", F_), Q("exists", "z", "nat", F_), Not(Q("all", "z", "nat", F_)),
        Q("exists", "z", "'a", T_), Q("all", "z", "'a", Op("implies", "bool", P(B(0, "'a")), T_)),
    ]
    gs += bl
    ivc = lambda lo, hi: Op("real_closed_interval", "(real set)", lo, hi)  # noqa: E731
    ivo = lambda lo, hi: Op("real_open_interval", "(real set)", lo, hi)  # noqa: E731
    memr = lambda t, S_: Op("member", "bool", t, S_)  # noqa: E731
    r0, r1 = N("real", 0), N("real", 1)
    iv = [
        Op("implies", "bool", memr(r, ivc(s, r1)), Rel("less_eq", s, r)), Op("implies", "bool", memr(r, ivc(s, r1)), Rel("less", s, r)),
        Op("implies", "bool", memr(r, ivo(s, r1)), Rel("less", s, r)), Op("implies", "bool", memr(r, ivo(r0, r1)), Rel("less", Op("times", "real", r, r), r)),
        Op("implies", "bool", memr(r, ivc(r0, r1)), Rel("less", Op("times", "real", r, r), r)),
        Op("implies", "bool", memr(r, ivc(r0, r1)), Rel("less_eq", Op("times", "real", r, r), r)),
        memr(r, ivc(r, r)), memr(r, ivo(r, r)), Not(memr(r, ivo(r, r))), Op("implies", "bool", Rel("less_eq", s, r), memr(s, ivc(s, r))),
        Op("implies", "bool", Rel("less_eq", s, r), memr(s, ivo(s, r))),
        Q("exists", "z", "real", memr(B(0, "real"), ivc(r0, r1))), Q("exists", "z", "real", memr(B(0, "real"), ivo(r1, r1))),
        Q("all", "z", "real", Op("implies", "bool", memr(B(0, "real"), ivc(r0, r1)), Rel("less_eq", B(0, "real"), r1))),
        Q("all", "z", "real", Op("implies", "bool", memr(B(0, "real"), ivc(r0, r1)), Rel("less", B(0, "real"), r1))),
    ]
    gs += iv
    gs += function_equalities(thin)
    gs += numeral_quotients(thin)
    gs += nested_shared_subterms(thin)
    return gs


def numeral_quotients(thin=1):
    """quotients of numeral EXPRESSIONS (not numerals in normal form): the translation must compute them exactly"""
    gs = []
    r = V("r", "real")
    n = lambda k: N("real", k)  # noqa: E731
    for a, b, c in ((1, 2, 1), (1, 1, 2), (2, 3, 4), (1, 4, 5), (5, 3, 3), (1, 3, 7))[::thin]:
        d = b + c
        for e in (Op("real_divide", "real", n(a), Op("plus", "real", n(b), n(c))),
                  Op("real_divide", "real", Op("plus", "real", n(a), n(0)), Op("plus", "real", n(b), n(c)))):
            rd = Op("times", "real", r, n(d))
            for rel in ("less", "equals", "greater", "less_eq"):
                gs.append(Op("implies", "bool", Rel("equals", r, e), Rel(rel, rd, n(a))))
            gs.append(Rel("equals", Op("times", "real", e, n(d)), n(a)))
            gs.append(Rel("less", Op("times", "real", e, n(d)), n(a)))
            gs.append(Op("implies", "bool", Rel("less", r, e), Rel("less", rd, n(a))))
            gs.append(Op("implies", "bool", Rel("less_eq", e, r), Rel("less_eq", n(a), rd)))
    z = Op("real_divide", "real", n(1), Op("minus", "real", n(1), n(1)))
    gs += [Rel("equals", z, n(0)), Op("implies", "bool", Rel("equals", r, z), Rel("equals", r, n(0))),
           Op("implies", "bool", Rel("equals", r, z), Rel("less", n(0), r))]
    return gs


def nested_shared_subterms(thin=1):
    """two quantifiers over one type, each with a nested quantifier to the LEFT of the occurrences of its own variable, the
    nested body being the same de Bruijn term as the atom about the outer variable:
        (Q1 x. (Qi y. A y) o1 A x)  op  (Q2 x. (Qi y. A y) o2 A x)"""
    gs = []
    for T in (("nat",) if thin > 1 else ("nat", "int")):
        k = V("k", T)
        atoms = [lambda v: Rel("less", v, N(T, 1)),
                 lambda v: Rel("greater_eq", Op("plus", T, v, k), N(T, 1)),
                 lambda v: Rel("equals", App("f", T, v), N(T, 0))]
        for A in (atoms[:2] if thin > 1 else atoms):
            for qi in ("exists", "all"):
                for o1, o2 in (("conj", "conj"), ("conj", "implies"), ("implies", "conj"), ("disj", "disj"))[:4 // thin]:
                    for q1 in ("exists", "all"):
                        for q2 in ("exists", "all"):
                            for op in ("implies", "disj", "conj"):
                                def side(q, o):
                                    inner = Q(qi, "y", T, A(B(0, T)))
                                    return Q(q, "x", T, Op(o, "bool", inner, A(B(0, T))))
                                gs.append(Op(op, "bool", side(q1, o1), side(q2, o2)))
    return gs


def function_equalities(thin=1):
    """equality at function types: between function variables, lambda terms, partial applications; as premise and as
    conclusion, positive and negated"""
    gs = []
    F_ = Op("false", "bool")
    p = V("p", "bool")
    for A, B, el in (("nat", "nat", V("x", "nat")), ("'a", "'a", V("a", "'a")), ("'a", "bool", V("a", "'a")), ("nat", "bool", V("x", "nat")),
                     ("real", "real", V("r", "real")), ("int", "int", V("i", "int")))[::thin]:
        FT = "(%s=>%s)" % (A, B)
        f, g = V("f", FT), V("g", FT)
        fx = lambda h, t: App(h, B, t)  # noqa: E731
        eq = Rel("equals", f, g)
        pointwise = Q("all", "z", A, Rel("equals", fx("f", B_(0, A)), fx("g", B_(0, A))))
        gs += [eq, Not(eq), Op("implies", "bool", eq, F_), Op("implies", "bool", Not(eq), F_), Op("implies", "bool", eq, p),
               Op("implies", "bool", Not(eq), p), Rel("equals", f, f), Not(Rel("equals", f, f)),
               Op("implies", "bool", eq, Rel("equals", fx("f", el), fx("g", el))),
               Op("implies", "bool", Rel("equals", fx("f", el), fx("g", el)), eq),
               Op("implies", "bool", pointwise, eq), Op("implies", "bool", eq, pointwise), Op("equals", "bool", eq, pointwise),
               Op("implies", "bool", Not(eq), Q("exists", "z", A, Not(Rel("equals", fx("f", B_(0, A)), fx("g", B_(0, A)))))),
               Op("implies", "bool", Q("exists", "z", A, Not(Rel("equals", fx("f", B_(0, A)), fx("g", B_(0, A))))), Not(eq)),
               Op("disj", "bool", eq, Not(eq)), Op("conj", "bool", eq, Not(eq)),
               Rel("equals", ["lam", "z", A, 0, [fx("f", B_(0, A))]], f), Not(Rel("equals", ["lam", "z", A, 0, [fx("f", B_(0, A))]], f)),
               Rel("equals", ["lam", "z", A, 0, [fx("f", B_(0, A))]], ["lam", "z", A, 0, [fx("g", B_(0, A))]]),
               Op("implies", "bool", Rel("equals", ["lam", "z", A, 0, [fx("f", B_(0, A))]], ["lam", "z", A, 0, [fx("g", B_(0, A))]]), F_)]
    # sets are functions too
    for A, el in (("nat", V("x", "nat")), ("'a", V("a", "'a"))):
        ST = "(%s set)" % A
        S, T_ = V("S", ST), V("T", ST)
        eq = Rel("equals", S, T_)
        gs += [eq, Not(eq), Op("implies", "bool", eq, F_), Op("implies", "bool", Not(eq), p),
               Op("implies", "bool", eq, Op("equals", "bool", Op("member", "bool", el, S), Op("member", "bool", el, T_)))]
    # lambda terms and partial applications over numbers
    x, y = V("x", "nat"), V("y", "nat")
    z = B_(0, "nat")
    lam = lambda b: ["lam", "z", "nat", 0, [b]]  # noqa: E731
    l1, l2, l3 = lam(Op("plus", "nat", z, N("nat", 1))), lam(Op("plus", "nat", N("nat", 1), z)), lam(Op("plus", "nat", z, N("nat", 2)))
    px, py = Op("plus", "(nat=>nat)", x), Op("plus", "(nat=>nat)", y)
    for a, b in ((l1, l2), (l1, l3), (px, py), (px, px), (lam(x), lam(y)), (lam(Op("minus", "nat", z, x)), lam(N("nat", 0)))):
        eq = Rel("equals", a, b)
        gs += [eq, Not(eq), Op("implies", "bool", eq, F_), Op("implies", "bool", eq, Rel("equals", x, y)), Op("implies", "bool", Not(eq), p)]
    return gs


def B_(k, T):
    return B(k, T)


def history_family(thin=1):
    """(premises, conclusion) whose conclusion is hard or impossible to translate; the driver follows every step that RAISES
    with the premises as goals of their own (follow_up)"""
    m, n, r = V("m", "nat"), V("n", "nat"), V("r", "real")
    a, b = V("a", "'a"), V("b", "'a")
    prem_sets = [[Rel("less", m, n), Rel("less_eq", n, N("nat", 3))], [Rel("equals", m, N("nat", 7))],
                 [Rel("less", r, N("real", 0)), Rel("less", m, N("nat", 1))]]
    S, T_, p = V("S", "(nat set)"), V("T", "(nat set)"), V("p", "bool")
    hard = [
        Op("member", "bool", m, Op("IF", "(nat set)", p, S, T_)),
        Rel("less_eq", Op("of_nat", "real", N("nat", 2)), r),
        Rel("equals", App("h", "('a=>'a)", a), App("h", "('a=>'a)", b)),
        Rel("equals", Op("of_nat", "int", m), V("i", "int")),
        Rel("equals", Op("plus", "(nat=>nat)", m), Op("plus", "(nat=>nat)", n)),
        Rel("equals", ["lam", "z", "nat", 0, [B(0, "nat")]], V("f", "(nat=>nat)")),
        Rel("less", Op("nat_divide", "nat", m, n), m),
        Rel("less", Op("IF", "real", Rel("less", N("nat", 1), N("nat", 2)), r, N("real", 0)), N("real", 1)),
        Op("xor", "bool", Rel("less", N("nat", 1), N("nat", 2)), p),
    ]
    out = []
    for ps in (prem_sets if thin == 1 else prem_sets[:1]):
        for c in hard:
            out.append((ps, c))
    return out


class Gen:
    """seeded random goals (nodes) over the translatable fragment"""

    def __init__(self, rng):
        self.rng = rng

    def term(self, T, scope, d):
        r = self.rng
        leaves = [V(n, T) for n in {"nat": ("m", "n"), "int": ("i", "j"), "real": ("r", "s")}[T]] + [B(i, T) for i, U in enumerate(scope) if U == T]
        if d <= 0 or r.random() < 0.3:
            if r.random() < 0.35:
                return N(T, r.choice([0, 0, 1, 1, 2, 3]))
            return r.choice(leaves)
        k = r.random()
        a, b = self.term(T, scope, d - 1), self.term(T, scope, d - 1)
        if k < 0.3:
            return Op("plus", T, a, b)
        if k < 0.5:
            return Op("minus", T, a, b)
        if k < 0.62:
            return Op("times", T, N(T, r.choice([0, 1, 2, 2, 3])), b)      # linear: Z3 may not terminate on quantified non-linear goals
        if k < 0.7:
            return Op(r.choice(["min", "max"]), T, a, b)
        if k < 0.76:
            return Op("abs", T, a)
        if k < 0.84:
            return Op("IF", T, self.atom(scope, d - 1), a, b)
        if k < 0.9 and T in ("int", "real"):
            return Op("uminus", T, a)
        if k < 0.96 and T == "real":
            if r.random() < 0.5:
                return Op("of_nat", "real", self.term("nat", scope, d - 1))
            return Op("real_divide", T, a, b)
        if T == "int" and r.random() < 0.3:
            return Op("of_nat", "int", self.term("nat", scope, d - 1))
        return Op("plus", T, a, N(T, 1))

    def atom(self, scope, d):
        r = self.rng
        k = r.random()
        if k < 0.06:
            return r.choice([V("p", "bool")] + [B(i, "bool") for i, U in enumerate(scope) if U == "bool"])
        if k < 0.14:
            els = [V("a", "'a"), V("b", "'a")] + [B(i, "'a") for i, U in enumerate(scope) if U == "'a"]
            e = r.choice(els)
            c = r.random()
            if c < 0.4:
                return App("P", "bool", e)
            if c < 0.7:
                return Op("member", "bool", e, V("S", "('a set)"))
            return Rel("equals", e, r.choice(els))
        T = r.choice(self.types)
        return Rel(r.choice(["less", "less_eq", "equals", "greater", "greater_eq", "less", "less_eq", "equals"]),
                   self.term(T, scope, d), self.term(T, scope, d))

    def formula(self, scope, d):
        r = self.rng
        if d <= 0 or r.random() < 0.2:
            return self.atom(scope, 1 if d <= 0 else min(d, 2))
        k = r.random()
        if k < 0.2:
            return Not(self.formula(scope, d - 1))
        if k < 0.5:
            T = r.choice(self.types + self.types + ["bool", "'a"])
            nm = r.choice(["u", "v", "w", "m", "n", "i", "j", "r", "s", "p", "a"])    # also names of free variables
            return Q(r.choice(["all", "exists"]), nm, T, self.formula((T,) + tuple(scope), d - 1))
        op = r.choice(["conj", "disj", "implies", "implies", "equals"])
        return Op(op, "bool", self.formula(scope, d - 1), self.formula(scope, d - 1))

    def goal(self):
        r = self.rng
        self.types = r.choice([["nat"], ["int"], ["nat", "int"], ["nat", "real"], ["real"], ["nat"], ["int"]])
        g = self.formula((), r.choice([2, 3, 3, 4]))
        # close most numeric variables: a closed goal is decided by the solver one way or the other
        fv = free_vars(g)
        for v in sorted(fv):
            if fv[v] in ("nat", "int", "real") and r.random() < 0.7:
                g = Q(r.choice(["all", "exists"]), v, fv[v], abstract(g, v))
        if r.random() < 0.3:
            g = Not(g)
        return g


def mode_z3rand(out_path, n, seed, do_setup=True, thin=1):
    if do_setup:
        setup()
    from syntax import parser
    from logic import context
    out = Out(out_path)
    for vars_, s in REPO_TEST_GOALS:
        context.set_context("misc", vars=vars_)
        t = parser.parse_term(s)
        run_z3(out, t, [], "repo-test", routes=("solve",))
    for i, j in enumerate(z3_family(thin)):
        t = build(j)
        t.checked_get_type()
        assert enc(t) == j, "c06: family goal does not round-trip: %r" % (j,)
        run_z3(out, t, [], "family:%d" % i, routes=("solve",))
        prems, concl = split_imp(j)
        if prems:
            run_z3(out, build(concl), [build(p) for p in prems], "family:%d" % i, routes=("macro",))
        cj = clash_variant(j)
        if cj is not None and i % 3 == 0:
            run_z3(out, build(cj), [], "family:%d:clash" % i, routes=("solve",))
        if i % 6 == 1:
            run_z3(out, t, [], "family:%d" % i, routes=("giveup",))
    for i, (ps, c) in enumerate(history_family(thin)):
        # goals tried one after the other in this process: a failing step, then its premises as goals (follow_up)
        run_z3(out, build(c), [build(p) for p in ps], "history:%d" % i, routes=("solve", "macro"))
    rng = random.Random(seed * 7919 + 6)
    gen = Gen(rng)
    for i in range(n):
        j = gen.goal()
        t = build(j)
        t.checked_get_type()
        run_z3(out, t, [], "rand:%d" % i, routes=("solve",))
    out.close()


# ------------------------------------------------------------------------------------------------
# mode sympy
# ------------------------------------------------------------------------------------------------

R = "real"


def rnum(v):
    return Num(R, v)


def radd(a, b):
    return Op("plus", R, a, b)


def rsub(a, b):
    return Op("minus", R, a, b)


def rmul(a, b):
    return Op("times", R, a, b)


def rdiv(a, b):
    return Op("real_divide", R, a, b)


def rpow(a, n):
    return Op("power", R, a, N("nat", n))


def mem_interval(x, lo, hi, closed=True):
    return Op("member", "bool", x, Op("real_closed_interval" if closed else "real_open_interval", "(real set)", rnum(lo), rnum(hi)))


def expanded(coefs, x):
    """c0 + c1*x + c2*x*x ... written out as a sum of monomials (highest degree first)"""
    t = None
    for d in range(len(coefs) - 1, -1, -1):
        c = coefs[d]
        if c == 0 and not (d == 0 and t is None):
            continue
        m = None
        for _ in range(d):
            m = x if m is None else rmul(m, x)
        if m is None:
            mono = rnum(abs(c))
        elif abs(c) == 1:
            mono = m
        else:
            mono = rmul(rnum(abs(c)), m)
        if t is None:
            t = mono if c >= 0 else Op("uminus", R, mono)
        else:
            t = radd(t, mono) if c >= 0 else rsub(t, mono)
    return t


def sympy_family(stride=1):
    """(goal, prems) pairs: identities and non-identities of polynomials and rational functions
    (stride: take every stride-th interval)"""
    x, y = V("x", R), V("y", R)
    out = []

    def both(l, r):
        out.append((Rel("equals", l, r), []))
        out.append((Not(Rel("equals", l, r)), []))

    for a in (-1, 0, 1, 2):
        for b in (-1, 1, 2):
            lhs = rmul(radd(x, rnum(a)), radd(x, rnum(b)))
            both(lhs, expanded([a * b, a + b, 1], x))                 # a true identity, written expanded
            both(lhs, expanded([a * b + 1, a + b, 1], x))             # off by one
    both(rmul(radd(x, y), rsub(x, y)), rsub(rmul(x, x), rmul(y, y)))
    both(rmul(radd(x, y), radd(x, y)), radd(radd(rmul(x, x), rmul(rmul(rnum(2), x), y)), rmul(y, y)))
    both(rpow(radd(x, rnum(1)), 2), expanded([1, 2, 1], x))
    both(rpow(x, 2), rmul(x, x))
    both(radd(x, y), radd(y, x))
    both(rmul(rnum(2), x), radd(x, x))
    both(rsub(x, x), rnum(0))
    both(x, y)
    both(x, radd(x, rnum(1)))
    both(x, rmul(rnum(2), x))
    both(rmul(x, rnum(0)), rnum(0))
    both(rdiv(x, x), rnum(1))
    both(rdiv(x, x), rnum(0))
    both(rdiv(rmul(x, y), y), x)
    both(rmul(rdiv(x, y), y), x)
    both(rdiv(x, rnum(0)), rnum(0))
    both(rdiv(rnum(1), rnum(0)), rnum(0))
    both(rdiv(x, rnum(2)), rmul(rnum(Fraction(1, 2)), x))
    both(rdiv(rsub(rmul(x, x), rnum(1)), rsub(x, rnum(1))), radd(x, rnum(1)))
    both(Op("abs", R, x), x)
    both(Op("abs", R, rmul(x, x)), rmul(x, x))
    both(rnum(1), rnum(2))
    both(rnum(Fraction(1, 2)), rdiv(rnum(2), rnum(4)))
    both(rpow(x, 0), rnum(1))
    # subtraction of numerals at nat (truncated), int and real
    for T in ("nat", "int", "real"):
        c = lambda v: N(T, v)  # noqa: E731
        for a, b in ((2, 3), (5, 3), (3, 3), (0, 1)):
            d = Op("minus", T, c(a), c(b))
            for g in (Rel("less", d, c(0)), Rel("equals", d, c(0)), Rel("greater_eq", d, c(0)), Rel("less_eq", d, c(a)),
                      Rel("equals", Op("plus", T, d, c(b)), c(a)), Rel("less", Op("plus", T, d, c(b)), c(b)),
                      Rel("equals", Op("times", T, d, c(2)), Op("minus", T, c(2 * a), c(2 * b)))):
                out.append((g, []))
                out.append((Not(g), []))
    # sqrt (HOL: sign-preserving), exp and log (judged through exact squares and signs)
    sq = lambda a: Op("sqrt", R, a)  # noqa: E731
    ex = lambda a: Op("exp", R, a)  # noqa: E731
    lg = lambda a: Op("log", R, a)  # noqa: E731
    for v in (-1, 4, -4, 0, Fraction(1, 4), 2):
        both(rmul(sq(rnum(v)), sq(rnum(v))), rnum(v))
        both(rpow(sq(rnum(v)), 2), rnum(v))
    both(sq(rnum(-4)), rnum(-2))
    both(sq(rnum(4)), rnum(2))
    both(Op("abs", R, sq(rnum(-1))), rnum(1))
    both(rmul(sq(x), sq(x)), x)
    both(sq(rmul(x, x)), x)
    both(sq(rmul(x, x)), Op("abs", R, x))
    both(ex(lg(x)), x)
    both(lg(ex(x)), x)
    both(ex(x), rnum(0))
    both(rmul(ex(x), ex(rnum(0))), rnum(0))
    for rel in ("less", "less_eq", "greater", "greater_eq"):
        out.append((Rel(rel, sq(x), rnum(0)), []))
        out.append((Rel(rel, ex(x), rnum(0)), []))
        out.append((Rel(rel, ex(lg(x)), rnum(0)), []))
        out.append((Rel(rel, rmul(lg(rnum(-1)), lg(rnum(-1))), rnum(0)), []))
        out.append((Rel(rel, rmul(sq(rnum(-1)), sq(rnum(-1))), rnum(0)), []))
        out.append((Rel(rel, rpow(lg(x), 2), rnum(0)), []))
    for lo, hi in ((1, 2), (0, 1), (-1, 1)):
        for closed in (True, False):
            pr = [mem_interval(x, lo, hi, closed)]
            out.append((Rel("equals", ex(lg(x)), x), pr))
            out.append((Rel("greater", ex(lg(x)), rnum(0)), pr))
            out.append((Rel("greater_eq", rmul(sq(x), sq(x)), rnum(0)), pr))
            out.append((Rel("greater_eq", sq(x), rnum(0)), pr))
            out.append((Not(Rel("equals", rsub(rmul(sq(x), sq(x)), x), rnum(1))), pr))
    for rel in ("less", "less_eq", "greater", "greater_eq"):
        out.append((Rel(rel, rnum(1), rnum(2)), []))
        out.append((Rel(rel, rnum(2), rnum(2)), []))
        out.append((Rel(rel, x, radd(x, rnum(1))), []))
        out.append((Rel(rel, rmul(x, x), rnum(0)), []))
        out.append((Rel(rel, rdiv(x, x), rnum(1)), []))
        out.append((Rel(rel, Op("abs", R, x), rnum(0)), []))
    # interval goals: quadratic and rational inequalities / disequalities on intervals with grid end points
    ivs = [(-1, 1), (0, 1), (1, 2), (Fraction(1, 2), Fraction(3, 2)), (-2, 0), (0, 2), (-1, 3)]
    polys = [[1, 0, -1], [0, 0, 1], [1, 0, 1], [-1, 1], [0, 1], [2, 0, -1], [0, -1, 1], [-2, 1, 1], [1, -2, 1]]
    for idx, (lo, hi) in enumerate(ivs[::stride]):
        goals = []
        for cs in polys:
            p = expanded(cs, x)
            for rel in ("greater_eq", "greater", "less_eq"):
                goals.append(Rel(rel, p, rnum(0)))
            goals.append(Not(Rel("equals", p, rnum(0))))
        for rel in ("greater_eq", "greater", "less_eq", "less"):
            goals.append(Rel(rel, rdiv(x, x), rnum(1)))
            goals.append(Rel(rel, rdiv(rnum(1), x), rnum(0)))
            goals.append(Rel(rel, rdiv(rmul(x, x), x), rnum(1)))
        goals.append(Not(Rel("equals", rdiv(x, x), rnum(0))))
        goals.append(Not(Rel("equals", rdiv(rnum(1), x), rnum(0))))
        goals.append(Not(Rel("equals", rdiv(rnum(1), x), rnum(2))))
        goals.append(Not(Rel("equals", x, y)))
        goals.append(Rel("greater_eq", radd(x, y), y))
        # a second variable in a denominator that cancels
        goals.append(Rel("greater", rdiv(rmul(y, x), y), rnum(0)))
        goals.append(Rel("greater_eq", rdiv(rmul(y, x), y), rnum(0)))
        goals.append(Not(Rel("equals", rmul(rdiv(x, y), y), rnum(0))))
        goals.append(Rel("greater_eq", rsub(radd(x, rdiv(y, y)), rnum(1)), rnum(0)))
        goals.append(Rel("less_eq", rmul(x, rdiv(y, y)), rnum(3)))
        # the same goal on the open and on the closed interval with the same end points, one right after the other in
        # one process (open first for every other interval): the verdict must not depend on the previous query
        order = (False, True) if idx % 2 == 0 else (True, False)
        for g in goals:
            for closed in order:
                out.append((g, [mem_interval(x, lo, hi, closed)]))
    return out


def transcendental_goals():
    x = V("x", R)
    fn = lambda n, a: Op(n, R, a)  # noqa: E731
    pi = Op("pi", R)
    return [
        (Rel("greater_eq", fn("sqrt", rnum(2)), rnum(1)), []),
        (Rel("greater_eq", fn("exp", x), rnum(0)), []),
        (Not(Rel("equals", fn("sin", x), rnum(0))), [mem_interval(x, 1, 2)]),
        (Rel("greater_eq", fn("log", x), rnum(0)), [mem_interval(x, 1, 2)]),
        (Rel("less", pi, rnum(4)), []),
        (Rel("equals", radd(rmul(fn("sin", x), fn("sin", x)), rmul(fn("cos", x), fn("cos", x))), rnum(1)), []),
        (Not(Rel("equals", fn("exp", x), rnum(0))), []),
        (Rel("equals", fn("sqrt", rmul(x, x)), x), []),
    ]


class SGen:
    def __init__(self, rng):
        self.rng = rng

    def expr(self, d, vars_):
        r = self.rng
        if d <= 0 or r.random() < 0.25:
            if r.random() < 0.4:
                return rnum(r.choice([0, 1, 2, 3, -1, Fraction(1, 2), Fraction(3, 2)]))
            return V(r.choice(vars_), R)
        k = r.random()
        a, b = self.expr(d - 1, vars_), self.expr(d - 1, vars_)
        if k < 0.3:
            return radd(a, b)
        if k < 0.5:
            return rsub(a, b)
        if k < 0.75:
            return rmul(a, b)
        if k < 0.87:
            return rdiv(a, b)
        if k < 0.93:
            return rpow(a, r.choice([0, 1, 2, 3]))
        if k < 0.97:
            return Op("uminus", R, a)
        return Op("abs", R, a)

    def rewrite(self, e):
        """a value-preserving rewriting (commutativity, x + x = 2 * x, adding and removing a term, double negation)"""
        r = self.rng
        if e[0] == "op" and e[1] in ("plus", "times") and len(e[4]) == 2 and r.random() < 0.7:
            return Op(e[1], R, self.rewrite(e[4][1]), self.rewrite(e[4][0]))
        k = r.random()
        if k < 0.2:
            return rsub(radd(e, V("x", R)), V("x", R))
        if k < 0.35:
            return rmul(rnum(1), e)
        if k < 0.5:
            return Op("uminus", R, Op("uminus", R, e))
        if k < 0.6:
            return rdiv(rmul(e, rnum(2)), rnum(2))
        if e[0] == "op" and e[4]:
            return [e[0], e[1], e[2], e[3], [self.rewrite(c) if c[2] == R else c for c in e[4]]]
        return e

    def goal(self):
        r = self.rng
        vars_ = r.choice([["x"], ["x"], ["x", "y"]])
        l = self.expr(r.choice([1, 2, 2, 3]), vars_)
        k = r.random()
        if k < 0.45:
            rr = self.rewrite(l)
        elif k < 0.6:
            rr = radd(self.rewrite(l), rnum(r.choice([1, -1, Fraction(1, 2)])))
        else:
            rr = self.expr(r.choice([0, 1, 2]), vars_)
        c = r.random()
        if c < 0.3:
            g = Rel("equals", l, rr)
        elif c < 0.65:
            g = Not(Rel("equals", l, rr))
        else:
            g = Rel(r.choice(["less", "less_eq", "greater", "greater_eq"]), l, rr)
        if r.random() < 0.25:
            lo, hi = sorted(r.sample([-2, -1, Fraction(-1, 2), 0, Fraction(1, 2), 1, Fraction(3, 2), 2, 3], 2))
            first = r.random() < 0.5
            return [(g, [mem_interval(V("x", R), lo, hi, first)]), (g, [mem_interval(V("x", R), lo, hi, not first)])]
        return [(g, [])]


def mode_sympy(out_path, n, seed, do_setup=True, stride=1):
    if do_setup:
        setup()
    out = Out(out_path)
    fam = sympy_family(stride)
    for i, (g, ps) in enumerate(fam):
        gt, pts = build(g), [build(p) for p in ps]
        gt.checked_get_type()
        assert enc(gt) == g, "c06: sympy family goal does not round-trip: %r" % (g,)
        run_sympy(out, gt, pts, "family:%d" % i, routes=("fn",) if i % 5 else ("fn", "macro"))
    for i, (g, ps) in enumerate(transcendental_goals()):
        run_sympy(out, build(g), [build(p) for p in ps], "transcendental:%d" % i)
    rng = random.Random(seed * 104729 + 66)
    gen = SGen(rng)
    for i in range(n):
        for g, ps in gen.goal():
            gt, pts = build(g), [build(p) for p in ps]
            gt.checked_get_type()
            run_sympy(out, gt, pts, "rand:%d" % i)
    out.close()


# ------------------------------------------------------------------------------------------------
# mode event (replay)
# ------------------------------------------------------------------------------------------------

def mode_event(in_path, out_path):
    setup()
    out = Out(out_path)
    for ln in open(in_path):
        e = json.loads(ln)
        if not (buildable(e["goal"]) and all(buildable(p) for p in e["prems"])):
            sys.stderr.write("c06: event %s contains a term outside the projection; kept as recorded\n" % e["tid"])
            out.f.write(json.dumps(e) + "\n")
            continue
        g, ps = build(e["goal"]), [build(p) for p in e["prems"]]
        s = e["solver"]
        if s.startswith("z3."):
            if s == "z3.solve":
                run_z3(out, g, ps, e.get("src", "replay"), routes=("giveup",) if e.get("route") == "giveup" else ("solve",))
            else:
                run_z3(out, g, ps, e.get("src", "replay"), routes=(s.split(".")[1],))
        else:
            run_sympy(out, g, ps, e.get("src", "replay"), routes=("macro",) if s == "sympy.macro" else ("fn",))
    out.close()


def main(argv):
    mode = argv[0]
    if mode == "z3vec":
        mode_z3vec(argv[1], argv[2], int(argv[3]), int(argv[4]))
    elif mode == "z3rand":
        mode_z3rand(argv[1], int(argv[2]), int(argv[3]))
    elif mode == "sympy":
        mode_sympy(argv[1], int(argv[2]), int(argv[3]))
    elif mode == "mixed":                        # one process (one theory load) for both input-independent drivers
        setup("transcendentals")                 # misc (intervals) + exp, log, sqrt
        mode_z3rand(argv[1], int(argv[3]), int(argv[5]), do_setup=False, thin=int(argv[6]))
        mode_sympy(argv[2], int(argv[4]), int(argv[5]), do_setup=False, stride=int(argv[6]))
    elif mode == "event":
        mode_event(argv[1], argv[2])
    else:
        raise SystemExit("unknown mode " + mode)


if __name__ == "__main__":
    main(sys.argv[1:])
