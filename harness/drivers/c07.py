"""C07 driver: print -> parse round trips on the real printer / parser.

usage: python -m harness.drivers.c07 <mode> <out> <seed> <n> [theories]
  nest   <out.ndjson> <seed> <n>           all well-typed depth-2 nestings of every operator of syntax/operator.py in every argument
                                           position (and applications, binders, if, literals, numerals) over the signature of theory
                                           `real` (nat, int, real, list, set, function); also writes <out>.typable.json (which
                                           (outer, side, inner) nestings have a well-typed instance) for the S-level model
  corpus <out.ndjson> <seed> <n> th1,th2   statements of library items (terms, sequents), stored proof items, types
  ext    <out.ndjson> <seed> <args tlc log> <k> <history tlc log>[,<log>] <nlong>      in one process:
     proof-step arguments: the vectors <<"ARG", json>> of spec/C07_Args.tla (one value per signature of parser.parse_args),
                           printed with printer.print_str_args under k of the 4 supported settings (unicode x highlight; rotating
                           with the seed) and exported through printer.export_proof_item, parsed back with parse_args / parse_proof_rule
     histories:            the vectors <<"HIST", json>> of spec/C07_History.tla performed on real objects (terms, sequents,
                           argument lists, instantiations that share terms), every history on objects with fresh names; then
                           <nlong> seeded long histories on shared objects
  tables <out.json>                        operator table of syntax/operator.py and the term grammar text of syntax/parser.py
Settings = (unicode, highlight, line width).  A line width is supported by the code for single terms only (print_thm and
print_str_args raise TypeError / build ill-shaped lists when print_term returns a list of lines); types ignore it.
Every print is performed TWICE under the same settings: `out` / `out2` are the printed objects (with highlighting: the list of
text / colour / link fragments), the text that is parsed back is the concatenation of the first.
Every term is parsed back in a context that declares its free variables.  No verdict is computed here.
"""
import copy
import itertools
import json
import random
import sys
from typing import List, Tuple

from kernel import theory
from kernel.type import Type, TVar, TFun, BoolType, NatType, IntType, RealType, TConst, TyInst
from kernel.term import Term, Var, Const, Comb, Abs, Bound, Inst, Lambda, Forall, Exists, Nat, Int, Real, Eq, Not
from kernel.thm import Thm
from kernel.proof import ProofItem
from logic import basic, context
from syntax import operator, parser, printer
from syntax.settings import global_setting

from harness.codec import enc, encT, encS, enc_named, dec, decT

# (unicode, highlight, line width)
CONFIGS = [(False, False, None), (True, False, None), (True, False, 20), (False, False, 80)]
HL_CONFIGS = [(u, True, w) for u in (False, True) for w in (None, 20, 80)]
ALL_CONFIGS = [(u, h, w) for u in (False, True) for h in (False, True) for w in (None, 20, 80)]
FLAT_CONFIGS = [(u, h, None) for u in (False, True) for h in (False, True)]       # sequents, types, proof-step arguments


def vars_of(t):
    return {v.name: v.T for v in t.get_vars()}


def text_of(x):
    """the text of a printed object: plain string, list of lines, list of fragments, list of lines of fragments"""
    if isinstance(x, str):
        return x
    if isinstance(x, dict):
        return str(x.get("text", ""))
    if isinstance(x, (list, tuple)):
        if all(isinstance(y, dict) for y in x):
            return "".join(str(y.get("text", "")) for y in x)
        return "\n".join(text_of(y) for y in x)
    return str(x)


def out_of(x):
    """projection of a printed object to a flat list of strings (fragment = colour|text[|link name|link kind])"""
    if isinstance(x, str):
        return ["s|" + x]
    if isinstance(x, dict):
        r = "%s|%s" % (x.get("color"), x.get("text"))
        if "link_name" in x or "link_ty" in x:
            r += "|%s|%s" % (x.get("link_name"), x.get("link_ty"))
        return [r]
    if isinstance(x, (list, tuple)):
        res = []
        for y in x:
            if isinstance(y, dict):
                res.extend(out_of(y))
            else:
                res.append("<line>")
                res.extend(out_of(y))
        return res
    return ["?|" + repr(x)[:80]]


def cfg_json(cfg):
    return [bool(cfg[0]), bool(cfg[1]), cfg[2] or 0]


def print_twice(fn, cfg):
    """fn() under the settings, twice: (first printed object, projection of the first, projection of the second)"""
    uni, hl, width = cfg
    with global_setting(unicode=uni, highlight=hl, line_length=width):
        a = fn()
        o1 = out_of(a)
        txt = text_of(a)
    with global_setting(unicode=uni, highlight=hl, line_length=width):
        o2 = out_of(fn())
    return txt, o1, o2


class Out:
    def __init__(self, path):
        self.f = open(path, "w")
        self.tid = 0

    def emit(self, ev):
        self.tid += 1
        ev["tid"] = self.tid
        self.f.write(json.dumps(ev, separators=(",", ":")) + "\n")


def roundtrip_term(out, t, label, extra_vars=None, configs=CONFIGS):
    vs = vars_of(t)
    if extra_vars:
        vs.update(extra_vars)
    for cfg in configs:
        ev = {"kind": "term", "label": label, "cfg": cfg_json(cfg), "t": enc(t)}
        try:
            txt, ev["out"], ev["out2"] = print_twice(lambda: printer.print_term(t), cfg)
            ev["text"] = txt
            context.set_context(None, vars=vs)
            r = parser.parse_term(txt)
            ev["outcome"], ev["r"] = "ok", enc(r)
        except Exception as e:
            ev["outcome"], ev["r"] = "exc:" + type(e).__name__, ["none"]
            ev["err"] = str(e)[:160]
            ev.setdefault("text", "")
        ev["key"] = "term:%s:%s%s" % (label, ev["text"][:120], ":hl" if cfg[1] else "")
        out.emit(ev)


# ------------------------------------------------------------------------------------------------ nestings
def tname(T):
    return str(T).replace(" ", "_").replace("=>", "to").replace("'", "q")


def leaf(T, k=0):
    return Var("v%d_%s" % (k, tname(T)), T)


def instances_of(name):
    """concrete type instances of a constant"""
    sig = theory.thy.get_term_sig(name)
    cands = [NatType, BoolType, TConst("set", NatType), IntType, RealType]
    tvs = sig.get_tvars()
    res = []
    if theory.thy.is_overload_const(name):
        for T in (NatType, IntType, RealType):
            try:
                res.append(sig.subst(**{tv.name: T for tv in tvs}) if False else theory.thy.get_term_sig(name).subst_tvars(T))
            except Exception:
                pass
    return res


def op_instances(fun_name):
    """list of function types at which the operator constant can be used (concrete instances)"""
    try:
        sig = theory.thy.get_term_sig(fun_name)
    except Exception:
        return []
    tvs = [T.name for T in sig.get_tvars()]
    res = []
    if not tvs:
        return [sig]
    base = [NatType, BoolType, IntType, RealType, TConst("set", NatType), TConst("list", NatType)]
    from kernel.type import TyInst
    for combo in itertools.product(base, repeat=len(tvs)):
        # type variables of declared signatures are ordinary TVars: substitute structurally
        def sub(T):
            if T.is_tvar():
                return combo[tvs.index(T.name)]
            if T.is_tconst():
                return TConst(T.name, *[sub(a) for a in T.args])
            return T
        T = sub(sig)
        if theory.thy.is_overload_const(fun_name):
            # only declared instances
            argT = T.strip_type()[0][0]
            if argT not in (NatType, IntType, RealType):
                continue
            try:
                theory.thy.check_term(Const(fun_name, T))
            except Exception:
                continue
        res.append(T)
    return res


def build_universe(rnd):
    """[(label triple, term)] : depth-2 nestings, typed"""
    ops = [d for d in operator.op_data_raw if d.arity != operator.CONST]
    inst = {}
    for d in ops:
        ts = op_instances(d.fun_name)
        if d.key == "iff":
            ts = [T for T in ts if T.strip_type()[0][0] == BoolType]
        elif d.key == "equals":
            ts = [T for T in ts if T.strip_type()[0][0] != BoolType]
        inst[d.key] = ts[:8]

    def mk(d, T, args):
        return Const(d.fun_name, T)(*args)

    # inner terms by result type
    inner = {}

    def add_inner(lbl, t):
        try:
            T = t.checked_get_type()
        except Exception:
            return
        inner.setdefault(str(T), []).append((lbl, t))
    for d in ops:
        for T in inst[d.key]:
            argTs, _ = T.strip_type()
            add_inner(d.key, mk(d, T, [leaf(A, i) for i, A in enumerate(argTs)]))
    for T in (NatType, BoolType, IntType, RealType, TConst("set", NatType), TConst("list", NatType)):
        f = Var("f_%s" % tname(T), TFun(NatType, T))
        add_inner("app", f(leaf(NatType, 7)))
        add_inner("if", Const("IF", TFun(BoolType, T, T, T))(leaf(BoolType, 5), leaf(T, 6), leaf(T, 7)))
    x = Var("x", NatType)
    add_inner("all", Forall(x, Var("P", TFun(NatType, BoolType))(x)))
    add_inner("exists", Exists(x, Var("P", TFun(NatType, BoolType))(x)))
    add_inner("num", Nat(2))
    add_inner("num", Int(3))
    add_inner("num", Real(2))
    add_inner("negnum", Int(-3))
    add_inner("negnum", Real(-2))
    add_inner("suc", Const("Suc", TFun(NatType, NatType))(leaf(NatType, 3)))
    add_inner("lambda", Lambda(x, Var("g", TFun(NatType, NatType))(x)))
    res = []
    for d in ops:
        for T in inst[d.key]:
            argTs, _ = T.strip_type()
            for pos, A in enumerate(argTs):
                for lbl, it in inner.get(str(A), []):
                    args = [leaf(B, i) for i, B in enumerate(argTs)]
                    args[pos] = it
                    side = "U" if len(argTs) == 1 else ("L" if pos == 0 else "R")
                    res.append(((d.key, side, lbl), mk(d, T, args)))
    # operators as arguments / functions of applications, under binders, in if
    for key, lst in inner.items():
        for lbl, it in lst:
            T = it.checked_get_type()
            g = Var("g_%s" % tname(T), TFun(T, NatType))
            res.append((("app", "arg", lbl), g(it)))
            res.append((("all", "body", lbl), Forall(x, Eq(g(it), x))))
            if T == BoolType:
                res.append((("all", "bodyb", lbl), Forall(x, it)))
                res.append((("if", "cond", lbl), Const("IF", TFun(BoolType, NatType, NatType, NatType))(it, leaf(NatType, 1), leaf(NatType, 2))))
            if T.is_fun():
                res.append((("app", "fun", lbl), it(leaf(T.domain_type(), 9))))
    return res


def nest(out_path, seed, n, hl_k=2):
    rnd = random.Random(seed)
    basic.load_theory("real")
    out = Out(out_path)
    univ = build_universe(rnd)
    typable = sorted({tuple(l) for l, _ in univ})
    json.dump([list(x) for x in typable], open(out_path + ".typable.json", "w"))
    # one instance per label triple first (exhaustive over triples), then a seeded sample of further instances
    seen = set()
    first, rest = [], []
    for l, t in univ:
        (first if l not in seen else rest).append((l, t))
        seen.add(l)
    rnd.shuffle(rest)

    def hl_pick(i, k):
        """k of the 6 highlighted settings, rotating with the index and the seed (every setting is used across the universe)"""
        return [HL_CONFIGS[(i + seed + j * (6 // max(1, min(k, 6)))) % 6] for j in range(min(k, 6))]
    for i, (l, t) in enumerate(first):
        roundtrip_term(out, t, "nest:%s/%s/%s" % l, configs=CONFIGS + hl_pick(i, hl_k))
    for i, (l, t) in enumerate(rest[:n]):
        roundtrip_term(out, t, "nest:%s/%s/%s" % l, configs=CONFIGS[:2] + hl_pick(i, 1))
    # depth 3: a nesting inside a nesting (seeded)
    pool = [t for _, t in univ]
    for i in range(n // 4):
        a = rnd.choice(pool)
        try:
            T = a.checked_get_type()
        except Exception:
            continue
        cands = [(l, t) for l, t in univ if any(v.T == T for v in t.get_vars())]
        if not cands:
            continue
        l, t = rnd.choice(cands)
        v = rnd.choice([v for v in t.get_vars() if v.T == T])
        t3 = Abs("z", T, t.abstract_over(v)).subst_bound(a)
        roundtrip_term(out, t3, "nest3:%s/%s/%s" % l, configs=CONFIGS[:2] + hl_pick(i, 1))
    # depth 3, systematic: a construct that is OPEN TO THE RIGHT (if, binders, lambda: its last part extends as far as the text
    # goes) as the LAST operand of an operator application that is itself the FIRST operand of every operator (and the function /
    # a non-final argument of an application) of fitting type -- the text after it must not be swallowed by the open construct
    open_r = {"if", "all", "exists", "lambda"}
    mids = [(l, t) for l, t in univ if l[2] in open_r and l[1] in ("R", "U")]
    outers = {}
    for l, t in univ:
        if l[1] == "L" and t.is_comb() and t.fun.is_comb():
            outers.setdefault((l[0], str(t.fun.arg.checked_get_type())), t)
    trip = []
    for l, m in mids:
        try:
            T = m.checked_get_type()
        except Exception:
            continue
        for (ok, Ts), o in sorted(outers.items(), key=lambda kv: kv[0]):
            if Ts == str(T):
                trip.append((l + (ok,), o.head(m, o.arg)))
        g2 = Var("h_%s" % tname(T), TFun(T, NatType, NatType))
        trip.append((l + ("app",), g2(m, leaf(NatType, 4))))
    rnd.shuffle(trip)
    seen3 = set()
    ordered = [x for x in trip if (x[0][2], x[0][3]) not in seen3 and not seen3.add((x[0][2], x[0][3]))]
    ordered += [x for x in trip if x not in ordered][:max(0, n // 2)]
    for i, (l, t3) in enumerate(ordered):
        roundtrip_term(out, t3, "open3:%s/%s/%s/%s" % l, configs=CONFIGS[:2] + hl_pick(i, 1))
    for i, (lbl, t) in enumerate(extras()):
        roundtrip_term(out, t, "extra:" + lbl, configs=ALL_CONFIGS if hl_k >= 6 else CONFIGS + hl_pick(i, 3))
    history(out, pool, rnd)
    out.f.close()
    print("nest events", out.tid, "triples", len(typable))


def extras():
    """binders, comprehension, literals, if/let/function update, polymorphic constants that need annotations, name clashes"""
    from kernel.term import Binary
    setT = lambda T: TConst("set", T)
    listT = lambda T: TConst("list", T)
    a = TVar("a")
    x, y, s = Var("x", NatType), Var("y", NatType), Var("s", setT(NatType))
    xa, ya = Var("x", a), Var("y", a)
    P = Var("P", TFun(NatType, BoolType))
    Q = Var("Q", TFun(NatType, NatType, BoolType))
    f = Var("f", TFun(NatType, NatType))
    res = []

    def binder(name, T, body_abs):
        return Const(name, T)(body_abs)
    res.append(("exists1", binder("exists1", TFun(TFun(NatType, BoolType), BoolType), Lambda(x, P(x)))))
    res.append(("the", Eq(binder("The", TFun(TFun(NatType, BoolType), NatType), Lambda(x, P(x))), y)))
    res.append(("some", Eq(binder("Some", TFun(TFun(NatType, BoolType), NatType), Lambda(x, P(x))), y)))
    res.append(("collect", Const("member", TFun(NatType, setT(NatType), BoolType))(y, Const("collect", TFun(TFun(NatType, BoolType), setT(NatType)))(Lambda(x, P(x))))))
    res.append(("nested-binders", Forall(x, Exists(y, Q(x, y)))))
    res.append(("binder-in-arg", P(binder("The", TFun(TFun(NatType, BoolType), NatType), Lambda(x, Q(x, y))))))
    # bound names clashing with free names (same and different types)
    res.append(("clash-same-type", Const("conj", TFun(BoolType, BoolType, BoolType))(P(x), Const("all", TFun(TFun(NatType, BoolType), BoolType))(Abs("x", NatType, P(Bound(0)))))))
    res.append(("clash-other-type", Const("conj", TFun(BoolType, BoolType, BoolType))(
        Const("finite", TFun(setT(NatType), BoolType))(s) if theory.thy.has_term_sig("finite") else P(x),
        Const("all", TFun(TFun(NatType, BoolType), BoolType))(Abs("s", NatType, P(Bound(0)))))))
    res.append(("clash-nested", Const("all", TFun(TFun(NatType, BoolType), BoolType))(Abs("x", NatType, Const("all", TFun(TFun(NatType, BoolType), BoolType))(Abs("x", NatType, Q(Bound(1), Bound(0))))))))
    res.append(("lambda-eq", Eq(Lambda(x, f(x)), f)))
    res.append(("lambda-applied", Eq(Lambda(x, f(x))(y), y)))
    # polymorphic constants that need annotations
    res.append(("empty-set", Eq(Const("empty_set", setT(NatType)), Const("empty_set", setT(NatType)))))
    res.append(("empty-set-a", Eq(Const("empty_set", setT(a)), Const("empty_set", setT(a)))))
    res.append(("nil", Eq(Const("nil", listT(NatType)), Const("nil", listT(NatType)))))
    res.append(("nil-a", Eq(Const("nil", listT(a)), Const("nil", listT(a)))))
    res.append(("zero-int", Eq(Int(0), Int(0))))
    res.append(("one-real", Eq(Real(1), Real(1))))
    res.append(("eq-a", Forall(xa, Eq(xa, xa))))
    res.append(("mem-empty-a", Not(Const("member", TFun(a, setT(a), BoolType))(xa, Const("empty_set", setT(a))))))
    res.append(("card-empty", Eq(Const("card", TFun(setT(a), NatType))(Const("empty_set", setT(a))), Nat(0))) if theory.thy.has_term_sig("card") else ("skip", P(x)))
    res.append(("length-nil", Eq(Const("length", TFun(listT(a), NatType))(Const("nil", listT(a))), Nat(0))) if theory.thy.has_term_sig("length") else ("skip", P(x)))
    # numerals at every numeric type, big ones, in operators
    for T, mk in ((NatType, Nat), (IntType, Int), (RealType, Real)):
        for n in (0, 1, 2, 10, 255, 4096):
            res.append(("num-%s-%d" % (T, n), Eq(mk(n), mk(n))))
    # numerals that are not in normal form: of_nat applied to the constants zero / one
    for T in (IntType, RealType):
        g = Var("g", TFun(T, T))
        for n in (0, 1):
            res.append(("of-nat-%d-%s" % (n, T), Eq(g(Const("of_nat", TFun(NatType, T))(Nat(n))), Const("of_nat", TFun(NatType, T))(Nat(n)))))
            res.append(("of-nat-%d-plus-%s" % (n, T), Eq(Const("plus", TFun(T, T, T))(Const("of_nat", TFun(NatType, T))(Nat(n)), g(Const("zero", T))), Const("zero", T))))
    res.append(("int-neg", Eq(Int(-5), Const("uminus", TFun(IntType, IntType))(Int(5)))))
    res.append(("real-frac", Eq(Const("real_divide", TFun(RealType, RealType, RealType))(Real(1), Real(3)), Real(2))))
    res.append(("of-nat", Eq(Const("of_nat", TFun(NatType, RealType))(x), Real(2))))
    res.append(("of-nat-int", Eq(Const("of_nat", TFun(NatType, IntType))(Const("plus", TFun(NatType, NatType, NatType))(x, Nat(2))), Int(2))))
    # terms whose numeric type is carried ONLY by polymorphic leaves under operators (the annotation cannot sit on an operator symbol)
    yv = Var("y", NatType)
    for T in (IntType, RealType):
        on = Const("of_nat", TFun(NatType, T))
        a1, a2 = on(x), on(yv)
        um = Const("uminus", TFun(T, T))
        for nm, t in (("uminus", um(a1)), ("uminus2", um(um(a1))), ("plus", Const("plus", TFun(T, T, T))(a1, a2)),
                      ("times-uminus", Const("times", TFun(T, T, T))(um(a1), a2)), ("minus", Const("minus", TFun(T, T, T))(a1, um(a2))),
                      ("less", Const("less", TFun(T, T, BoolType))(a1, a2)), ("less-eq-uminus", Const("less_eq", TFun(T, T, BoolType))(um(a1), a2)),
                      ("eq", Eq(um(a1), a2)), ("eq-plus", Eq(Const("plus", TFun(T, T, T))(a1, a2), um(a2)))):
            res.append(("poly-leaves-%s-%s" % (nm, T), t if t.get_type() == BoolType else Eq(Var("h", TFun(T, BoolType))(t), Var("h", TFun(T, BoolType))(t))))
            if t.get_type() != BoolType:
                res.append(("poly-leaves-bare-%s-%s" % (nm, T), t))
        if theory.thy.has_term_sig("abs"):
            res.append(("poly-leaves-abs-%s" % T, Const("abs", TFun(T, T))(um(a1))))
        # ... and inside list / set literals, where neither cons / insert nor the final nil / empty_set is printed
        if theory.thy.has_term_sig("cons") and theory.thy.has_term_sig("insert"):
            lT, sT = listT(T), setT(T)
            consT, nilT = Const("cons", TFun(T, lT, lT)), Const("nil", lT)
            insT, empT = Const("insert", TFun(T, sT, sT)), Const("empty_set", sT)
            res.append(("poly-leaves-list1-%s" % T, consT(a1, nilT)))
            res.append(("poly-leaves-list2-%s" % T, consT(a1, consT(um(a2), nilT))))
            res.append(("poly-leaves-set1-%s" % T, insT(a1, empT)))
            res.append(("poly-leaves-set2-%s" % T, insT(um(a1), insT(a2, empT))))
            res.append(("poly-leaves-list-of-nil-%s" % T, Const("cons", TFun(lT, listT(lT), listT(lT)))(nilT, Const("nil", listT(lT)))))
            res.append(("poly-leaves-set-of-empty-%s" % T, Const("insert", TFun(sT, setT(sT), setT(sT)))(empT, Const("empty_set", setT(sT)))))
            res.append(("poly-leaves-mem-set-%s" % T, Const("member", TFun(T, sT, BoolType))(a1, insT(a2, empT))))
    # if / function update / literals / intervals
    IF = Const("IF", TFun(BoolType, NatType, NatType, NatType))
    res.append(("if-nested", Eq(IF(P(x), IF(P(y), x, y), y), x)))
    res.append(("if-in-plus", Eq(Const("plus", TFun(NatType, NatType, NatType))(IF(P(x), x, y), y), x)))
    if theory.thy.has_term_sig("fun_upd"):
        fu = Const("fun_upd", TFun(TFun(NatType, NatType), NatType, NatType, TFun(NatType, NatType)))
        res.append(("fun-upd", Eq(fu(f, x, y)(x), y)))
        res.append(("fun-upd2", Eq(fu(fu(f, x, y), y, x), f)))
    cons = Const("cons", TFun(NatType, listT(NatType), listT(NatType)))
    nil = Const("nil", listT(NatType))
    res.append(("list-literal", Eq(cons(x, cons(y, nil)), cons(x, cons(y, nil)))))
    ins = Const("insert", TFun(NatType, setT(NatType), setT(NatType)))
    es = Const("empty_set", setT(NatType))
    res.append(("set-literal", Eq(ins(x, ins(y, es)), s)))
    res.append(("set-literal-union", Eq(Const("union", TFun(setT(NatType), setT(NatType), setT(NatType)))(ins(x, es), s), s)))
    # every pair of binder kinds nested with the SAME suggested bound name, the inner body referring to both variables
    R2 = Var("R", TFun(NatType, NatType, BoolType))
    allT = TFun(TFun(NatType, BoolType), BoolType)

    def mkb(kind, body_abs):
        if kind == "lambda":
            return body_abs
        if kind == "collect":
            return Const("collect", TFun(TFun(NatType, BoolType), setT(NatType)))(body_abs)
        return Const(kind, allT)(body_abs)
    kinds = ["all", "exists", "exists1", "collect", "lambda"]
    for k1 in kinds:
        for k2 in ["all", "exists", "exists1"]:
            inner = mkb(k2, Abs("x", NatType, R2(Bound(0), Bound(1))))
            body = Const("conj", TFun(BoolType, BoolType, BoolType))(P(Bound(0)), inner)
            t = mkb(k1, Abs("x", NatType, body))
            if k1 == "collect":
                t = Const("member", TFun(NatType, setT(NatType), BoolType))(y, t)
            elif k1 == "lambda":
                t = Eq(t, Var("h", TFun(NatType, BoolType)))
            res.append(("same-name-%s-%s" % (k1, k2), t))
    # literals nested three deep (chains of inferred element types)
    def lst(T, *xs):
        r = Const("nil", listT(T))
        for x_ in reversed(xs):
            r = Const("cons", TFun(T, listT(T), listT(T)))(x_, r)
        return r

    def sset(T, *xs):
        r = Const("empty_set", setT(T))
        for x_ in reversed(xs):
            r = Const("insert", TFun(T, setT(T), setT(T)))(x_, r)
        return r
    l1 = lst(NatType, x)
    l2 = lst(listT(NatType), l1)
    l3 = lst(listT(listT(NatType)), l2)
    res.append(("list-depth3", Eq(l3, l3)))
    res.append(("list-depth3-mixed", Eq(lst(listT(listT(NatType)), lst(listT(NatType), lst(NatType, Nat(1))), lst(listT(NatType))), l3)))
    s1 = sset(NatType, x)
    s2 = sset(setT(NatType), s1)
    s3 = sset(setT(setT(NatType)), s2)
    res.append(("set-depth3", Eq(s3, s3)))
    xs_ = Var("xs", listT(NatType))
    xss = Var("xss", listT(listT(NatType)))
    res.append(("cons-depth3", Eq(lst(listT(listT(NatType)), Const("cons", TFun(listT(NatType), listT(listT(NatType)), listT(listT(NatType))))(
        Const("cons", TFun(NatType, listT(NatType), listT(NatType)))(x, xs_), xss)), l3)))
    return [(l, t) for l, t in res if l != "skip"]


def history(out, pool, rnd):
    """PrintIsFunction: the text for (term, settings) must not depend on what was printed or parsed before"""
    basic.load_theory("real")
    x, y = Var("x", NatType), Var("y", NatType)
    P = Var("P", TFun(NatType, NatType, BoolType))
    variants = [Forall(x, Exists(y, P(x, y))), Abs("x", NatType, Const("all", TFun(TFun(NatType, BoolType), BoolType))(Abs("z", NatType, P(Bound(1), Bound(0)))))]
    sample = rnd.sample(pool, min(40, len(pool)))
    texts = {}
    for rounds in range(3):
        order = list(sample)
        rnd.shuffle(order)
        for t in order:
            for uni in (False, True):
                with global_setting(unicode=uni, highlight=False):
                    txt = text_of(printer.print_term(t))
                texts.setdefault((json.dumps(enc(t)), uni), []).append(txt)
            if rounds == 1:
                # interleave: highlighted printing and parsing of something else
                with global_setting(unicode=True, highlight=True):
                    printer.print_term(rnd.choice(sample))
                try:
                    context.set_context(None, vars=vars_of(t))
                    with global_setting(unicode=False, highlight=False):
                        parser.parse_term(text_of(printer.print_term(t)))
                except Exception:
                    pass
    for (k, uni), txts in texts.items():
        out.emit({"kind": "hist", "t": json.loads(k), "cfg": [uni, 0], "texts": txts, "key": "hist:%s" % txts[0][:100]})
    # history: a text is parsed while a name is still a variable, THEN the theory is extended in place with a constant of that
    # name, then a term with the new constant is printed and parsed back
    try:
        cname = "verifconst%d" % rnd.randint(0, 9)
        context.set_context(None, vars={cname: TFun(NatType, NatType), "x": NatType})
        parser.parse_term("%s x = x" % cname)
        theory.thy.add_term_sig(cname, TFun(NatType, NatType))
        roundtrip_term(out, Eq(Const(cname, TFun(NatType, NatType))(x), x), "history-new-constant", configs=CONFIGS[:2])
    except Exception as e:
        sys.stderr.write("history-new-constant skipped: %r\n" % (e,))
    # alpha-variants with different inner bound names: each must round trip whatever was printed before
    a = Forall(x, Exists(y, P(x, y)))
    b = Forall(x, Exists(Var("z", NatType), P(x, Var("z", NatType))))
    for t in (a, b, a, b):
        roundtrip_term(out, t, "alpha-variant", configs=CONFIGS[:2] + HL_CONFIGS[::3])


# ------------------------------------------------------------------------------------------------ corpus
def corpus(out_path, seed, n, theories):
    from server import items
    rnd = random.Random(seed)
    out = Out(out_path)
    for th in theories:
        data = basic.load_json_data(th)
        basic.load_theory(th, limit="start")
        idx = list(range(len(data["content"])))
        chosen = set(rnd.sample(idx, min(n, len(idx))))
        for i, raw in enumerate(data["content"]):
            item = items.parse_item(raw)
            if item.error:
                continue
            exts = item.get_extension()
            theory.thy.unchecked_extend(exts)
            if i in chosen:
                for e in exts:
                    if e.is_theorem():
                        prop = e.th.prop
                        roundtrip_term(out, prop, "corpus:%s.%s" % (th, e.name), configs=CONFIGS[:3] + [HL_CONFIGS[(i + seed) % 6]])
                        thm_event(out, Thm(prop, *[h for h in e.th.hyps]), "corpus:%s.%s" % (th, e.name))
                    elif e.is_constant():
                        type_event(out, e.T, "corpus:%s.%s" % (th, e.name))
                if getattr(item, "proof", None):
                    proof_items(out, item, th)
    out.f.close()
    print("corpus events", out.tid)


def thm_vars(th):
    vs = {}
    for t in list(th.hyps) + [th.prop]:
        vs.update(vars_of(t))
    return vs


def thm_event(out, th, label, configs=FLAT_CONFIGS):
    for cfg in configs:
        ev = {"kind": "thm", "label": label, "cfg": cfg_json(cfg), "t": encS(th)}
        try:
            txt, ev["out"], ev["out2"] = print_twice(lambda: printer.print_thm(th), cfg)
            ev["text"] = txt
            context.set_context(None, vars=thm_vars(th))
            r = parser.parse_thm(txt)
            ev["outcome"], ev["r"] = "ok", encS(r)
        except Exception as e:
            ev["outcome"], ev["r"], ev["err"] = "exc:" + type(e).__name__, {"h": [], "c": ["none"]}, str(e)[:160]
            ev.setdefault("text", "")
        ev["key"] = "thm:%s:%s%s" % (label, ev["text"][:120], ":hl" if cfg[1] else "")
        out.emit(ev)


def type_event(out, T, label, configs=FLAT_CONFIGS):
    for cfg in configs:
        ev = {"kind": "type", "label": label, "cfg": cfg_json(cfg), "t": encT(T)}
        try:
            txt, ev["out"], ev["out2"] = print_twice(lambda: printer.print_type(T), cfg)
            ev["text"] = txt
            r = parser.parse_type(txt)
            ev["outcome"], ev["r"] = "ok", encT(r)
        except Exception as e:
            ev["outcome"], ev["r"], ev["err"] = "exc:" + type(e).__name__, ["none"], str(e)[:160]
            ev.setdefault("text", "")
        ev["key"] = "type:%s:%s%s" % (label, ev["text"][:120], ":hl" if cfg[1] else "")
        out.emit(ev)


def proj_arg(a):
    """structural projection of the argument of a proof step; an instantiation keeps BOTH parts (Inst.__eq__ is not used)"""
    if isinstance(a, Term):
        return ["term", enc(a)]
    if isinstance(a, Inst):
        return ["inst", sorted([k, encT(v)] for k, v in a.tyinst.items()), sorted([k, enc(v)] for k, v in a.items())]
    if isinstance(a, TyInst):
        return ["tyinst", sorted([k, encT(v)] for k, v in a.items())]
    if isinstance(a, Type):
        return ["type", encT(a)]
    if isinstance(a, (tuple, list)):
        return ["tuple", [proj_arg(x) for x in a]]
    if a is None:
        return ["none"]
    return ["str", str(a)]


def proj_item(it):
    return [str(it.id), it.rule, proj_arg(it.args), [str(p) for p in it.prevs], encS(it.th) if it.th is not None else {"h": [], "c": ["none"]}]


def proof_items(out, item, th):
    context.set_context(None, vars=item.vars)
    for k, line in enumerate(item.proof[:40]):
        hl = k % 2 == 1       # export_proof_item under both highlight settings: the exported fields must not depend on it
        ev = {"kind": "item", "label": "%s.%s#%s" % (th, item.name, line.get("id")), "cfg": [True, hl, 0]}
        try:
            context.set_context(None, vars=item.vars)
            it = parser.parse_proof_rule(line)
            ev["t"] = proj_item(it)
            with global_setting(unicode=True, highlight=hl):
                exp = printer.export_proof_item(it)[0]
            ev["out"] = out_of([exp.get("th"), exp.get("args")])
            with global_setting(unicode=True, highlight=hl):
                exp2 = printer.export_proof_item(it)[0]
            ev["out2"] = out_of([exp2.get("th"), exp2.get("args")])
            ev["text"] = json.dumps({k_: v for k_, v in exp.items() if not k_.endswith("_hl")}, ensure_ascii=False)[:300]
            context.set_context(None, vars=item.vars)
            it2 = parser.parse_proof_rule(exp)
            ev["outcome"], ev["r"] = "ok", proj_item(it2)
        except Exception as e:
            ev.setdefault("t", ["none"])
            ev["outcome"], ev["r"], ev["err"] = "exc:" + type(e).__name__, ["none"], str(e)[:160]
            ev.setdefault("text", "")
            if "t" not in ev or ev["t"] == ["none"]:
                continue      # the stored line itself does not parse in this context: not a round trip
        ev["key"] = "item:%s" % ev["label"]
        out.emit(ev)


# ------------------------------------------------------------------------------------------------ proof-step arguments
def tlc_vectors(paths, tag):
    """the values printed by TLC as <<"TAG", "json">> (one per line of the log)"""
    pre = '<<"%s", ' % tag
    for path in str(paths).split(","):
        for ln in open(path, errors="replace"):
            if ln.startswith(pre):
                yield json.loads(json.loads(ln.strip()[len(pre):-2]))


def seqj(x):
    """TLC serialises an empty sequence / a function over 1..n as a JSON list, but a function with another domain as an object"""
    if isinstance(x, dict):
        return [x[k] for k in sorted(x, key=int)]
    return list(x)


RULE_OF_SIG = {"inst": "substitution", "strinst": "apply_theorem_for", "tyinst": "subst_type", "term": "assume", "strtype": "variable",
               "strterm": "rewrite_goal", "strterm2": "apply_induct", "terms": "intros", "str": "apply_theorem", "none": "implies_elim"}


def mk_inst(ty, tm):
    res = Inst({k: dec(t) for k, t in seqj(tm)})
    res.tyinst = TyInst({k: decT(T) for k, T in seqj(ty)})
    return res


def dec_arg(v):
    k = v[0]
    if k == "inst":
        return mk_inst(v[1], v[2])
    if k == "strinst":
        return (v[1], mk_inst(v[2], v[3]))
    if k == "tyinst":
        return TyInst({a: decT(T) for a, T in seqj(v[1])})
    if k == "term":
        return dec(v[1])
    if k == "strtype":
        return (v[1], decT(v[2]))
    if k == "strterm":
        return (v[1], dec(v[2]))
    if k == "strterm2":
        return (v[1], dec(v[2]), dec(v[3]))
    if k == "terms":
        return [dec(t) for t in seqj(v[1])]
    if k == "str":
        return v[1]
    if k == "none":
        return None
    raise ValueError(v)


def arg_vars(a, vs=None):
    vs = {} if vs is None else vs
    if isinstance(a, Term):
        vs.update(vars_of(a))
    elif isinstance(a, Inst):
        for t in a.values():
            vs.update(vars_of(t))
    elif isinstance(a, (tuple, list)):
        for x in a:
            arg_vars(x, vs)
    return vs


def args_event(out, rule, a, cfg, label, th=None):
    """print_str_args under cfg (twice), the text parsed back with parse_args at the signature the theory gives for the rule"""
    ev = {"kind": "args", "label": label, "rule": rule, "cfg": cfg_json(cfg), "t": proj_arg(a)}
    try:
        txt, ev["out"], ev["out2"] = print_twice(lambda: printer.print_str_args(rule, a, th), cfg)
        ev["text"] = txt
        context.set_context(None, vars=arg_vars(a))
        sig = theory.thy.get_proof_rule_sig(rule)
        r = parser.parse_args(sig, txt)
        ev["outcome"], ev["r"] = "ok", proj_arg(r)
    except Exception as e:
        ev["outcome"], ev["r"], ev["err"] = "exc:" + type(e).__name__, ["none"], str(e)[:160]
        ev.setdefault("text", "")
    ev["key"] = "args:%s:%s:%s%s" % (label, rule, ev["text"][:120], ":hl" if cfg[1] else "")
    out.emit(ev)


def export_event(out, rule, a, cfg, label, th):
    """a whole proof step through export_proof_item (twice) / parse_proof_rule"""
    it = ProofItem("0.1", rule, args=a, prevs=["0.0"] if rule in ("implies_elim", "apply_theorem", "rewrite_goal") else [], th=th)
    ev = {"kind": "item", "label": label, "rule": rule, "cfg": cfg_json(cfg), "t": proj_item(it)}
    try:
        with global_setting(unicode=cfg[0], highlight=cfg[1]):
            exp = printer.export_proof_item(it)[0]
        with global_setting(unicode=cfg[0], highlight=cfg[1]):
            exp2 = printer.export_proof_item(it)[0]
        ev["out"], ev["out2"] = out_of([exp.get("th"), exp.get("args")]), out_of([exp2.get("th"), exp2.get("args")])
        if cfg[1]:
            ev["out"] += out_of([exp.get("th_hl"), exp.get("args_hl")])
            ev["out2"] += out_of([exp2.get("th_hl"), exp2.get("args_hl")])
        ev["text"] = json.dumps({k_: v for k_, v in exp.items() if not k_.endswith("_hl")}, ensure_ascii=False)[:300]
        vs = arg_vars(a)
        if th is not None:
            vs.update(thm_vars(th))
        context.set_context(None, vars=vs)
        it2 = parser.parse_proof_rule(exp)
        ev["outcome"], ev["r"] = "ok", proj_item(it2)
    except Exception as e:
        ev["outcome"], ev["r"], ev["err"] = "exc:" + type(e).__name__, ["none"], str(e)[:160]
        ev.setdefault("text", "")
    ev["key"] = "item:%s:%s:%s%s" % (label, rule, ev["text"][:160], ":hl" if cfg[1] else "")
    out.emit(ev)


def args_mode(out, seed, tlc_log, k):
    m, n = Var("m", NatType), Var("n", NatType)
    less = Const("less", TFun(NatType, NatType, BoolType))
    ths = [None, Thm(less(m, n)), Thm(less(m, n), Eq(m, n), less(n, m))]
    nvec = 0
    for i, vec in enumerate(tlc_vectors(tlc_log, "ARG")):
        v = vec["v"]
        nvec += 1
        rule = RULE_OF_SIG[v[0]]
        a = dec_arg(v)
        label = "%s#%d" % (v[0], i)
        # 'variable' with highlighting is a display form (x :: T), not the exported one: printed, not parsed back
        cfgs = [FLAT_CONFIGS[(i + seed + j) % 4] for j in range(min(k, 4))]
        for cfg in cfgs:
            if rule == "variable" and cfg[1]:
                continue
            args_event(out, rule, a, cfg, label)
        export_event(out, rule, a, FLAT_CONFIGS[(i + seed + 2) % 4], label, ths[(i + seed) % 3])
        if v[0] == "term" and i % 2 == 0:
            # the same value under the other rules that take a term (the rule name only matters to the display of the goal)
            for rule2 in ("forall_intr", "reflexive"):
                args_event(out, rule2, a, cfgs[0], label)
    print("args events", out.tid, "vectors", nvec)


# ------------------------------------------------------------------------------------------------ histories
def session_pools(sfx):
    """concrete instances of the three terms 1, 2, 3 of C07_History (propositions; fresh variable names per suffix)"""
    nat, boolT = NatType, BoolType
    setT = TConst("set", nat)
    listT = TConst("list", nat)

    def v(nm, T):
        return Var(nm + sfx, T)
    m, n, k, x, y = v("m", nat), v("n", nat), v("k", nat), v("x", nat), v("y", nat)
    P, Q, f, g = v("P", TFun(nat, boolT)), v("Q", TFun(nat, nat, boolT)), v("f", TFun(nat, nat)), v("g", TFun(nat, nat))
    A, B, C_, P2 = v("A", boolT), v("B", boolT), v("C", boolT), v("R", TFun(boolT, boolT))
    s, xs = v("s", setT), v("xs", listT)
    plus = Const("plus", TFun(nat, nat, nat))
    less = Const("less", TFun(nat, nat, boolT))
    conj = Const("conj", TFun(boolT, boolT, boolT))
    disj = Const("disj", TFun(boolT, boolT, boolT))
    ins = Const("insert", TFun(nat, setT, setT))
    cons = Const("cons", TFun(nat, listT, listT))
    emp, nil = Const("empty_set", setT), Const("nil", listT)
    IF = Const("IF", TFun(boolT, nat, nat, nat))
    return [
        (less(m, n), Eq(plus(n, k), m), P(plus(m, k))),
        (P2(Eq(emp, emp)), Forall(y, Q(y, x)), conj(A, disj(B, C_))),         # P (({}::nat set) = {}): printed with an annotation
        (Eq(Lambda(x, f(x)), g), Eq(IF(A, m, n), k), Not(Eq(m, Nat(0)))),
        (Eq(cons(m, cons(n, nil)), xs), Eq(ins(m, ins(n, emp)), s), Exists(x, conj(P(x), Forall(y, Q(x, y))))),
    ]


def mk_obj(kind, ids, terms):
    ts = [terms[i - 1] for i in ids]
    if kind == "term":
        return ts[0]
    if kind == "thm":
        return Thm(ts[-1], *ts[:-1])
    if kind == "list":
        return list(ts)
    if kind == "inst":
        r = Inst({"AB"[j] if j < 2 else "C%d" % j: t for j, t in enumerate(ts)})
        r.tyinst = TyInst({"a": NatType})
        return r
    raise ValueError(kind)


def proj_obj(kind, o):
    if kind == "thm":
        return ["thm", [enc(h) for h in o.hyps], enc(o.prop)]
    return proj_arg(o)


def obj_vars(kind, o):
    return thm_vars(o) if kind == "thm" else arg_vars(o)


class Vals:
    """table of the distinct projections of one session event (1-based; 1 = no value): identical structures are stored once,
    the comparison of two entries is made by the T specification"""
    def __init__(self):
        self.vals, self.idx = [["none"]], {}

    def add(self, j):
        k = json.dumps(j, separators=(",", ":"))
        if k not in self.idx:
            self.vals.append(j)
            self.idx[k] = len(self.vals)
        return self.idx[k]


def do_step(kind, o, cfg, V):
    """one print operation and the parse back: the step record (without the name of the object)"""
    st = {"cfg": cfg_json(cfg)}
    try:
        with global_setting(unicode=cfg[0], highlight=cfg[1], line_length=cfg[2]):
            if kind == "term":
                a = printer.print_term(o)
            elif kind == "thm":
                a = printer.print_thm(o)
            elif kind == "list":
                a = printer.print_str_args("intros", o, None)
            else:
                a = printer.print_str_args("substitution", o, None)
            st["out"] = out_of(a)
            txt = text_of(a)
        st["text"] = txt[:200]
        context.set_context(None, vars=obj_vars(kind, o))
        if kind == "term":
            r = parser.parse_term(txt)
        elif kind == "thm":
            r = parser.parse_thm(txt)
        elif kind == "list":
            r = parser.parse_args(List[Term], txt)
        else:
            r = parser.parse_args(Inst, txt)
        st["outcome"], st["r"] = "ok", V.add(proj_obj(kind, r))
    except Exception as e:
        st["outcome"], st["r"], st["err"] = "exc:" + type(e).__name__, 1, str(e)[:120]
        st.setdefault("out", [])
        st.setdefault("text", "")
    return st


OBJ_SHAPES = {"T1": ("term", [1]), "T2": ("term", [2]), "T3": ("term", [3]), "S0": ("thm", [1]), "S1": ("thm", [1, 2]), "S2": ("thm", [1, 2, 3]),
              "S2r": ("thm", [2, 1, 3]), "L1": ("list", [1]), "L2": ("list", [1, 2]), "L3": ("list", [2, 1, 3]), "I2": ("inst", [1, 2])}


def sessions_mode(out, seed, tlc_log, nlong):
    rnd = random.Random(seed)
    tid0 = out.tid
    npools = len(session_pools(""))
    nvec = 0
    for i, vec in enumerate(tlc_vectors(tlc_log, "HIST")):
        nvec += 1
        ops = seqj(vec["ops"])
        terms = session_pools("_%d" % i)[(i + seed) % npools]        # fresh names: no memoised state is shared with another history
        objs, steps, path, V = {}, [], [], Vals()
        for op in ops:
            nm, kind, ids = op["o"], op["kind"], seqj(op["ids"])
            if nm not in objs:
                objs[nm] = (kind, mk_obj(kind, ids, terms))
            st = do_step(kind, objs[nm][1], (op["uni"], op["hl"], None), V)
            st["o"] = nm
            steps.append(st)
            path.append("%s@%s" % (nm, op["c"]))
        out.emit({"kind": "session", "fam": "tlc", "pool": (i + seed) % npools, "objs": {nm: V.add(proj_obj(k_, o)) for nm, (k_, o) in objs.items()},
                  "vals": V.vals, "steps": steps, "key": "session:p%d:%s" % ((i + seed) % npools, ">".join(path))})
    # long seeded histories on SHARED objects (nothing is fresh): every object of the pool, every setting, terms also with line widths
    for j in range(nlong):
        terms = session_pools("")[(j + seed) % npools]
        objs = {nm: (kind, mk_obj(kind, ids, terms)) for nm, (kind, ids) in OBJ_SHAPES.items()}
        steps, names, V = [], sorted(objs), Vals()
        for _ in range(120):
            nm = rnd.choice(names)
            kind, o = objs[nm]
            cfg = rnd.choice(ALL_CONFIGS if kind == "term" else FLAT_CONFIGS)
            st = do_step(kind, o, cfg, V)
            st["o"] = nm
            steps.append(st)
        out.emit({"kind": "session", "fam": "long", "pool": (j + seed) % npools, "objs": {nm: V.add(proj_obj(k_, o)) for nm, (k_, o) in objs.items()},
                  "vals": V.vals, "steps": steps, "key": "session:long:p%d:seed%d:%d" % ((j + seed) % npools, seed, j)})
    print("session events", out.tid - tid0, "vectors", nvec)


def ext_mode(out_path, seed, args_log, k, hist_logs, nlong):
    """proof-step arguments, then the histories, in one process (theory real)"""
    basic.load_theory("real")
    out = Out(out_path)
    args_mode(out, seed, args_log, k)
    sessions_mode(out, seed, hist_logs, nlong)
    out.f.close()


def tables(out_path):
    ops = []
    for d in operator.op_data_raw:
        ops.append({"key": d.key, "fun": d.fun_name, "priority": d.priority, "assoc": {None: "N", operator.LEFT: "L", operator.RIGHT: "R"}[d.assoc],
                    "arity": {operator.CONST: "C", operator.UNARY: "U", operator.BINARY: "B"}[d.arity], "ascii": d.ascii_op.strip(),
                    "unicode": d.unicode_op.strip(), "arg_priority": getattr(d, "arg_priority", d.priority)})
    json.dump({"ops": ops, "grammar": parser.grammar}, open(out_path, "w"))


if __name__ == "__main__":
    mode = sys.argv[1]
    if mode == "nest":
        nest(sys.argv[2], int(sys.argv[3]), int(sys.argv[4]), int(sys.argv[5]) if len(sys.argv) > 5 else 2)
    elif mode == "corpus":
        corpus(sys.argv[2], int(sys.argv[3]), int(sys.argv[4]), sys.argv[5].split(","))
    elif mode == "ext":
        ext_mode(sys.argv[2], int(sys.argv[3]), sys.argv[4], int(sys.argv[5]), sys.argv[6], int(sys.argv[7]))
    elif mode == "tables":
        tables(sys.argv[2])
