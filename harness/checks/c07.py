"""C07 - printing then parsing a type, term, sequent or proof step is the identity.   DESIGN.md section 6/C07

 S  spec/C07_Syntax.tla         bracket rules of the printer vs. the grammar ladder of the parser, both GENERATED from the code
                                (spec/gen/C07_Tables.tla); TLC explores every depth-2 nesting of operators; invariant RoundTrip on the
                                nestings that have a well-typed instance
 S  spec/C07_Args.tla           proof-step arguments: one value per signature of parser.parse_args (instantiations over overlapping
                                type / term variable names, empty parts, lambda values, values printed with annotations, tuples,
                                lists), the text format as coded (one dict for the braces, split by key); invariant ArgRoundTrip;
                                every value is emitted as a vector
 S  spec/C07_History.tla        histories: the printer at the level of the objects it hands out (memoised ASTs, fresh outputs,
                                commas_join extending the first list in place); every history of 3 (4) print operations over objects
                                that share terms and over the settings; invariants PrintStable, PrintIsFunction; every history is a vector
 ->  harness/drivers/c07.py     real print -> parse on: every well-typed depth-2 nesting of every operator in every position (plain
                                settings + rotating highlighted ones), seeded depth-3 nestings, binders / literals / if / function
                                update / polymorphic constants / name clashes (all 12 settings), library statements as terms and
                                sequents, constant types, stored proof items; the argument vectors through print_str_args /
                                export_proof_item; the history vectors on real objects in one process; every print is done twice
 T  spec/C07_SyntaxTrace.tla    RoundTripParses, RoundTrip (equal through the structural codec, instantiations with both parts),
                                PrintStable (same object, same settings => same printed object), PrintIsFunction
"""
import copy
import json
import random
import re

from harness.core import (SPEC, model_check, read_events, require, run_driver, seed, selftest_trace, spec_mutant,
                          validate_trace, work_dir)


def q(s):
    return '"' + str(s).replace("\\", "\\\\").replace('"', '\\"') + '"'


def split_alts(body):
    alts, depth, cur, inq = [], 0, "", False
    for ch in body:
        if ch == '"':
            inq = not inq
        if not inq:
            if ch == "(":
                depth += 1
            if ch == ")":
                depth -= 1
            if ch == "|" and depth == 0:
                alts.append(cur.strip())
                cur = ""
                continue
        cur += ch
    alts.append(cur.strip())
    return alts


def ladder_of(grammar):
    rules, cur = {}, None
    for ln in grammar.split("\n"):
        ln = re.sub(r"//.*$", "", ln).rstrip()
        m = re.match(r"\s*\??(\w+)\s*:\s*(.*)$", ln)
        if m and not ln.strip().startswith("|"):
            cur = m.group(1)
            rules[cur] = m.group(2)
        elif cur and ln.strip().startswith("|"):
            rules[cur] += " " + ln.strip()
        elif not ln.strip():
            cur = None
    name = rules["term"].strip()
    ladder = []
    while name in rules and name != "comb":
        nxt, ops, kinds = None, [], set()
        for a in split_alts(rules[name]):
            t = re.findall(r'\([^)]*\)|"[^"]*"|->|\w+', a)
            if "->" in t:
                t = t[:t.index("->")]
            if len(t) == 1 and re.match(r"^\w+$", t[0]):
                nxt = t[0]
                continue
            syms = re.findall(r'"([^"]*)"', " ".join(x for x in t if x.startswith('"') or x.startswith("(")))
            nts = [x for x in t if re.match(r"^\w+$", x)]
            if len(nts) == 1:
                k = "P"
            else:
                l, r = nts[0], nts[1]
                k = "L" if (l == name and r != name) else ("R" if (r == name and l != name) else ("N" if (l == name and r == name) else "?"))
            kinds.add(k)
            ops.append(syms)
        require(len(kinds) == 1 and "?" not in kinds and nxt, "C07: cannot classify grammar rule %s" % name)
        ladder.append((name, kinds.pop(), ops))
        name = nxt
    return ladder


def gen_tables(wd):
    tp = wd / "tables.json"
    run_driver("c07", ["tables", tp])
    d = json.load(open(tp))
    ops = [o for o in d["ops"] if o["arity"] != "C"]
    by_sym = {}
    for o in ops:
        by_sym.setdefault(o["ascii"], []).append(o["key"])
    ladder = ladder_of(d["grammar"])
    lad = []
    used = set()
    for name, kind, symlists in ladder:
        keys = set()
        for syms in symlists:
            for s in syms:
                for k in by_sym.get(s, []):
                    # '-' is both minus (binary) and uminus (prefix): choose by the kind of rule
                    o = next(x for x in ops if x["key"] == k)
                    if (kind == "P") == (o["arity"] == "U"):
                        keys.add(k)
        if keys:
            lad.append((kind, sorted(keys)))
            used |= keys
    missing = [o["key"] for o in ops if o["key"] not in used]
    require(not missing, "C07: operators of the table that are not in the grammar ladder: %s" % missing)
    return ops, lad, d


def write_tables(ops, lad, typable):
    lines = ["------------------------------ MODULE C07_Tables ------------------------------",
             "(* GENERATED by harness/checks/c07.py from syntax/operator.py (Tab, Sym, Unary), the grammar of syntax/parser.py (Ladder) *)",
             "(* and the real type checker (Typable).                                                                                   *)",
             "Tab == " + " @@ ".join('(%s :> <<%d, %s>>)' % (q(o["key"]), o["priority"], q(o["assoc"] if o["arity"] == "B" else "U")) for o in ops),
             "Sym == " + " @@ ".join('(%s :> %s)' % (q(o["key"]), q(o["ascii"])) for o in ops),
             "Unary == {" + ", ".join(q(o["key"]) for o in ops if o["arity"] == "U") + "}",
             "Ladder == <<" + ", ".join("<<%s, {%s}>>" % (q(k), ", ".join(q(x) for x in ks)) for k, ks in lad) + ">>",
             "Typable == {" + ", ".join("<<%s, %s, %s>>" % (q(a), q(b), q(c)) for a, b, c in typable) + "}",
             "============================================================================="]
    (SPEC / "gen").mkdir(exist_ok=True)
    (SPEC / "gen" / "C07_Tables.tla").write_text("\n".join(lines[:3] + ["EXTENDS TLC"] + lines[3:]) + "\n")


def corrupt_roundtrip(evs):
    """binding self-test for RoundTrip: the parse result loses a part of its structure"""
    bad = []
    for e in evs:
        if e["kind"] == "term" and e["outcome"] == "ok" and e["t"][0] == "comb" and len(bad) < 2:
            c = copy.deepcopy(e)
            c["r"] = c["r"][2]
            c["tid"] = 10 ** 6 + len(bad)
            bad.append(c)
    return bad


def name_clash(a):
    """projected argument: an instantiation (possibly after a theorem name) with one name in its type part and in its term part"""
    if a and a[0] == "tuple":
        return any(name_clash(x) for x in a[1])
    return bool(a) and a[0] == "inst" and bool({k for k, _ in a[1]} & {k for k, _ in a[2]})


def corrupt_ext(evs):
    """binding self-tests on the argument / history events: (RoundTrip) an instantiation read back WITHOUT its type part,
    a history step whose parse result is another object; (PrintStable) a second print that differs, a repeated history step that differs"""
    rt, ps = [], []
    for e in evs:
        if e["kind"] == "args" and e["outcome"] == "ok" and e["t"][0] == "inst" and e["t"][1] and e["t"][2] and len(rt) < 2:
            c = copy.deepcopy(e)
            c["r"][1] = []
            c["tid"] = 2 * 10 ** 6 + len(rt)
            rt.append(c)
        if e["kind"] == "args" and e["outcome"] == "ok" and e["cfg"][1] and len(e.get("out2", [])) > 2 and len([x for x in ps if x["kind"] == "args"]) < 2:
            c = copy.deepcopy(e)
            c["out2"] = c["out2"] + c["out2"][-2:]
            c["tid"] = 3 * 10 ** 6 + len(ps)
            ps.append(c)
        if e["kind"] == "session" and all(st["outcome"] == "ok" for st in e["steps"]):
            S = e["steps"]
            rep = [(i, j) for i in range(len(S)) for j in range(i + 1, len(S)) if S[i]["o"] == S[j]["o"] and S[i]["cfg"] == S[j]["cfg"]]
            if rep and S[rep[0][1]]["out"] and len([x for x in ps if x["kind"] == "session"]) < 2:
                c = copy.deepcopy(e)
                c["steps"][rep[0][1]]["out"] = c["steps"][rep[0][1]]["out"] + ["0|, "]
                c["tid"] = 3 * 10 ** 6 + 100 + len(ps)
                ps.append(c)
            other = [(i, j) for i in range(len(S)) for j in range(len(S)) if S[i]["o"] != S[j]["o"] and e["vals"][S[i]["r"] - 1][0] == e["vals"][S[j]["r"] - 1][0]]
            if other and len([x for x in rt if x["kind"] == "session"]) < 2:
                c = copy.deepcopy(e)
                c["steps"][other[0][0]]["r"] = c["steps"][other[0][1]]["r"]
                c["tid"] = 2 * 10 ** 6 + 100 + len(rt)
                rt.append(c)
    return rt, ps


def run(rep, tier):
    quick = tier == "quick"
    wd = work_dir("C07", clean=True)
    rep.rule = ("TLC: every depth-2 nesting of the operators of syntax/operator.py / application, printed with the table's bracket rules and "
                "parsed with the grammar's ladder (both generated from the code); every proof-step argument value over small name / value sets "
                "for every signature of parse_args (C07_Args); every history of 3 (thorough: also 4) print operations over objects sharing terms "
                "and over the settings (C07_History). Real code: one well-typed instance of every typable nesting under 4 plain + rotating "
                "highlighted settings, seeded further instances and depth-3 nestings, ~140 special forms under all 12 settings, a seeded "
                "sample of library statements / sequents / constant types / stored proof items, every argument vector through print_str_args "
                "and export_proof_item, every history vector on real objects in one process, seeded long histories; every print is done twice. "
                "Non-trivial = every event; distinct by content.")
    rep.assumptions = ["terms use constants at declared instances and do not contain two free variables of one name at different types",
                       "settings: unicode x highlight x line width for single terms; unicode x highlight for types, sequents and proof-step "
                       "arguments (the code does not support a line width there); the display form 'x :: T' of rule variable with highlighting is not parsed back",
                       "TLC/SANY, structural codec, the extraction of the grammar ladder by harness/checks/c07.py (regular expressions over the grammar text)"]
    ops, lad, d = gen_tables(wd)
    # two independent pipelines run side by side (each is a chain of single processes): the nestings (which also tell which
    # nestings have a well-typed instance, needed by C07_Syntax), then the corpus | arguments + histories
    from concurrent.futures import ThreadPoolExecutor
    acfg = "C07_Args.cfg" if quick else "C07_Args_wide.cfg"
    hcfgs = ["C07_History.cfg"] if quick else ["C07_History_wide.cfg", "C07_History_deep.cfg"]
    nest, ext, corp = wd / "nest.ndjson", wd / "ext.ndjson", wd / "corpus.ndjson"
    theories = ["logic_base", "nat", "set", "list", "real"] if quick else ["logic_base", "logic", "nat", "set", "function", "list", "int", "real", "expr", "hoare", "interval_arith"]

    def side():
        res = {"ra": model_check("C07_Args", acfg, wd=wd / "mc_args", workers=1), "rh": []}
        hlogs = []
        for hcfg in hcfgs:
            res["rh"].append(model_check("C07_History", hcfg, wd=wd / "mc_hist", workers=1))
            hlogs.append(str(wd / "mc_hist" / ("C07_History.%s.tlc.log" % hcfg[:-4])))
        run_driver("c07", ["ext", ext, seed(), wd / "mc_args" / ("C07_Args.%s.tlc.log" % acfg[:-4]), 2 if quick else 4, ",".join(hlogs),
                           2 if quick else 8], timeout=7200)
        res["evs3"] = read_events(ext)
        res["v3"] = validate_trace("C07_SyntaxTrace", ext, wd=wd / "tv_ext", nchunks=1 if quick else 3)
        return res
    pool = ThreadPoolExecutor(max_workers=1)
    fut = pool.submit(side)
    try:
        run_driver("c07", ["nest", nest, seed(), 60 if quick else 3000, 2 if quick else 6], timeout=7200)
        typable = [tuple(x) for x in json.load(open(str(nest) + ".typable.json"))]
        opkeys = {o["key"] for o in ops} | {"app"}
        typable = [t for t in typable if t[0] in opkeys and t[2] in opkeys]
        write_tables(ops, lad, typable)
        r = model_check("C07_Syntax", "C07_Syntax.cfg", wd=wd / "mc", workers=2)
        evs = read_events(nest)
        v = validate_trace("C07_SyntaxTrace", nest, wd=wd / "tv_nest", nchunks=1 if quick else 2)
        run_driver("c07", ["corpus", corp, seed(), 20 if quick else 400, ",".join(theories)], timeout=7200)
        evs2 = read_events(corp)
        v2 = validate_trace("C07_SyntaxTrace", corp, wd=wd / "tv_corpus", nchunks=1 if quick else 2)
    finally:
        side_res = fut.result()
        pool.shutdown()
    rep.add_mc("C07_Syntax", r, "%d operators, %d ladder rules, %d typable nestings" % (len(ops), len(lad), len(typable)))
    if r.violated:
        rep.design_violation("C07_Syntax", r)
    rep.exhaustive = True
    rep.add_trace_result("nestings", evs, v, sample_n=2)
    # ---- proof-step arguments and histories: vectors from TLC, performed on the real code, judged by the T specification
    ra = side_res["ra"]
    rep.add_mc("C07_Args", ra, acfg)
    if ra.violated:
        rep.design_violation("C07_Args", ra)
    for hcfg, rh in zip(hcfgs, side_res["rh"]):
        rep.add_mc("C07_History", rh, hcfg)
        if rh.violated:
            rep.design_violation("C07_History", rh)
    evs3, v3 = side_res["evs3"], side_res["v3"]
    rep.add_trace_result("arguments+histories", evs3, v3, sample_n=2)
    rep.add_trace_result("corpus", evs2, v2, sample_n=2)
    # ---- non-vacuity of the oracles (two at a time)
    bad_rt, bad_ps = corrupt_ext(evs3)
    if not v3["fails"]:
        require(len(bad_rt) >= 3 and len(bad_ps) >= 3, "C07: no events to corrupt for the binding self-tests")
    bad_rt = corrupt_roundtrip(evs) + bad_rt
    jobs = [
        # the table as it was at the pinned commit for one family (append and cons at one priority) must break RoundTrip
        lambda: spec_mutant(rep, "cons_same_priority_as_append", "C07_Syntax", "C07_Syntax.cfg",
                            [("gen/C07_Tables.tla", '("cons" :> <<%d, "R">>)' % next(o["priority"] for o in ops if o["key"] == "cons"),
                              '("cons" :> <<%d, "R">>)' % next(o["priority"] for o in ops if o["key"] == "append"))], ["RoundTrip"], wd=wd, workers=2),
        # the one-dict format loses the type entry when type and term variable keys are not kept apart
        lambda: spec_mutant(rep, "tvar_key_without_quote", "C07_Args", "C07_Args.cfg", [("C07_Args.tla", 'TKey(nm) == "\'" \\o nm', "TKey(nm) == nm")],
                            ["ArgRoundTrip"], wd=wd, workers=1),
        # the design that keeps the printed output with the memoised AST: commas_join corrupts the shared list
        lambda: spec_mutant(rep, "printed_output_kept_with_memoised_ast", "C07_History", "C07_History_stable.cfg",
                            [("C07_History.tla", "ShareOutput == FALSE", "ShareOutput == TRUE")], ["PrintStable"], wd=wd, workers=1),
        lambda: selftest_trace(rep, "C07_SyntaxTrace", bad_rt, "RoundTrip", wd=wd / "st_rt"),
        lambda: selftest_trace(rep, "C07_SyntaxTrace", bad_ps, "PrintStable", wd=wd / "st_ps") if bad_ps else None,
    ]
    (wd / "st_rt").mkdir(exist_ok=True)
    (wd / "st_ps").mkdir(exist_ok=True)
    with ThreadPoolExecutor(max_workers=2) as ex:
        for f in [ex.submit(j) for j in jobs]:
            f.result()
    from collections import Counter
    allev = evs + evs2 + evs3
    rep.notes["events_by_kind"] = dict(Counter(e["kind"] for e in allev))
    rep.notes["events_by_settings"] = {"u%d h%d w%d" % (k[0], k[1], k[2]): n for k, n in sorted(Counter(
        (int(e["cfg"][0]), int(e["cfg"][1]), e["cfg"][2]) for e in allev if e["kind"] in ("term", "thm", "type", "item", "args") and len(e["cfg"]) == 3).items())}
    sess = [e for e in evs3 if e["kind"] == "session"]
    steps = sum(len(e["steps"]) for e in sess)
    repeated = sum(1 for e in sess if len({(st["o"], tuple(st["cfg"])) for st in e["steps"]}) < len(e["steps"]))
    clash = sum(1 for e in evs3 if e["kind"] in ("args", "item") and name_clash(e["t"] if e["kind"] == "args" else e["t"][2]))
    rep.notes["histories"] = {"sessions": len(sess), "print_steps": steps, "sessions_repeating_an_operation": repeated,
                              "argument_events": sum(1 for e in evs3 if e["kind"] == "args"), "exported_step_events": sum(1 for e in evs3 if e["kind"] == "item"),
                              "instantiations_with_a_name_in_both_parts": clash}
    hl = sum(1 for e in allev if e["kind"] in ("term", "thm", "type", "args") and e["cfg"][1])
    if not rep.violations:
        require(len(evs) >= 3000 and len(evs2) >= (300 if quick else 3000), "C07: too few round trips (vacuity guard)")
        require(len(sess) >= (1500 if quick else 40000) and repeated >= (300 if quick else 10000), "C07: too few histories (vacuity guard)")
        require(sum(1 for e in evs3 if e["kind"] == "args") >= (1000 if quick else 20000) and clash >= (100 if quick else 1000),
                "C07: too few proof-step arguments / instantiations with overlapping names (vacuity guard)")
        require(hl >= 2000, "C07: too few round trips with highlighting (vacuity guard)")


def replay(path):
    from harness.core import write_events
    obj = json.load(open(path))
    if obj.get("kind") != "event":
        print(json.dumps(obj, indent=1)[:3000])
        return 1
    e = obj["event"]
    print("event", e.get("key"), "clause", obj["clause"], "settings [unicode, highlight, width]:", e.get("cfg"), "text:", e.get("text"), "err:", e.get("err"))
    if e.get("kind") == "session":
        for k, st in enumerate(e["steps"]):
            print("  step %d: print %s under %s -> %r ; parse back: %s %s" % (k + 1, st["o"], st["cfg"], st.get("text"), st["outcome"], st.get("err", "")))
    elif "out2" in e and e["out2"] != e.get("out"):
        print("  first print :", e.get("out"), "\n  second print:", e["out2"])
    wd = work_dir("C07", "replay1", clean=True)
    write_events(wd / "ev.ndjson", [e])
    v = validate_trace("C07_SyntaxTrace", wd / "ev.ndjson", wd=wd / "tv", nchunks=1)
    print("fails:", v["fails"], "(`./check C07 quick` re-runs the round trips against the current tree)")
    if v["fails"]:
        print("VIOLATION property=C07 replay=%s" % path)
        return 1
    return 0
