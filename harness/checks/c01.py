"""C01 - every sequent the checker accepts from primitive inferences is valid.   DESIGN.md section 6/C01

 S  spec/C01_Kernel.tla       TLC saturates the 15 reference rules over typed + adversarial argument pools; invariants
                              AllWellTyped, AllValid (finite standard models, HolSem), NoFalse; emits every attempt
 ->  harness/drivers/c01.py   replays each attempt through Thm.<rule> and through theory.check_proof; code-driven
                              random walk composes the code's own results and checks whole derivations gap-free
 T  spec/C01_KernelTrace.tla  TLC evaluates WellTyped / Valid / NotFalse on every accepted event
"""
import copy
import json

from harness.core import (MachineryError, model_check, read_events, require, run_driver, seed, selftest_trace,
                          spec_mutant, tlc, validate_trace, work_dir)

TSPEC = "C01_KernelTrace"


def run(rep, tier):
    quick = tier == "quick"
    wd = work_dir("C01", clean=True)
    rep.rule = ("TLC saturates lib/Kernel.tla's 15 rules for %d rounds over typed+adversarial pools (exhaustive within pools "
                "and size caps); each attempt replayed via Thm.<rule> and via check_proof; plus a seeded code-driven "
                "random walk with whole-derivation gap-free checks. Non-trivial = accepted by the code with a result "
                "that is well-typed and small enough for the finite-model validity clause to be evaluated; distinct "
                "by (route, rule, arguments, premises, result)." % (2 if quick else 3))
    rep.assumptions = ["finite standard models with |tyvar| <= 2 (validity in all standard models implies validity in these)",
                       "TLC/SANY, the structural codec harness/codec.py, CPython",
                       "sequents with symbols of type order > 2 or > 70000 assignments are not examined (counted as trivial)"]
    cfg = "C01_Kernel_small.cfg" if quick else "C01_Kernel_deep.cfg"
    vec = wd / "vectors.ndjson"
    r = model_check("C01_Kernel", cfg, wd=wd / "mc", workers=1, env={"VECTOR_FILE": vec}, timeout=7200, xmx="12g")
    rep.add_mc("C01_Kernel", r, cfg)
    if r.violated:
        rep.design_violation("C01_Kernel", r)
        return
    require(vec.exists(), "C01_Kernel did not emit vectors")
    rep.exhaustive = True
    nvec = sum(1 for _ in open(vec))
    rep.notes["vectors"] = nvec
    # oracle non-vacuity: a kernel without the side condition of forall_intr must violate AllValid
    spec_mutant(rep, "forall_intr_no_occurs", "C01_Kernel", "C01_Kernel_small.cfg",
                [("lib/Kernel.tla", "ForallIntr(x, th) == IF ~IsV(x) \\/ (\\E hh \\in th.h : Occurs(hh, x)) THEN ErrS",
                  "ForallIntr(x, th) == IF ~IsV(x) THEN ErrS")], ["AllValid", "NoFalse"], wd=wd, workers=1,
                env={"VECTOR_FILE": wd / "mutant_vectors.ndjson"})
    if not quick:
        spec_mutant(rep, "implies_elim_no_match", "C01_Kernel", "C01_Kernel_small.cfg",
                    [("lib/Kernel.tla", "IF IsImp(t1.c) /\\ Arg1(t1.c) = t2.c THEN Sq(t1.h \\cup t2.h, Arg(t1.c)) ELSE ErrS",
                      "IF IsImp(t1.c) THEN Sq(t1.h \\cup t2.h, Arg(t1.c)) ELSE ErrS")], ["AllValid", "NoFalse"], wd=wd, workers=1,
                    env={"VECTOR_FILE": wd / "mutant_vectors.ndjson"})
        spec_mutant(rep, "implies_intr_keeps_hyp_drops_ante", "C01_Kernel", "C01_Kernel_small.cfg",
                    [("lib/Kernel.tla", "ImpliesIntr(A, th) == Sq(th.h \\ {A}, Imp(A, th.c))",
                      "ImpliesIntr(A, th) == Sq(th.h \\ {A}, th.c)")], ["AllValid", "NoFalse"], wd=wd, workers=1,
                    env={"VECTOR_FILE": wd / "mutant_vectors.ndjson"})
    # third configuration: small pools around schematic TYPE variables, three rounds
    vecf = wd / "vectors_focus.ndjson"
    rf = model_check("C01_Kernel", "C01_Kernel_focus.cfg", wd=wd / "mc", workers=1, env={"VECTOR_FILE": vecf}, timeout=3600)
    rep.add_mc("C01_Kernel(focus: schematic type variables, 3 rounds)", rf, "C01_Kernel_focus.cfg")
    if rf.violated:
        rep.design_violation("C01_Kernel_focus", rf)
        return
    with open(vec, "a") as f:
        f.write(open(vecf).read())
    # second machine: derivations as sequences of steps; exhaustive for 2 steps, simulated deep ones
    rd = model_check("C01_Derive", "C01_Derive_small.cfg", wd=wd / "mc", workers=4, timeout=7200)
    rep.add_mc("C01_Derive(all derivations of 2 steps)", rd, "MaxLen=2")
    if rd.violated:
        rep.design_violation("C01_Derive", rd)
        return
    rs = tlc("C01_Derive", "C01_Derive_sim.cfg", wd=wd / "mc", simulate="num=%d" % (40 if quick else 1500), depth=12, seed_=seed() + 1, timeout=7200)
    require(rs.rc == 0, "C01_Derive simulation failed: %s %s" % (rs.violated, rs.error))
    (wd / "derive.log").write_text(rd.out + "\n" + rs.out)
    ev3 = wd / "derivs.ndjson"
    run_driver("c01", ["derivs", wd / "derive.log", ev3])
    # spec -> code
    ev1 = wd / "replay.ndjson"
    run_driver("c01", ["replay", vec, ev1])
    # code-driven walk
    ev2 = wd / "walk.ndjson"
    run_driver("c01", ["walk", 3000 if quick else 40000, ev2, seed()])
    for name, path in (("replay", ev1), ("walk", ev2), ("derivations", ev3)):
        evs = read_events(path)
        v = validate_trace(TSPEC, path, wd=wd / ("tv_" + name), nchunks=1 if quick else None)
        rep.add_trace_result(name, evs, v)
        if name == "replay":
            # binding self-test: corrupt the recorded result of accepted events
            bad = []
            for e in evs:
                if e["outcome"] == "accepted" and e["rule"] == "implies_intr" and len(bad) < 3 and not e["result"]["h"]:
                    c = copy.deepcopy(e)
                    c["result"]["c"] = c["result"]["c"][1][2]     # |- A --> B   becomes   |- A
                    c["tid"] = 10 ** 6 + len(bad)
                    if c["result"]["c"][0] in ("var", "svar"):
                        bad.append(c)
            selftest_trace(rep, TSPEC, bad, "Valid", wd=wd)
    acc = rep.notes["traces"]
    require(acc["derivations"]["nontrivial"] >= 500, "C01: too few whole derivations accepted by the checker")
    require(acc["replay"]["nontrivial"] >= 500 and acc["walk"]["nontrivial"] >= 300, "C01: too few examined accepted steps (vacuity guard)")


def replay(path):
    """Re-run one recorded failing event against the current code and re-validate it."""
    from harness.core import Report, write_events
    obj = json.load(open(path))
    wd = work_dir("C01", "replay1", clean=True)
    if obj.get("kind") != "event":
        print(json.dumps(obj, indent=1)[:3000])
        return 1
    e = obj["event"]
    vec = {"rule": e["rule"], "arg": e["arg"], "prems": e["prems"]}
    if e["route"] == "proof":
        print("whole-proof event; stored verdict:", obj["clause"])
        write_events(wd / "ev.ndjson", [e])
    else:
        write_events(wd / "vec.ndjson", [vec])
        run_driver("c01", ["replay", wd / "vec.ndjson", wd / "ev.ndjson"])
    v = validate_trace(TSPEC, wd / "ev.ndjson", wd=wd / "tv", nchunks=1)
    print("events:", v["consumed"], "fails:", v["fails"])
    if v["fails"]:
        print("VIOLATION property=C01 replay=%s" % path)
        return 1
    print("not reproduced on the current tree")
    return 0
