"""X07 - the integration calculator's proof-file bookkeeping is a faithful tree machine.   extras/X07.md

 S/I spec/X07_CompFile.tla   a CompFile as a sequence of item trees (spec/X07_Tree.tla: nodes keyed by the label that reaches them);
                             one action per public operation (add_definition / add_goal, proof_by_calculation / _induction / _case /
                             _rewrite_goal at any goal, perform_rule at any step id of any calculation, clear at any node,
                             goal.proof.clear()) over six expressions, three rules (Rule.eval = a table), two items.  TLC explores ALL
                             sequences of <= 4, <= 5 on one item (thorough: 6; 5 with three items) operations; invariants: TreeShape,
                             StepIds, LabelsExact / LabelsNeverAnotherNode / CodeDiffersOnlyThere (a), EditExact (b), FinishedExact (c),
                             FactsPreceding (d).  I: get_by_label AS CODED (AsCoded = TRUE) must violate LabelsExact and
                             LabelsNeverAnotherNode (the two label defects found are design-level).  Every behaviour of <= 3
                             (thorough: 4) operations and simulated ones of 7 are EMITTED
 ->  harness/drivers/x07.py  replay: each behaviour performed on a real CompFile, live and the way app/integral.py works (export, re-parse,
                             get_by_label before every operation); then get_by_label for every label over 0..2 up to length 3, and a
                             reload (export -> parse_item -> export);  rand: seeded sessions of 8..24 operations over a richer alphabet;
                             examples: the recorded files of integral/examples reloaded, labels probed, cleared at seeded nodes and the
                             cleared steps performed again;  rules: Rule.export -> parse_rule -> export for every rule class
 T   spec/X07_Trace.tla      per event: (a) LabelReachesNode, InvalidLabelAnswered, InvalidLabelForeignError; (b) OthersUntouched,
                             EffectExact, TreeShape, StepIds; (c) FinishedPropagates, FinishedNoOpenLeaf, CalcClosedIffSame; (d) FactsLemmas,
                             FactsDefinitions, FactsConditions, FactsHypotheses; (e) ExportRaises, ReparseRaises, ReparseEqualTree,
                             ExportStable, RuleReparseRaises, RuleExportStable.  Divergence: code /= X07_CompFile, a failed operation
                             changed the tree, the transcription of get_by_label /= the code.
 Findings are grouped by (clause, kind of event, exception class); the replay file holds the concrete session
 (`./check X07 --replay f` performs it again on the current tree).
"""
import copy
import json
import shutil
import time
from concurrent.futures import ThreadPoolExecutor

from harness.core import (MachineryError, model_check, read_events, require, run_driver, seed, spec_mutant, tlc,
                          validate_trace, work_dir, write_events)
import os

INVARIANTS = ["TreeShape", "StepIds", "LabelsExact", "LabelsNeverAnotherNode", "CodeDiffersOnlyThere", "EditExact", "FinishedExact", "FactsPreceding"]
OPS = ["adddef", "addgoal", "bycalc", "byind", "bycase", "byrw", "perform", "clear", "pclear"]
OFFSET = 10 ** 7


def keyf(e):
    """findings are grouped; the concrete session is in the replay file (fields key / hist)"""
    k = e.get("kind")
    if k == "labels":
        return "get_by_label"
    if k == "reload":
        return "reload" + (":" + e["exc"] if e.get("exc") else "")
    if k == "rule":
        return e.get("key")
    if k == "op":
        return "%s (%s)" % (e["op"]["nm"], str(e.get("src", "")).split(":")[0].rstrip("0123456789."))
    return e.get("key")


def first_per_key(v, by_tid, n=2):
    """keep the first n failing events of every (clause, group): one replay file per group is enough; totals are reported"""
    seen, fails, total = {}, [], {}
    for f in sorted(v["fails"], key=lambda f: f["tid"]):
        e = by_tid.get(f["tid"], {})
        keep = []
        for c in f["fail"]:
            k = "%s|%s" % (c, keyf(e))
            total[k] = total.get(k, 0) + 1
            if seen.get(k, 0) < n:
                seen[k] = seen.get(k, 0) + 1
                keep.append(c)
        if keep:
            fails.append({"tid": f["tid"], "fail": keep})
    w = dict(v)
    w["fails"] = fails
    return w, total


def part(v, tids):
    return {"consumed": len(tids), "fails": [f for f in v["fails"] if f["tid"] in tids],
            "nontrivial": [t for t in v["nontrivial"] if t in tids], "divergences": [t for t in v["divergences"] if t in tids],
            "states": 0, "wall": v.get("wall", 0)}


def run(rep, tier):
    quick = tier == "quick"
    wd = work_dir("X07", "run_%d" % os.getpid(), clean=True)
    for d in wd.parent.glob("run_*"):          # scratch of finished runs (a live process keeps its directory)
        pid = d.name[4:]
        if d != wd and pid.isdigit() and not os.path.exists("/proc/" + pid):
            shutil.rmtree(d, ignore_errors=True)
    timing = rep.notes.setdefault("timing_s", {})
    rep.rule = ("TLC: all sequences of <= %s operations (9 actions) on a file of <= 2 items over 6 expressions / 3 rules, 8 invariants; "
                "get_by_label as coded must violate the label invariants. Every behaviour of <= %d operations and simulated ones of 7 "
                "performed on a real CompFile (live and server-style), then every label over 0..2 up to length 3 probed and the file "
                "reloaded (spec -> code); seeded random sessions of 8..24 operations, the recorded example files (reload, labels, clear "
                "at seeded nodes, re-run), every rule class through export/parse_rule (code -> spec). One event per operation / item "
                "probed / reload / rule, judged on the clauses of the T spec. Non-trivial = operation that completed, label probe, "
                "reload, rule; distinct by projected content." % ("4 (5 on one item)" if quick else "6 (5 on three items)", 3 if quick else 4))
    rep.assumptions = [
        "expressions, rules and exported items are interned through the structural codec / their JSON text: equal number = equal raw fields",
        "Rule.eval, the statements of induction sub-goals, the negated split condition, the closing test of rewrite proofs and of "
        "inequality goals, and is_finished of well-formedness sub-goals are black boxes: read from the code, only their PLACE in the tree is judged",
        "facts: lemmas / definitions / conditions / induction hypotheses of goal.ctx beyond the book's; identities derived from earlier goals "
        "(Context.extend_by_item) are not examined",
        "perform_rule is judged for step ids -1 .. last; an operation that raises is not judged (a changed tree is a divergence)",
        "clause (d) AS CODED: every earlier goal is a fact, finished or not (extras/X07.md)"]
    # ---- drivers that do not need vectors run while TLC works
    nrand = 100 if quick else 1200
    nex = 20 if quick else 0
    pool = ThreadPoolExecutor(max_workers=3)
    futs = {"rand": pool.submit(run_driver, "x07", ["rand", wd / "rand.ndjson", nrand, seed()], timeout=7200),
            "examples": pool.submit(run_driver, "x07", ["examples", wd / "ex.ndjson", seed(), nex], timeout=7200),
            "rules": pool.submit(run_driver, "x07", ["rules", wd / "rules.ndjson"], timeout=7200)}
    try:
        t0 = time.time()
        runs = [("X07_CompFile_small.cfg", "all sequences of <= 4 operations, 2 items, <= 2 steps"),
                ("X07_CompFile_chain.cfg", "all sequences of <= 5 operations, 1 item, <= 3 steps")]
        if not quick:
            runs += [("X07_CompFile_deep.cfg", "all sequences of <= 6 operations, 2 items, <= 3 steps"),
                     ("X07_CompFile_wide.cfg", "all sequences of <= 5 operations, 3 items, <= 3 steps")]
        for cfg, what in runs:
            r = model_check("X07_CompFile", cfg, wd=wd / "mc", workers=2 if quick else 3, timeout=6000)
            rep.add_mc("X07_CompFile(%s)" % what, r, cfg)
            if r.violated:
                rep.design_violation("X07_CompFile", r)
                return
        rep.exhaustive = True
        # I: get_by_label as coded violates (a) - both ways
        for cfg, inv in (("X07_CompFile_ascoded.cfg", "LabelsExact"), ("X07_CompFile_ascoded2.cfg", "LabelsNeverAnotherNode")):
            r = tlc("X07_CompFile", cfg, wd=wd / "mc", workers=1, timeout=3000)
            require(inv in r.violated, "X07: get_by_label as coded does not violate %s in the model (%s %s)" % (inv, r.violated, r.error))
            rep.notes.setdefault("as_coded", []).append({"cfg": cfg, "violates": inv, "states": r.distinct})
        # sanity: the interesting configurations are reachable
        for cfg, inv in (("X07_CompFile_reach1.cfg", "NeverFinishedInduction"), ("X07_CompFile_reach2.cfg", "NeverTruncatingPerform")):
            r = tlc("X07_CompFile", cfg, wd=wd / "mc", workers=1, timeout=3000)
            require(inv in r.violated, "X07: %s is not reachable in the model (%s %s)" % (inv[5:], r.violated, r.error))
        # vectors
        logs = []
        re_ = model_check("X07_CompFile", "X07_CompFile_emit.cfg" if quick else "X07_CompFile_emit4.cfg", wd=wd / "mc", workers=1, timeout=6000)
        rep.add_mc("X07_CompFile(emitted: all behaviours of <= %d operations)" % (3 if quick else 4), re_, "Record, EmitAll")
        if re_.violated:
            rep.design_violation("X07_CompFile", re_)
            return
        logs.append(re_.out)
        rs = tlc("X07_CompFile", "X07_CompFile_sim.cfg", wd=wd / "mc", simulate="num=%d" % (120 if quick else 3000), depth=9, seed_=seed() + 1, timeout=3000)
        require(rs.rc == 0 or rs.violated, "X07_CompFile simulation failed: %s" % rs.error)
        if rs.violated:
            rep.design_violation("X07_CompFile", rs)
            return
        logs.append(rs.out)
        lines = [ln for ln in "\n".join(logs).splitlines() if ln.startswith('<<"X07"')]
        timing["tlc_specs"] = round(time.time() - t0, 1)
        # replay the vectors in the real code (parallel slices)
        nsl = 2 if quick else 4
        t1 = time.time()
        jobs = []
        for k in range(nsl):
            vp = wd / ("vectors_%d.log" % k)
            vp.write_text("\n".join(lines[k::nsl]) + "\n")
            jobs.append(pool.submit(run_driver, "x07", ["replay", vp, wd / ("tlc_%d.ndjson" % k), seed() + k], timeout=7200))
        t2 = time.time()
        spec_mutant(rep, "perform_keeps_later_steps", "X07_CompFile", "X07_CompFile_chain.cfg",
                    [("X07_Tree.tla", "TruncTo(T, c, id) == T \\ { m \\in StepsOf(T, c) : LastOf(m.lab) > id }",
                      "TruncTo(T, c, id) == T \\ { m \\in StepsOf(T, c) : LastOf(m.lab) > id + 1 }")], ["EditExact", "TreeShape"], wd=wd, workers=2)
        spec_mutant(rep, "induction_finished_by_base_case", "X07_CompFile", "X07_CompFile_small.cfg",
                    [("X07_Tree.tla", "[] OTHER -> Fin(T, Append(lab, 0), LC, SG) /\\ Fin(T, Append(lab, 1), LC, SG)",
                      "[] OTHER -> Fin(T, Append(lab, 0), LC, SG)")], ["FinishedExact"], wd=wd, workers=2)
        if not quick:
            spec_mutant(rep, "context_includes_the_item_itself", "X07_CompFile", "X07_CompFile_small.cfg",
                        [("X07_CompFile.tla", "snap |-> Stmts(file)]))", "snap |-> Append(Stmts(file), root.e)]))")], ["FactsPreceding"], wd=wd, workers=1)
            spec_mutant(rep, "clear_goal_keeps_the_calculations", "X07_CompFile", "X07_CompFile_emit.cfg",
                        [("X07_Tree.tla", "CASE n.k = \"goal\" -> (T \\ Under(T, lab)) \\cup", "CASE n.k = \"goal\" -> (T \\ {n}) \\cup")],
                        ["EditExact", "TreeShape"], wd=wd, workers=1)
        timing["spec_mutants"] = round(time.time() - t2, 1)
        for j in jobs:
            j.result()
        timing["driver_replay"] = round(time.time() - t1, 1)
        for k in ("rand", "examples", "rules"):
            timing["driver_" + k] = round(futs[k].result()[1], 1)
    finally:
        pool.shutdown(wait=True)
    # ---- one trace, tids renumbered
    groups, allev = {}, []
    srcs = [("tlc", [wd / ("tlc_%d.ndjson" % k) for k in range(nsl)]), ("rand", [wd / "rand.ndjson"]), ("examples", [wd / "ex.ndjson"]),
            ("rules", [wd / "rules.ndjson"])]
    stats = {}
    for name, paths in srcs:
        evs = []
        for p in paths:
            evs += read_events(p)
        for e in evs:
            e["tid"] = len(allev) + 1
            if e["kind"] == "stats":
                stats.setdefault(name, []).append(e)
            allev.append(e)
        groups[name] = evs
    allp = wd / "all.ndjson"
    write_events(allp, allev)
    v = validate_trace("X07_Trace", allp, wd=wd / "tv", nchunks=1 if quick else 4)
    rep.states += v.get("states", 0)
    timing["trace_validation"] = round(v["wall"], 1)
    by_tid = {e["tid"]: e for e in allev}
    v1, totals = first_per_key(v, by_tid)
    rep.notes["failing_events_by_group"] = totals
    for name, evs in groups.items():
        rep.add_trace_result(name, evs, part(v1, {e["tid"] for e in evs}), keyf=keyf, sample_n=1)
    rep.samples = [{"trace": s["trace"], "event": {k: x for k, x in s["event"].items() if k in ("kind", "key", "op", "oc", "exc", "src")}}
                   if isinstance(s.get("event"), dict) else s for s in rep.samples]
    # ---- what was exercised (counts only)
    ops = [e for e in allev if e["kind"] == "op"]
    byop = {o: sum(1 for e in ops if e["op"]["nm"] == o and e["oc"] == "ok") for o in OPS}
    rep.notes["events_by_kind"] = {k: sum(1 for e in allev if e["kind"] == k) for k in ("op", "labels", "reload", "rule", "unobs", "exload")}
    rep.notes["completed_operations"] = byop
    rep.notes["operations_that_raised"] = sum(1 for e in ops if e["oc"] != "ok")
    rep.notes["server_style_operations"] = sum(1 for e in ops if e.get("modeb"))
    rep.notes["label_probes"] = sum(len(e["probes"]) for e in allev if e["kind"] == "labels")
    rep.notes["behaviours"] = {k: sum(s["behaviours"] for s in x) for k, x in stats.items()}
    rep.notes["example_files_not_loadable"] = sorted(e["key"] for e in allev if e["kind"] == "exload")
    rep.notes["rule_classes_not_listed"] = [s.get("unlisted") for s in stats.get("rules", [])]
    dv = set(v["divergences"])
    rep.notes["divergences_by_kind"] = {
        "failed operation changed the tree": sum(1 for e in ops if e["tid"] in dv and e["oc"] != "ok"),
        "code differs from X07_CompFile / step id outside": sum(1 for e in ops if e["tid"] in dv and e["oc"] == "ok"),
        "get_by_label transcription differs": sum(1 for e in allev if e["kind"] == "labels" and e["tid"] in dv),
        "parse_rule changed the dictionary it was given": sum(1 for e in allev if e["kind"] == "rule" and e["tid"] in dv)}
    fin_t = sum(1 for e in ops for n in e["at"] if n["k"] == "goal" and n["fin"] == "t")
    rep.notes["finished_goals_seen"] = fin_t
    nested = sum(1 for e in ops if any(n["k"] == "goal" and len(n["lab"]) >= 2 for n in e["at"]))
    rep.notes["events_with_goals_nested_twice"] = nested
    # ---- binding self-test: one recorded field changed, T must reject
    bad = []

    def corrupt(pred, change, clause):
        for e in allev:
            if pred(e):
                c = copy.deepcopy(e)
                change(c)
                c["tid"] = OFFSET + len(bad)
                bad.append((c, clause))
                return
        raise MachineryError("X07 self-test: no event to corrupt for clause %s" % clause)

    def keep_later(c):       # a later step survives the perform
        st = [n for n in c["at"] if n["k"] == "step"][-1]
        x = copy.deepcopy(st)
        x["lab"][-1] += 1
        x["y"] += 1
        c["at"].append(x)

    def flip_fin(c):
        for n in c["at"]:
            if n["k"] == "goal" and n["fin"] in "tf":
                n["fin"] = "f" if n["fin"] == "t" else "t"
                return

    def later_fact(c):
        for n in c["at"]:
            if n["k"] == "goal" and n["fo"]:
                n["lem"].append([n["l"], n["r"]])
                return

    def other_node(c):
        for p in c["probes"]:
            if p["oc"] == "node" and p["lab"]:
                p["rl"] = []
                return

    def reparse_lost(c):
        c["ad"][0] += 1000

    corrupt(lambda e: e["kind"] == "op" and e["oc"] == "ok" and e["op"]["nm"] == "perform" and e["dom"], keep_later, "EffectExact")
    corrupt(lambda e: e["kind"] == "op" and e["oc"] == "ok" and any(n["k"] == "goal" and n["fin"] in "tf" and n["pk"] in (1, 2, 3) for n in e["at"])
            and all(n["fin"] in "tf-" and n["lc"] in "tf-" for n in e["at"]), flip_fin, "FinishedPropagates")
    corrupt(lambda e: e["kind"] == "op" and any(n["k"] == "goal" and n["fo"] and n["pd"] == "=" for n in e["at"][:1]), later_fact, "FactsLemmas")
    corrupt(lambda e: e["kind"] == "labels" and any(p["oc"] == "node" and p["lab"] for p in e["probes"]), other_node, "LabelReachesNode")
    corrupt(lambda e: e["kind"] == "reload" and e["oc"] == "ok" and e["ad"] and e["ad"] == e["bd"], reparse_lost, "ReparseEqualTree")
    stp = wd / "selftest.ndjson"
    write_events(stp, [c for c, _ in bad])
    sv = validate_trace("X07_Trace", stp, wd=wd / "selftest_tv", nchunks=1)
    got = {f["tid"]: set(f["fail"]) for f in sv["fails"]}
    for c, clause in bad:
        require(clause in got.get(c["tid"], set()), "self-test: X07_Trace accepted an event corrupted for clause %s (got %s)" % (
            clause, sorted(got.get(c["tid"], []))))
    rep.notes["selftests"] = [{"spec": "X07_Trace", "corrupted_field_for": clause, "rejected": True} for _, clause in bad]
    # ---- vacuity guards
    require(all(byop[o] >= (20 if quick else 200) for o in OPS), "X07: an operation is hardly exercised: %s" % byop)
    require(rep.notes["label_probes"] >= (20000 if quick else 200000), "X07: too few label probes: %d" % rep.notes["label_probes"])
    require(rep.notes["events_by_kind"]["reload"] >= (800 if quick else 8000), "X07: too few reloads: %s" % rep.notes["events_by_kind"])
    require(rep.notes["events_by_kind"]["rule"] >= 40, "X07: too few rule classes: %s" % rep.notes["events_by_kind"])
    require(rep.notes["behaviours"].get("examples", 0) >= (10 if quick else 50), "X07: too few example files loaded: %s" % rep.notes["behaviours"])
    require(fin_t >= (100 if quick else 1000) and nested >= (50 if quick else 500), "X07: too few finished goals / nested goals: %d / %d" % (fin_t, nested))
    require(rep.notes["events_by_kind"]["unobs"] * 20 <= len(allev), "X07: too many unobservable states: %s" % rep.notes["events_by_kind"])
    require(rep.notes["server_style_operations"] >= (500 if quick else 5000), "X07: too few server-style operations")


def replay(path):
    obj = json.load(open(path))
    if obj.get("kind") != "event":
        print(json.dumps(obj, indent=1)[:3000])
        return 1
    e = obj["event"]
    print("event", e.get("key"), "clause", obj["clause"])
    wd = work_dir("X07", "replay_%d" % os.getpid(), clean=True)
    for d in wd.parent.glob("replay_*"):
        pid = d.name[7:]
        if d != wd and pid.isdigit() and not os.path.exists("/proc/" + pid):
            shutil.rmtree(d, ignore_errors=True)
    write_events(wd / "in.ndjson", [e])
    run_driver("x07", ["event", wd / "in.ndjson", wd / "out.ndjson"], timeout=3600)
    evs = [x for x in read_events(wd / "out.ndjson") if x["kind"] == e["kind"]]
    if not evs:
        print("the recorded session could not be performed again; re-validating the recorded event")
        evs = [e]
    for k, x in enumerate(evs):
        x["tid"] = k + 1
    write_events(wd / "ev.ndjson", evs)
    v = validate_trace("X07_Trace", wd / "ev.ndjson", wd=wd / "tv", nchunks=1)
    print("fails:", v["fails"])
    if e["kind"] == "reload" and evs[0].get("bd") != evs[0].get("ad"):
        print("items whose projection changed by the reload:", [i + 1 for i, (a, b) in enumerate(zip(evs[0]["bd"], evs[0]["ad"])) if a != b])
    if any(obj["clause"] in f["fail"] for f in v["fails"]):
        print("VIOLATION property=X07 replay=%s" % path)
        return 1
    return 0
