"""C09 - a successful match really instantiates the pattern to the target.   DESIGN.md section 6/C09

 S  spec/C09_MatchLaws.tla     the contract (Matches up to beta-eta via the reference Subst, Extends, FOPat, brute-force FOMatchable)
                               and the input universe (typed generator + deeper shapes x instantiations x seeds x perturbations)
    spec/C09_Matcher.tla       machine over the input space of first_order_match; invariants = sanity of the oracle
    spec/C09_MatcherEmit.tla   emits the vectors (spec -> code)
 T  spec/C09_MatcherTrace.tla  Matches / Extends / InputUnmodified / Complete evaluated on every call of the real matcher
 ->  harness/drivers/c09.py    replays every vector through first_order_match (two binder-naming routes) and
                               first_order_match_list; seeded random larger inputs with library theorems as patterns
"""
import copy
import json
from concurrent.futures import ThreadPoolExecutor

from harness.core import (MachineryError, model_check, read_events, require, run_driver, run_drivers_parallel, seed,
                          spec_mutant, validate_trace, work_dir, write_events)

TSPEC = "C09_MatcherTrace"
RAND_BASE, SELF_BASE = 10 ** 6, 10 ** 7


def _corrupted(evs):
    """Binding self-test: corrupt one recorded field of real events; returns [(event, expected clause)]."""
    def pick(pred, n=3):
        out = []
        for e in evs:
            if pred(e):
                out.append(copy.deepcopy(e))
                if len(out) >= n:
                    break
        return out
    res = []
    # Matches: the returned instantiation loses its first binding
    for c in pick(lambda e: e["outcome"] == "success" and e["kind"] == "pos" and e["seed"] == "empty" and len(e["inst1"]["sv"]) >= 1):
        c["inst1"]["sv"] = c["inst1"]["sv"][1:]
        res.append((c, "Matches"))
    # Matches: a binding is replaced by the whole target
    for c in pick(lambda e: e["outcome"] == "success" and e["kind"] == "pos" and e["seed"] == "empty" and len(e["inst1"]["sv"]) >= 1
                  and e["ts"][0][0] == "comb" and e["inst1"]["sv"][-1][1] != e["ts"][0]):
        c["inst1"]["sv"][-1][1] = c["ts"][0]
        res.append((c, "Matches"))
    # Extends: a binding given by the caller comes back with another value
    for c in pick(lambda e: e["outcome"] == "success" and e["seed"] in ("full", "sv1") and len(e["inst0"]["sv"]) >= 1):
        k = c["inst0"]["sv"][0][0]
        for b in c["inst1"]["sv"]:
            if b[0] == k:
                b[1] = ["var", "fresh_w", ["tv", "a"]]
        res.append((c, "Extends"))
    # Extends: a type binding given by the caller comes back with another value
    for c in pick(lambda e: e["outcome"] == "success" and e["seed"] in ("full", "ty") and len(e["inst0"]["ty"]) >= 1):
        k = c["inst0"]["ty"][0][0]
        for b in c["inst1"]["ty"]:
            if b[0] == k:
                b[1] = ["tc", "fun", [["tv", "a"], ["tc", "bool", []]]]
        res.append((c, "Extends"))
    # InputUnmodified: the caller's object has gained the new bindings
    for c in pick(lambda e: e["outcome"] == "success" and e["inst1"] != e["inst0"]):
        c["inst0after"] = c["inst1"]
        res.append((c, "InputUnmodified"))
    # Complete: a successful first-order positive is reported as a failure
    for c in pick(lambda e: e["outcome"] == "success" and e["kind"] == "pos" and e["seed"] == "empty" and e["call"] == "single"
                  and _is_fo(e["ps"][0])):
        c["outcome"], c["exc"] = "MatchException", "MatchException"
        c["inst1"] = {"ty": [], "sv": [], "v": [], "an": []}
        res.append((c, "Complete"))
    for n, (c, _) in enumerate(res):
        c["tid"] = SELF_BASE + n
    return res


def _is_fo(j):
    if j[0] == "comb":
        return j[1][0] not in ("svar", "abs") and _is_fo(j[1]) and _is_fo(j[2])
    if j[0] == "abs":
        return _is_fo(j[2])
    return True


def run(rep, tier):
    quick = tier == "quick"
    wd = work_dir("C09", "run", clean=True)
    sfx = "small" if quick else "deep"
    rep.rule = ("TLC enumerates the input space of first_order_match: every well-typed pattern with schematic variables of depth <= %d "
                "(size-capped) over a signature with first-order, predicate/function and polymorphic schematic variables, ~35 deeper "
                "shapes (Miller patterns under 1-2 binders, nested binders with the same body at two depths, repeated variables, polymorphic, "
                "non-pattern applications, redexes) and all mixed-argument applications (a schematic head applied to every selection and "
                "order of distinct bound variables of %s enclosing binders and first-order schematic variables, bare and guarded by an earlier "
                "occurrence); for each, every small instantiation gives a positive target (normalised, raw, eta-contracted, eta-expanded, "
                "and as a ground pattern against itself), every one-atom perturbation a negative one, plus unrelated terms of all types; "
                "given instantiations empty / partial / argument variables only / full / foreign / inconsistent. Each vector is replayed "
                "with clashing and with distinct binder names, with targets built with maximal sharing of equal sub-term objects, and "
                "through first_order_match_list; plus seeded random larger inputs (library theorems as patterns). Non-trivial = the call "
                "succeeded and Matches/Extends were evaluated, or it failed on a first-order pattern and the brute-force completeness "
                "oracle was evaluated; distinct by full event content." % (2 if quick else 3, "2" if quick else "2-3"))
    rep.assumptions = ["beta-eta equality decided by comparing beta-eta normal forms of well-typed nameless terms (reference algebra lib/HolTerms.tla, "
                       "itself checked against finite-model semantics by C03)",
                       "completeness claimed only for first-order beta-normal patterns and LITERAL instances (the weakest reading of the property)",
                       "TLC/SANY, structural codec harness/codec.py, CPython"]
    vec = wd / "vectors.ndjson"
    # ---- design level: the oracle is sane on the whole input space; vectors emitted; oracle non-vacuity (specification mutants on a
    #      tiny universe).  Independent JVMs side by side.
    mutants = [("matches_without_eta", [("C09_MatchLaws.tla", "Norm(t) == EtaNorm(BetaNorm(t))", "Norm(t) == BetaNorm(t)")], ["GenMatches"])]
    if not quick:
        mutants += [
            ("fopat_accepts_schematic_heads",
             [("C09_MatchLaws.tla", "p[2][1] # \"svar\" /\\ FOPat(p[2]) /\\ FOPat(p[3])", "FOPat(p[2]) /\\ FOPat(p[3])")], ["PosFOMatch", "WitnessUnique"]),
            ("matches_ignores_type_instantiation",
             [("C09_MatchLaws.tla", "Matches(p, t, inst) == LET s == Subst(p, inst) IN", "Matches(p, t, inst) == LET s == ReplSV(p, inst.sv) IN")],
             ["GenMatches", "WitnessesMatch"]),
            ("subst_skips_binders",
             [("lib/HolTerms.tla", "[] t[1] = \"abs\" -> <<\"abs\", t[2], ReplSV(t[3], sv)>>", "[] t[1] = \"abs\" -> t")],
             ["NoSVarLeft", "GenMatches", "PosFOMatch"]),
            ("positional_candidates_stop_at_binders",
             [("C09_MatchLaws.tla", "[] p[1] = \"abs\" -> IF t[1] = \"abs\" THEN PosCands(p[3], t[3], v) ELSE {}", "[] p[1] = \"abs\" -> {}")],
             ["UniverseAdequate", "PosFOMatch"])]
    with ThreadPoolExecutor(max_workers=3) as ex:
        f1 = ex.submit(model_check, "C09_Matcher", "C09_Matcher_%s.cfg" % sfx, wd=wd / "mc", workers=2 if quick else 4, timeout=7200)
        f2 = ex.submit(model_check, "C09_MatcherEmit", "C09_MatcherEmit_%s.cfg" % sfx, wd=wd / "emit", workers=1,
                       env={"VECTOR_FILE": vec}, timeout=7200)
        f3 = ex.submit(lambda: [spec_mutant(rep, n, "C09_Matcher", "C09_Matcher_tiny.cfg", ed, exp, wd=wd, workers=1) for n, ed, exp in mutants])
        r, r2 = f1.result(), f2.result()
        f3.result()
    rep.add_mc("C09_Matcher", r, sfx)
    if r.violated:
        rep.design_violation("C09_Matcher", r)
        return
    rep.exhaustive = True
    require(vec.exists(), "C09_MatcherEmit wrote no vectors")
    rep.notes["vectors"] = sum(1 for _ in open(vec))
    if '<< "vectors"' in r2.out:
        rep.notes["universe"] = " ".join(r2.out[r2.out.find('<< "vectors"'):].split(">>")[0].replace("<<", "").split())
    # ---- spec -> code -> spec: one validation run over replayed vectors + random inputs + corrupted copies (self-test)
    ev1, ev2, allp = wd / "replay.ndjson", wd / "rand.ndjson", wd / "all.ndjson"
    run_drivers_parallel([("c09", ["replay", vec, ev1], None), ("c09", ["rand", ev2, 1500 if quick else 40000, seed()], None)])
    evs, evs2 = read_events(ev1), read_events(ev2)
    require(len(evs) < RAND_BASE and len(evs2) < SELF_BASE - RAND_BASE, "C09: tid ranges overlap")
    for e in evs2:
        e["tid"] += RAND_BASE
    bad = _corrupted(evs)
    require(len({c for _, c in bad}) == 4 and len(bad) >= 12, "C09: self-test events could not be built")
    write_events(allp, evs + evs2 + [c for c, _ in bad])
    v = validate_trace(TSPEC, allp, wd=wd / "tv", nchunks=3 if quick else 16)

    def part(lo, hi):
        d = {"consumed": 0, "states": 0, "wall": v["wall"], "info": []}
        for k in ("fails",):
            d[k] = [f for f in v[k] if lo <= f["tid"] < hi]
        for k in ("nontrivial", "divergences"):
            d[k] = [t for t in v[k] if lo <= t < hi]
        return d
    v1, v2, v3 = part(0, RAND_BASE), part(RAND_BASE, SELF_BASE), part(SELF_BASE, 10 ** 9)
    v1["consumed"], v2["consumed"], v1["states"] = len(evs), len(evs2), v["states"]
    rep.add_trace_result("replay", evs, v1)
    rep.add_trace_result("rand", evs2, v2)
    # binding self-test: every corrupted event must be rejected with the clause it was built for
    flagged = {f["tid"]: set(f["fail"]) for f in v3["fails"]}
    missed = [(c["tid"], cl) for c, cl in bad if cl not in flagged.get(c["tid"], set())]
    require(not missed, "self-test: %s accepted corrupted events %s" % (TSPEC, missed[:5]))
    rep.notes.setdefault("selftests", []).append({"spec": TSPEC, "corrupted_events": len(bad),
                                                  "all_rejected_with": sorted({cl for _, cl in bad})})
    # ---- counts (Python only counts)
    oc = {}
    for e in evs + evs2:
        k = "%s/%s" % (e["call"], e["outcome"] if e["outcome"] != "other" else "other:" + e["exc"])
        oc[k] = oc.get(k, 0) + 1
    rep.notes["outcomes"] = oc
    tr = rep.notes["traces"]
    require(tr["replay"]["nontrivial"] >= (8000 if quick else 50000), "C09: too few examined replayed calls (vacuity guard)")
    require(tr["rand"]["nontrivial"] >= (500 if quick else 10000), "C09: too few examined random calls (vacuity guard)")
    require(oc.get("single/success", 0) >= 3000 and oc.get("list/success", 0) >= 300 and oc.get("single/MatchException", 0) >= 3000,
            "C09: outcomes not spread over success and failure (vacuity guard)")


def replay(path):
    obj = json.load(open(path))
    wd = work_dir("C09", "replay1", clean=True)
    if obj.get("kind") != "event":
        print(json.dumps(obj, indent=1)[:3000])
        return 1
    e = obj["event"]
    write_events(wd / "in.ndjson", [e])
    run_driver("c09", ["event", wd / "in.ndjson", wd / "ev.ndjson"])
    v = validate_trace(TSPEC, wd / "ev.ndjson", wd=wd / "tv", nchunks=1)
    out = read_events(wd / "ev.ndjson")[0]
    print("outcome:", out["outcome"], out["exc"], " returned:", json.dumps(out["inst1"])[:600])
    print("events:", v["consumed"], "fails:", v["fails"][:10])
    if v["fails"]:
        print("VIOLATION property=C09 replay=%s" % path)
        return 1
    print("not reproduced on the current tree")
    return 0
