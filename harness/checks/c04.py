"""C04 - every proof macro's expansion checks and proves what its evaluation claims.   DESIGN.md section 6/C04

 S  spec/C04_Macro.tla        the checker's two treatments of a macro step (trusted evaluation / checked expansion) over a small
                              universe of sequents and trust levels; TLC: under the contract MacroSound both treatments agree
 ->  harness/drivers/c04.py   macro invocations harvested from the final proofs of replayed library theorems (and recursively from
                              their expansions), mutations of them, seeded fresh propositional instances: eval, expand, and
                              theory.check_proof at the default trust level on [premises as gaps; the step]
 T  spec/C04_MacroTrace.tla   ExpansionChecks, SameConclusion, NoExtraHyps, NoNewGaps (+ three clauses on the exported numbering) on every
                              invocation whose expansion is produced; `autohist` = histories of `auto` invocations in one process
                              (with side conditions, then without, then with; and the opposite order) over the rule tables of the code
"""
import copy
import json
import random
from collections import Counter

from harness.core import (model_check, read_events, require, run_driver, seed, selftest_trace, spec_mutant, validate_trace, work_dir)

QUICK = ["logic_base", "nat", "set", "real"]
ALL = ["logic_base", "logic", "nat", "function", "set", "list", "int", "rat", "real", "expr", "hoare", "interval_arith", "realintegral"]


def run(rep, tier):
    quick = tier == "quick"
    wd = work_dir("C04", clean=True)
    rep.rule = ("(a) veriT rule macros on all candidate steps of C18_Alethe, (b) arithmetic macros with an expansion on the C05 goal universe at "
                "every numeric type, (c) macro invocations (macro, arguments, premise sequents) harvested from the final proofs of seeded library theorems and, "
                "recursively, from the expansions; mutations (premise dropped/duplicated/permuted/shortened, goal conjunct/disjunct/negated/"
                "swapped, one premise at a time given a hypothesis of its own); histories of `auto` invocations in one process over the code's own normalisation rule tables (rule instance with its side conditions as premises / without / with again, and the opposite order); seeded fresh instances of imp_conj / imp_disj / trivial. Non-trivial = eval reports a sequent and the expansion is "
                "produced (the property's precondition); distinct by (macro, arguments, premises).")
    rep.assumptions = ["z3 steps are not re-run (check_z3 = False), as in the repository's monitor", "sequents are compared through interned structural encodings",
                       "macros without a detailed expansion (NotImplementedError) are outside the property; soundness of veriT rules is C18, here only eval vs expansion"]
    r = model_check("C04_Macro", "C04_Macro.cfg", wd=wd / "mc", workers=4)
    rep.add_mc("C04_Macro", r, "Props=1..3, Levels={0,1,10}")
    if r.violated:
        rep.design_violation("C04_Macro", r)
        return
    rep.exhaustive = True
    spec_mutant(rep, "no_contract", "C04_Macro", "C04_Macro.cfg",
                [("C04_Macro.cfg", "INVARIANT Agreement", "INVARIANT ContractNeeded")], ["ContractNeeded"], wd=wd, workers=4)
    theories = QUICK if quick else ALL
    evp = wd / "macros.ndjson"
    run_driver("c04", ["harvest", evp, seed(), 12 if quick else 150, ",".join(theories)], timeout=7200)
    evs = read_events(evp)
    v = validate_trace("C04_MacroTrace", evp, wd=wd / "tv", nchunks=1 if quick else 3)
    rep.add_trace_result("macros", evs, v, sample_n=3)
    # the veriT rule macros on the candidate steps of spec/C18_Alethe.tla, and the arithmetic macros that have an expansion on the
    # goal universe of spec/C05_Arith.tla (also at types the macro is not meant for)
    from harness.core import tlc, write_events
    vvec = wd / "verit_vectors.ndjson"
    rv = tlc("C18_Alethe", "C18_Alethe_small.cfg", wd=wd / "mc", workers=1, env={"VECTOR_FILE": vvec, "PROOF_FILE": wd / "verit_proofs.ndjson"}, timeout=3600)
    require(rv.rc == 0 and vvec.exists(), "C04: C18_Alethe did not emit vectors: %s" % rv.error)
    avec = wd / "arith_vectors.ndjson"
    ra = tlc("C05_Arith", "C05_Arith_tiny.cfg" if quick else "C05_Arith_small.cfg", wd=wd / "mc", workers=1, env={"VECTOR_FILE": avec}, timeout=3600)
    require(ra.rc == 0 and avec.exists(), "C04: C05_Arith did not emit vectors: %s" % ra.error)
    ev2, ev3, ev4 = wd / "verit.ndjson", wd / "arith.ndjson", wd / "autohist.ndjson"
    run_driver("c04", ["verit", vvec, ev2, 2500 if quick else 0], timeout=7200)
    run_driver("c04", ["arith", avec, ev3, 1200 if quick else 0], timeout=7200)
    run_driver("c04", ["autohist", ev4, seed(), 40 if quick else 0], timeout=7200)
    more = []
    for nm, pth in (("verit", ev2), ("arith", ev3), ("autohist", ev4)):
        es = read_events(pth)
        vv = validate_trace("C04_MacroTrace", pth, wd=wd / ("tv_" + nm), nchunks=1)
        rep.add_trace_result(nm, es, vv, sample_n=1)
        more += es
    evs = evs + more
    per = Counter(e["macro"] for e in evs if e["eval"][0] and e["expand"][0])
    rep.notes["judged_invocations_per_macro"] = dict(per)
    rep.notes["eval_accepts_but_no_expansion"] = dict(Counter(e["macro"] for e in evs if e["eval"][0] and not e["expand"][0]))
    bad = []
    for e in evs:
        if e["eval"][0] and e["expand"][0] and e["check"][0] and len(bad) < 2:
            c = copy.deepcopy(e)
            c["check"][2] = c["check"][2] + 100000
            c["tid"] = 10 ** 6 + len(bad)
            bad.append(c)
    selftest_trace(rep, "C04_MacroTrace", bad, "SameConclusion", wd=wd)
    require(len(per) >= (10 if quick else 18) and sum(per.values()) >= (300 if quick else 5000),
            "C04: too few judged invocations: %s" % dict(per))


def replay(path):
    from harness.core import write_events
    obj = json.load(open(path))
    if obj.get("kind") != "event":
        print(json.dumps(obj, indent=1)[:3000])
        return 1
    e = obj["event"]
    print("event", e.get("key"), e.get("origin"), "clause", obj["clause"], e.get("check_exc"))
    wd = work_dir("C04", "replay1", clean=True)
    write_events(wd / "ev.ndjson", [e])
    v = validate_trace("C04_MacroTrace", wd / "ev.ndjson", wd=wd / "tv", nchunks=1)
    print("fails:", v["fails"], "(`./check C04 quick` re-runs the invocations against the current tree)")
    if v["fails"]:
        print("VIOLATION property=C04 replay=%s" % path)
        return 1
    return 0
