"""C14 - every suggested proof step is applicable and does what the suggestion says.   DESIGN.md section 6/C14

 S  spec/C14_Suggest.tla        the search/apply contract on an abstract proof state (gaps, facts); TLC explores all states and
                                suggestions over a small proposition universe; invariants = the contract clauses
 ->  harness/drivers/c13.py     (mode suggest) at every prefix state of seeded library proofs: search_method on the recorded goal/facts
                                and on seeded other goals/facts; every suggestion applied on a copy with the parameters it fixes
                                (open declared parameters are taken from the recorded step when it is the same suggestion, else
                                generated: fresh names, a visible variable; names that introduction asks for are then supplied);
                                the same at GENERATED states: along generated editing sessions (facts with a typed beta-redex,
                                closed arithmetic goals at nat, introduction of an already derived antecedent, nested existentials,
                                ...) and search-driven walks from their ends
 T  spec/C14_SuggestTrace.tla   NeverFailsOutright, GoalsAdvertised, SolvesLeavesNone, ClosedOnesAreProved, StepChecks, FactAppears, CopyIsolated
"""
import copy
import json
import random

from harness.core import (model_check, read_events, require, run_driver, seed, selftest_trace, spec_mutant, validate_trace, work_dir)

QUICK_THEORIES = ["logic", "set", "function"]   # see harness/checks/c13.py; function: the function-valued rewrite rules (beta-redexes after rewriting)
MORE = ["nat", "list", "int", "real", "expr", "hoare"]


def run(rep, tier):
    quick = tier == "quick"
    wd = work_dir("C14", clean=True)
    rnd = random.Random(seed())
    rep.rule = ("TLC: all abstract states/suggestions over 4 propositions. Real code: every suggestion returned by search_method at "
                "prefix states of seeded library proofs (recorded goal/facts and seeded other selections), applied on a copy. "
                "Non-trivial = a suggestion that was applied (success / query / fail); distinct by (state, goal, method, parameters).")
    rep.assumptions = ["suggestions whose declared parameters are left open and can neither be taken from the recorded step nor generated are not applied (not judged)",
                       "z3 is switched off (check_z3 = False) as in the repository's monitor", "at most 10 suggestions per query are applied"]
    r = model_check("C14_Suggest", "C14_Suggest.cfg", wd=wd / "mc", workers=4)
    rep.add_mc("C14_Suggest", r, "Props=1..4, Trivial={4}")
    if r.violated:
        rep.design_violation("C14_Suggest", r)
        return
    rep.exhaustive = True
    spec_mutant(rep, "apply_leaves_unadvertised_goal", "C14_Suggest", "C14_Suggest.cfg",
                [("C14_Suggest.tla", "/\\ gaps' = (gaps \\ {sug.goal}) \\cup left", "/\\ gaps' = (gaps \\ {sug.goal}) \\cup left \\cup {sug.goal}")],
                ["GoalsAdvertised", "SolvesLeavesNone"], wd=wd, workers=4)
    theories = list(QUICK_THEORIES)
    if quick:
        theories.append(rnd.choice(MORE[:4]))
        n_per, nsess = 10, 72
    else:
        theories += MORE
        n_per, nsess = 80, 900
    evp = wd / "suggest.ndjson"
    run_driver("c13", ["suggest", evp, seed(), n_per, ",".join(theories), nsess], timeout=7200)
    evs = read_events(evp)
    v = validate_trace("C14_SuggestTrace", evp, wd=wd / "tv", nchunks=1 if quick else 3)
    rep.add_trace_result("suggest", evs, v, sample_n=2)
    rep.notes["theories"] = theories
    from collections import Counter
    rep.notes["outcomes"] = {"%s/%s" % k: n for k, n in Counter((e.get("method"), e.get("outcome")) for e in evs if e["kind"] == "suggest").items()}
    bad = []
    for e in evs:
        if e["kind"] == "suggest" and e["outcome"] == "success" and e["has_goal"] and e["adv_goal"] and e["new_gaps"] and len(bad) < 2:
            c = copy.deepcopy(e)
            c["adv_goal"] = [g for g in c["adv_goal"] if g not in c["new_gaps"]]
            c["tid"] = 10 ** 6 + len(bad)
            bad.append(c)
    selftest_trace(rep, "C14_SuggestTrace", bad, "GoalsAdvertised", wd=wd)
    # generated states (sessions of harness/drivers/c13.py): what was really exercised there (counts only)
    gen = [e for e in evs if e["kind"] == "suggest" and e["thm"].startswith("gen.")]
    applied = [e for e in gen if e["outcome"] in ("success", "query", "fail")]

    def cnt(pred):
        return sum(1 for e in applied if pred(e))
    g = {"suggestions": len(gen), "applied": len(applied),
         "by_family": dict(Counter(e["thm"][4:].rsplit("_", 1)[0] for e in applied)),
         "parameters_generated": dict(Counter(e["method"] for e in applied if e.get("supplied_from") in ("generated", "asked-then-generated"))),
         "forward_fact_on_redex_states": cnt(lambda e: e["thm"].startswith("gen.redex_fact") and e["has_fact"] and e["outcome"] == "success"),
         # a suggestion that closes a closed arithmetic goal (nat_norm and the like advertise no `_goal` entry at all)
         "closed_arith_solving": cnt(lambda e: e["thm"].startswith("gen.closed_arith") and e["outcome"] == "success" and not e["adv_goal"] and not e["new_gaps"]),
         "introduction_on_known_antecedent": cnt(lambda e: e["thm"].startswith("gen.intro_known") and e["method"] == "introduction"),
         "exists_elim_applied": cnt(lambda e: e["method"] == "exists_elim"),
         "naming_a_shadowing_variable": cnt(lambda e: e["thm"].startswith("gen.shadow") and e["step"] >= 1
                                            and e["method"] in ("induction", "forall_elim", "inst_exists_goal", "new_var")),
         "step_checked": cnt(lambda e: e["outcome"] == "success" and e.get("recheck_before"))}
    rep.notes["generated_states"] = g
    for k, lo in (("forward_fact_on_redex_states", 3), ("closed_arith_solving", 1), ("introduction_on_known_antecedent", 3), ("exists_elim_applied", 8), ("naming_a_shadowing_variable", 3),
                  ("step_checked", 100)):
        require(g[k] >= (lo if quick else 10 * lo), "C14: generated states hardly exercise %s: %s" % (k, g))
    require(rep.notes["traces"]["suggest"]["nontrivial"] >= (150 if quick else 3000), "C14: too few applied suggestions")


def replay(path):
    from harness.core import write_events
    obj = json.load(open(path))
    if obj.get("kind") != "event":
        print(json.dumps(obj, indent=1)[:3000])
        return 1
    e = obj["event"]
    print("event", e.get("key"), "clause", obj["clause"], "exc:", e.get("exc"))
    wd = work_dir("C14", "replay1", clean=True)
    write_events(wd / "ev.ndjson", [e])
    v = validate_trace("C14_SuggestTrace", wd / "ev.ndjson", wd=wd / "tv", nchunks=1)
    print("fails:", v["fails"], "(`./check C14 quick` re-executes the suggestions against the current tree)")
    if v["fails"]:
        print("VIOLATION property=C14 replay=%s" % path)
        return 1
    return 0
