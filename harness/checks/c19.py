"""C19 - every integration-calculator step preserves the value of the expression.   DESIGN.md section 6/C19

RESTRICTED CLAIM: TLA+/TLC has integers and finite sets only, so only the EXACTLY EVALUABLE FRAGMENT is judged by value
(rational constants, variables, + - * /, integer powers, definite integrals / indefinite integrals of syntactic polynomials,
derivatives of rational expressions, finite sums, EvalAt, abs), plus the STRUCTURAL clauses on all expression forms.

 S  spec/C19_Rules.tla       reference rules on the polynomial fragment (coefficient sequences over lib/Rat)
    spec/C19_Ctx.tla         the context machine: HISTORIES of rule applications that share one parent-less context (all orders), and
                             scratch IDENTITIES with 2-3 side conditions under every set of stated conditions; invariants
                             StepsSameValue, FactsUnchanged; every behaviour is emitted as a vector
    spec/C19_Calc.tla        the calculation machine of compstate.Calculation (start, steps) with REFERENCE rules on the polynomial
                             fragment (coefficient sequences over lib/Rat); invariants SameValueInv / SameValueOp (every step has
                             the value of the start expression), TwoEvaluators (symbolic vs pointwise evaluation), SimplifyIdempotent;
                             every transition is emitted as a vector (expression, rule, parameters)
    spec/C19_Eval.tla        the exact pointwise semantics: Ev (value + forward-mode derivative), integrals by Newton interpolation
                             of the sampled integrand, SameValue on a grid under the recorded conditions, Canon (numerals)
 ->  harness/drivers/c19.py  replays every vector through the real Rule.eval; seeded random larger inputs (parameters, rational
                             functions, nested binders, all rules with parameters) and all expression forms; re-executes every
                             recorded step of integral/examples/*.json
 T  spec/C19_CalcTrace.tla   SameValue / DerivCorrect, NormalizeIdempotent, NormalizePreservesValue, PrintParseIdentity per event
"""
import copy
import json
from concurrent.futures import ThreadPoolExecutor

from harness.core import (model_check, read_events, require, run_driver, seed, spec_mutant, validate_trace, work_dir,
                          write_events)

TSPEC = "C19_CalcTrace"
RAND_BASE, EX_BASE, SELF_BASE = 10 ** 6, 2 * 10 ** 6, 10 ** 7
NORM_CLASS = "normalize:one-pass-is-not-a-fixed-point"
NORM_CLASS2 = "normalize:second-pass-is-not-a-fixed-point-either"

MUTANTS = [
    # the reference substitution forgets the factor 1 / a of du = a dx
    ("substitution_without_jacobian",
     [("C19_Rules.tla", "g == PScale(ia, PComp(ToPoly(e[5], e[2]), ia, QNeg(QMul(b, ia)))) IN",
       "g == PComp(ToPoly(e[5], e[2]), ia, QNeg(QMul(b, ia))) IN")], ["SameValueInv", "SameValueOp"]),
    # the power rule divides by n instead of n + 1
    ("power_rule_off_by_one",
     [("C19_Rules.tla", "IF i = 1 THEN Z ELSE QDiv(p[i - 1], RInt(i - 1))]", "IF i = 1 THEN Z ELSE QDiv(p[i - 1], RInt(i))]")],
     ["SameValueInv", "SameValueOp", "TwoEvaluators"]),
    # integration by parts with the wrong sign
    ("parts_wrong_sign",
     [("C19_Rules.tla", "Sub(EvalAt(e[2], e[3], e[4], FromPoly(PMul(u, v), e[2])), IntE(",
       "Add(EvalAt(e[2], e[3], e[4], FromPoly(PMul(u, v), e[2])), IntE(")], ["SameValueInv", "SameValueOp"]),
    # the pointwise evaluator integrates with the antiderivative's constant factor 1 / i dropped
    ("evaluator_antiderivative",
     [("C19_Eval.tla", "AntiAt(c, t) == QMul(t, PolyAt([i \\in 1..Len(c) |-> QDiv(c[i], RInt(i))] \\o <<>>, t))",
       "AntiAt(c, t) == QMul(t, PolyAt(c, t))")], ["SameValueInv", "TwoEvaluators"]),
    # product rule of the forward-mode derivative without the second summand
    ("evaluator_product_rule",
     [("C19_Eval.tla", "MkD(dx, QMul(a.v, b.v), QAdd(QMul(a.d, b.v), QMul(a.v, b.d)))",
       "MkD(dx, QMul(a.v, b.v), QMul(a.d, b.v))")], ["SameValueInv", "TwoEvaluators"]),
]


CTX_MUTANTS = [
    # an identity is applied as soon as its LAST side condition is established
    ("identity_last_condition_only",
     [("C19_Ctx.tla", "AllEst(cs, f) == \\A i \\in 1..Len(cs) : Est(cs[i], f)", "AllEst(cs, f) == \\A i \\in {Len(cs)} : Est(cs[i], f)")],
     ["StepsSameValue"]),
    # the monotonicity test of Substitution writes its interval into the shared context
    ("rule_writes_shared_context", [("C19_Ctx.tla", "Leak == FALSE", "Leak == TRUE")], ["FactsUnchanged"]),
]


def _wrap_plus_one(j):
    return ["op", "+", j, ["const", 1, 1]]


def _corrupted(evs):
    """Binding self-test: one recorded field of real events is changed; returns [(event, expected clause)]."""
    res = []

    def pick(pred, n):
        out = []
        for e in evs:
            if pred(e):
                out.append(copy.deepcopy(e))
                if len(out) >= n:
                    break
        return out
    closed = lambda j: '"var"' not in json.dumps(j)
    # SameValue: the recorded result is replaced by result + 1
    for c in pick(lambda e: e["kind"] == "rule" and e["outcome"] == "ok" and e["rule"] in ("Linearity", "SplitRegion", "Substitution")
                  and e["src"] == "tlc", 4):
        c["r"] = _wrap_plus_one(c["r"])
        c["rp"] = _wrap_plus_one(c["rp"])
        res.append((c, "SameValue"))
    # DerivCorrect: the derivative is replaced by derivative + 1
    for c in pick(lambda e: e["kind"] == "rule" and e["outcome"] == "ok" and e["rule"] == "DerivativeSimplify" and e["e"][0] == "deriv", 2):
        c["r"] = _wrap_plus_one(c["r"])
        c["rp"] = _wrap_plus_one(c["rp"])
        res.append((c, "DerivCorrect"))
    # PrintParseIdentity: the re-parsed result loses its last argument / the parse is reported as failed
    for c in pick(lambda e: e["kind"] == "rule" and e["outcome"] == "ok" and e["rpo"] == "ok" and e["rp"][0] == "op", 2):
        c["rp"] = c["rp"][2]
        res.append((c, "PrintParseIdentity"))
    for c in pick(lambda e: e["kind"] == "pp" and e["rpo"] == "ok" and e["e"][0] in ("int", "op", "fun"), 2):
        c["rpo"], c["rp"] = "exc:UnexpectedToken", ["none"]
        res.append((c, "PrintParseIdentity"))
    # NormalizeIdempotent: the second normal form differs from the first
    for c in pick(lambda e: e["kind"] == "norm" and e["outcome"] == "ok" and e["n1"] == e["n2"], 2):
        c["n2"] = _wrap_plus_one(c["n2"])
        c["n3"] = c["n2"]
        res.append((c, "NormalizeIdempotent"))
    # NormalizePreservesValue: the normal form is replaced by normal form + 1
    for c in pick(lambda e: e["kind"] == "norm" and e["outcome"] == "ok" and e["src"] == "tlc" and e["n1"] == e["n2"], 2):
        c["n1"] = _wrap_plus_one(c["n1"])
        c["n2"] = c["n3"] = c["n1"]
        res.append((c, "NormalizePreservesValue"))
    for n, (c, _) in enumerate(res):
        c["tid"] = SELF_BASE + n
    return res


def run(rep, tier):
    quick = tier == "quick"
    wd = work_dir("C19", "run", clean=True)
    cfg = "C19_Calc_small.cfg" if quick else "C19_Calc_deep.cfg"
    cfgx = "C19_Ctx_small.cfg" if quick else "C19_Ctx_deep.cfg"
    rep.rule = ("TLC explores the calculation machine (start expression, up to 3 steps) over every integrand of degree <= %s with "
                "coefficients in {-1,1,2} in expanded / factored / power / scaled shapes, %s integer bound pairs (both orders), as "
                "definite integrals, derivatives and finite sums, with the reference rules Linearity, power rule, EvalAt, ExpandPolynomial, "
                "Simplify, linear Substitution (%s slopes/offsets), IntegrationByParts, SplitRegion, DerivativeSimplify, SummationSimplify, and limits at "
                "infinity of rational functions (sums / differences of decaying terms, their reciprocals and powers, quotients of polynomials) "
                "with ReduceLimit; the context machine explores every history of up to %d rule applications on different integrals in one shared "
                "parent-less context and 3 scratch identities with 2-3 side conditions under every instantiation / set of stated sign conditions; "
                "every transition is replayed through the real Rule.eval. Plus %d seeded random calculations (0-2 parameters with conditions, rational "
                "coefficients, rational functions, nested integrals, EvalAt, sums, indefinite integrals; 1-3 chained steps of 20 rules with "
                "generated parameters), about 60 directed side-condition cases, random expressions of all forms for print/parse and normalisation, "
                "seeded random shared-context histories (2-4 steps), scratch identities (6 templates, random instantiations and stated conditions) "
                "and limits of rational functions, and every recorded step of the example files. Non-trivial = the value clause compared both sides at one admissible grid "
                "point at least (rule / norm events) or the structural clause was evaluated (pp / norm events); distinct by event content."
                % (("2", "2", "2", 2, 300) if quick else ("3", "6", "6", 3, 15000)))
    rep.assumptions = [
        "RESTRICTED CLAIM: value preservation is judged only on the exactly evaluable fragment: rational constants, variables, + - * /, "
        "integer powers, abs, definite and indefinite integrals whose integrand is syntactically a polynomial in the integration variable "
        "(degree <= 9; denominators free of it), derivatives (first order) of rational expressions, finite sums with integer bounds, EvalAt; "
        "limits at +oo / -oo of rational functions (extended values finite | +oo | -oo from degrees and leading coefficients, infinite values only "
        "at the top of an expression); trigonometric / exponential / logarithmic / root expressions, improper integrals, limits at finite points "
        "(one- or two-sided), limits of non-rational bodies, series, Skolem functions of the integration variable are recorded and NOT examined "
        "by value (TLA+/TLC has no real arithmetic)",
        "histories: every step is judged by SameValue under the conditions STATED for the history; a rule that changes the conditions held by the "
        "shared context is reported as a divergence only (the property speaks about values)",
        "universally quantified claims are checked at a finite grid of rational points satisfying the recorded conditions (a counter-point is "
        "genuine; agreement on the grid is not a proof); points where either side is undefined, not exactly evaluable or beyond 2^30 are skipped",
        "antiderivatives / Skolem constants: equality up to an additive constant that may depend on every variable but the integration variable",
        "rules that use lemmas, definitions, induction hypotheses, earlier substitutions, or transform equations (ApplyEquation, ExpandDefinition, "
        "FoldDefinition, ApplyInductHyp, ReplaceSubstitution, IntegrateByEquation, *Equation rules) are not judged by value",
        "an EvalAt whose body contains a derivative with respect to the EvalAt variable, and expressions in which a binder re-binds the variable of an enclosing binder, are not examined by value; interval bounds (integral/interval.py) are not examined; print/parse identifies the numerals -3 / neg(3), 3/4 / (3)/(4), -oo / neg(oo)",
        "TLC/SANY, lib/Rat.tla, the structural codec in harness/drivers/c19.py, CPython"]
    vec, vecx = wd / "vectors.ndjson", wd / "ctx_vectors.ndjson"
    ev_rand, ev_ex, ev_rep = wd / "rand.ndjson", wd / "examples.ndjson", wd / "replay.ndjson"
    mutants = MUTANTS[:1] if quick else MUTANTS
    ctx_mutants = [] if quick else CTX_MUTANTS
    cls = {}

    def keyf(e):
        if e.get("kind") == "norm" and cls.get(e["tid"]) == "second-pass-stable":
            return NORM_CLASS
        if e.get("kind") == "norm" and cls.get(e["tid"]) == "second-pass-unstable":
            return NORM_CLASS2
        return e.get("key")

    def part(v, lo, hi, n):
        d = {"consumed": n, "states": 0, "wall": v["wall"], "info": []}
        d["fails"] = [f for f in v["fails"] if lo <= f["tid"] < hi]
        for k in ("nontrivial", "divergences"):
            d[k] = [t for t in v[k] if lo <= t < hi]
        return d

    def code_driven():
        """seeded random inputs and the example files: drivers, then one validation run (while TLC explores C19_Calc)"""
        with ThreadPoolExecutor(max_workers=2) as ex2:
            f1 = ex2.submit(run_driver, "c19", ["rand", ev_rand, 300 if quick else 15000, seed()], timeout=7200)
            f2 = ex2.submit(run_driver, "c19", ["examples", ev_ex], timeout=7200)
            f1.result()
            f2.result()
        evs2, evs3 = read_events(ev_rand), read_events(ev_ex)
        require(len(evs2) < EX_BASE - RAND_BASE and len(evs3) < SELF_BASE - EX_BASE, "C19: tid ranges overlap")
        for e in evs2:
            e["tid"] += RAND_BASE
        for e in evs3:
            e["tid"] += EX_BASE
        write_events(wd / "code_driven.ndjson", evs2 + evs3)
        return evs2, evs3, validate_trace(TSPEC, wd / "code_driven.ndjson", wd=wd / "tv_code", nchunks=1 if quick else 2)

    with ThreadPoolExecutor(max_workers=3) as ex:
        f_mc = ex.submit(model_check, "C19_Calc", cfg, wd=wd / "mc", workers=1, env={"VECTOR_FILE": vec}, timeout=7200)
        f_code = ex.submit(code_driven)
        f_mut = ex.submit(lambda: [spec_mutant(rep, n, "C19_Calc", "C19_Calc_tiny.cfg", ed, exp, wd=wd, workers=1,
                                               env={"VECTOR_FILE": wd / "mutant_vectors.ndjson"}) for n, ed, exp in mutants] +
                                  [spec_mutant(rep, n, "C19_Ctx", "C19_Ctx_tiny.cfg", ed, exp, wd=wd, workers=1,
                                               env={"VECTOR_FILE": wd / "mutant_vectors.ndjson"}) for n, ed, exp in ctx_mutants])
        rx = model_check("C19_Ctx", cfgx, wd=wd / "mcx", workers=1, env={"VECTOR_FILE": vecx}, timeout=7200)
        rep.add_mc("C19_Ctx", rx, cfgx)
        if rx.violated:
            rep.design_violation("C19_Ctx", rx)
            return
        r = f_mc.result()
        rep.add_mc("C19_Calc", r, cfg)
        if r.violated:
            rep.design_violation("C19_Calc", r)
            return
        require(vec.exists() and vecx.exists(), "C19_Calc / C19_Ctx wrote no vectors")
        with open(vec, "a") as f:
            f.write(open(vecx).read())
        rep.exhaustive = True
        rep.notes["vectors"] = sum(1 for _ in open(vec))
        if '<< "vectors"' in r.out:
            rep.notes["universe"] = " ".join(r.out[r.out.find('<< "vectors"'):].split(">>")[0].replace("<<", "").split())
        if '<<"ctx vectors"' in rx.out:
            rep.notes["context_machine"] = rx.out[rx.out.find('<<"ctx vectors"'):].split(">>")[0].replace("<<", "")
        # spec -> code -> spec, with the corrupted copies of the binding self-test in the same run
        run_driver("c19", ["replay", vec, ev_rep], timeout=7200)
        evs1 = read_events(ev_rep)
        require(len(evs1) < RAND_BASE, "C19: tid ranges overlap")
        bad = _corrupted(evs1)
        require(len({c for _, c in bad}) == 5 and len(bad) >= 12, "C19: self-test events could not be built (%d)" % len(bad))
        write_events(wd / "spec_driven.ndjson", evs1 + [c for c, _ in bad])
        va = validate_trace(TSPEC, wd / "spec_driven.ndjson", wd=wd / "tv_spec", nchunks=1 if quick else 3)
        evs2, evs3, vb = f_code.result()
        f_mut.result()
    cls.update({i["tid"]: i["cls"] for i in va["info"] + vb["info"]})
    v1, v4 = part(va, 0, RAND_BASE, len(evs1)), part(va, SELF_BASE, 10 ** 9, len(bad))
    v2, v3 = part(vb, RAND_BASE, EX_BASE, len(evs2)), part(vb, EX_BASE, SELF_BASE, len(evs3))
    v1["states"], v2["states"] = va["states"], vb["states"]
    rep.add_trace_result("replay", evs1, v1, keyf=keyf)
    rep.add_trace_result("rand", evs2, v2, keyf=keyf)
    rep.add_trace_result("examples", evs3, v3, keyf=keyf)
    # binding self-test: every corrupted event must be rejected with the clause it was built for
    flagged = {f["tid"]: set(f["fail"]) for f in v4["fails"]}
    missed = [(c["tid"], cl) for c, cl in bad if cl not in flagged.get(c["tid"], set())]
    require(not missed, "self-test: %s accepted corrupted events %s" % (TSPEC, missed[:5]))
    rep.notes.setdefault("selftests", []).append({"spec": TSPEC, "corrupted_events": len(bad), "all_rejected_with": sorted({cl for _, cl in bad})})
    # ---- counts (Python only counts)
    nt = set(va["nontrivial"]) | set(vb["nontrivial"])
    oc, examined = {}, {}
    for e in evs1 + evs2 + evs3:
        if e["kind"] == "rule":
            k = "%s/%s" % (e["base"], e["outcome"] if e["outcome"] != "exc" else "exc:" + e["exc"])
            oc[k] = oc.get(k, 0) + 1
            if e["tid"] in nt:
                examined[e["base"]] = examined.get(e["base"], 0) + 1
    fams = {}
    for e in evs1 + evs2:
        if e["kind"] == "rule" and e.get("fam") in ("hist", "ident", "lim") or (e["kind"] == "rule" and e["e"][0] == "lim"):
            f = e.get("fam") if e.get("fam") in ("hist", "ident") else "lim"
            d = fams.setdefault(f, {"steps": 0, "examined by value": 0, "changed the shared context (divergence)": 0})
            d["steps"] += 1
            d["examined by value"] += e["tid"] in nt
            d["changed the shared context (divergence)"] += ("cb" in e and "ca" in e and e["cb"] != e["ca"])
    rep.notes["families"] = fams
    rep.notes["rule_outcomes"] = dict(sorted(oc.items()))
    rep.notes["rule_steps_examined_by_value"] = dict(sorted(examined.items()))
    exs = [e for e in evs3 if e["kind"] == "rule"]
    rep.notes["example_steps"] = {"recorded": len(exs), "re-executed without exception": sum(1 for e in exs if e["outcome"] == "ok"),
                                  "examined by value": sum(1 for e in exs if e["tid"] in nt),
                                  "result differs from the stored one (divergence)": len(v3["divergences"])}
    tr = rep.notes["traces"]
    require(tr["replay"]["nontrivial"] >= (5000 if quick else 40000), "C19: too few examined replayed steps (vacuity guard)")
    require(tr["rand"]["nontrivial"] >= (700 if quick else 20000), "C19: too few examined random steps (vacuity guard)")
    require(len(exs) >= 1000 and rep.notes["example_steps"]["examined by value"] >= 15, "C19: example files not replayed (vacuity guard)")
    for f, lo in (("hist", 300), ("ident", 100), ("lim", 200)):
        require(fams.get(f, {}).get("examined by value", 0) >= lo, "C19: family %s examined by value only %d times (vacuity guard)" % (
            f, fams.get(f, {}).get("examined by value", 0)))
    for b in ("Linearity", "DefiniteIntegralIdentity", "Substitution", "IntegrationByParts", "SplitRegion", "ExpandPolynomial",
              "DerivativeSimplify", "FullSimplify", "Simplify"):
        require(examined.get(b, 0) >= 20, "C19: rule %s examined by value only %d times (vacuity guard)" % (b, examined.get(b, 0)))


def replay(path):
    obj = json.load(open(path))
    wd = work_dir("C19", "replay1", clean=True)
    if obj.get("kind") != "event":
        print(json.dumps(obj, indent=1)[:3000])
        return 1
    e = obj["event"]
    write_events(wd / "in.ndjson", [e])
    run_driver("c19", ["event", wd / "in.ndjson", wd / "ev.ndjson"])
    out = read_events(wd / "ev.ndjson")
    require(out, "C19 replay: the event could not be re-executed")
    v = validate_trace(TSPEC, wd / "ev.ndjson", wd=wd / "tv", nchunks=1)
    o = out[0]
    print("event:", o.get("key"), "\n outcome:", o.get("outcome"), o.get("exc", ""), "\n result:", (o.get("printed") or o.get("t1") or "")[:400],
          ("\n second normal form: " + o.get("t2", "")[:400]) if o.get("kind") == "norm" else "")
    print("events:", v["consumed"], "fails:", v["fails"][:10])
    if v["fails"]:
        print("VIOLATION property=C19 replay=%s" % path)
        return 1
    print("not reproduced on the current tree")
    return 0
