"""X01 - theories behave like values under copy and extension; contexts nest like a stack.   extras/X01.md

 S  spec/X01_Theory.tla    kernel Theory objects at the level of the mechanism (six dictionary cells in a heap, __copy__ = copy of every
                           cell, the schematic-variable cache, extension lists run item by item); actions Copy / Ext / Put / Query;
                           TLC explores ALL histories of <= 3 (thorough 4) operations of four small alphabets and emits every behaviour
    spec/X01_Context.tla   the globals theory.thy / context.ctxt under fresh_context blocks (generator frames), set_context, load_theory,
                           load_theory_cache, extension of the global theory, mutation of the current Context; all histories emitted
    spec/X01_Defs.tla      the statement's clauses about ONE step (shared by S and T)
 -> harness/drivers/x01.py every emitted behaviour is replayed into the real code and its last step observed (spec -> code); seeded random
                           longer histories over a wider alphabet, every step observed (code -> spec)
 T  spec/X01_Trace.tla     CopyIsolation, CopyEqualsOriginal, CacheCoherent, InstalledInOrder, PrefixOnRaise, ReaddRefused,
                           RefusalIsTheoryException, DeterminedByExtensions, MacroFollowsLimit; CtxtRestored, ThyRestored,
                           SetContextReplaces, PrevContextUntouched, CachedTheoryUntouched
"""
import copy
import json
import os
import shutil
from concurrent.futures import ThreadPoolExecutor

from harness.core import (MachineryError, REPO, SPEC, model_check, read_events, require, run_driver, seed, spec_mutant, tlc,
                          validate_trace, work_dir, write_events)

THY_CLAUSES = ["CopyIsolation", "CacheCoherent", "InstalledInOrder", "PrefixOnRaise", "ReaddRefused", "DeterminedByExtensions"]
CTX_CLAUSES = ["CtxtRestored", "ThyRestored", "SetContextReplaces", "PrevContextUntouched", "CachedTheoryUntouched"]


def variant_cfg(wd, base, name, changes, invariants=None):
    """a configuration of a mechanism variant: the static cfg `base` with some constants replaced (and only some invariants kept)"""
    s = (SPEC / base).read_text()
    for k, v in changes.items():
        lines = []
        for ln in s.splitlines():
            if ln.strip().startswith(k + " =") or ln.strip().startswith("CONSTANTS " + k + " ="):
                pre = "CONSTANTS " if ln.strip().startswith("CONSTANTS") else " "
                ln = "%s%s = %s" % (pre, k, v)
            lines.append(ln)
        s = "\n".join(lines) + "\n"
    if invariants is not None:
        s = "\n".join(ln for ln in s.splitlines() if not ln.startswith("INVARIANT")) + "\n" + "".join("INVARIANT %s\n" % i for i in invariants)
    p = wd / name
    p.write_text(s)
    return p


def part(v, tids):
    return {"consumed": len(tids), "fails": [f for f in v["fails"] if f["tid"] in tids],
            "nontrivial": [t for t in v["nontrivial"] if t in tids], "divergences": [t for t in v["divergences"] if t in tids],
            "states": 0, "wall": v.get("wall", 0)}


def first_per_key(v, by_tid, n=2):
    """keep the first n failing events per (clause, key): one replay file per finding, not per event"""
    seen, fails, total = {}, [], {}
    for f in sorted(v["fails"], key=lambda f: f["tid"]):
        e = by_tid.get(f["tid"], {})
        keep = []
        for c in f["fail"]:
            k = "%s|%s" % (c, e.get("key"))
            total[k] = total.get(k, 0) + 1
            if seen.get(k, 0) < n:
                seen[k] = seen.get(k, 0) + 1
                keep.append(c)
        if keep:
            fails.append({"tid": f["tid"], "fail": keep})
    w = dict(v)
    w["fails"] = fails
    return w, total


def make_corrupted(thy, ctx):
    """binding self-test: copies of real events with ONE recorded field changed, each paired with the clause that must reject it"""
    bad = []

    def corrupt(pool_, pred, change, clause):
        for e in pool_:
            if pred(e):
                c = copy.deepcopy(e)
                change(c)
                c["tid"] = 9 * 10 ** 7 + len(bad)
                bad.append((c, clause))
                return
        raise MachineryError("X01 self-test: no event to corrupt for clause %s" % clause)

    def chg_other(c):
        c["others"][0][2] = "0" * 12

    def drop_sv(c):
        c["A"]["sv"] = c["A"]["sv"][1:]

    def drop_thm(c):
        c["A"]["th"] = c["A"]["th"][:-1]
        c["A"]["sv"] = c["A"]["sv"][:-1]

    def chg_cc(c):
        c["A"]["cc"] = c["A"]["cc"] + [["vars", "x01_corrupt", ["tc", "bool", []]]]

    def chg_thy(c):
        c["A"]["thy"] = c["A"]["thy"] + 1000

    def chg_held(c):
        c["cheldA"][0][1] = c["cheldA"][0][1] + [["vars", "x01_corrupt", ["tc", "bool", []]]]

    def chg_canon(c):
        c["canon"] = "0" * 12
    ok_ext = lambda e: e["op"]["k"] == "ext" and e["out"] == "ok"
    corrupt(thy, lambda e: e["others"], chg_other, "CopyIsolation")
    corrupt(thy, lambda e: e["op"]["k"] in ("ext", "query") and e["A"]["sv"] and e["A"]["th"] and len(e["A"]["th"][0][1][0]) == 0
            and len(e["A"]["th"]) == len(e["A"]["sv"]) and len(e["B"]["th"]) == len(e["B"]["sv"]), drop_sv, "CacheCoherent")
    corrupt(thy, lambda e: ok_ext(e) and e["key"] == "thy:ext:fresh" and e["op"]["items"][-1][0] == "thm" and e["A"]["th"]
            and e["A"]["th"][-1][0] == e["op"]["items"][-1][1] and len(e["A"]["th"]) == len(e["A"]["sv"]), drop_thm, "InstalledInOrder")
    corrupt(ctx, lambda e: e["op"]["k"] == "exit", chg_cc, "CtxtRestored")
    corrupt(ctx, lambda e: e["op"]["k"] == "exit" and not e["dirty"], chg_thy, "ThyRestored")
    corrupt(ctx, lambda e: e["op"]["k"] == "setctx" and e["out"] == "ok" and e["cheldA"], chg_held, "PrevContextUntouched")
    corrupt(ctx, lambda e: e["op"]["k"] == "load" and e["out"] == "ok" and e["hascanon"], chg_canon, "CachedTheoryUntouched")
    return bad


def sweep(parent):
    """scratch directories of runs whose process is gone (kept after a run with violations) are removed"""
    for d in parent.glob("r*_*"):
        pid = d.name.split("_")[-1]
        if d.is_dir() and pid.isdigit() and not os.path.exists("/proc/%s" % pid):
            shutil.rmtree(d, ignore_errors=True)


def run(rep, tier):
    quick = tier == "quick"
    wd = work_dir("X01", "run_%d" % os.getpid(), clean=True)
    sweep(wd.parent)
    lib = wd / "lib"
    rep.rule = ("TLC: all histories of <= %d operations (copy / unchecked_extend / checked_extend / add_theorem / get_theorem(svar=True)) on <= 2 Theory "
                "objects for four small alphabets (cache, signature, overloading, attributes+proofs), all histories of <= %d operations on the globals "
                "(fresh_context enter / exit normal / exit by exception, set_context, load_theory, load_theory_cache, extension of the global theory, "
                "mutation of the context); every behaviour is replayed into the real code (its last step observed; earlier steps are the last steps of "
                "shorter behaviours). Real code: seeded random histories of %d operations over a wider alphabet, every step observed. Non-trivial = "
                "every step on a Theory object and every exit / set_context / load_theory step; distinct by the full observed state."
                % (3 if quick else 4, 3 if quick else 4, 20 if quick else 30))
    rep.assumptions = ["observation through the public getters only (has_*, get_type_sig, get_term_sig, get_theorem, get_attributes, is_overload_const, "
                       "get_data(..) keys, theory.has_macro); get_theorem(name, svar=True) is asked on a copy.copy of the object",
                       "library: a scratch directory with two generated theories and a copy of logic_base (path helpers of logic/basic.py redirected)",
                       "a theorem item / add_theorem on an existing name REPLACES the theorem (as the kernel always allowed); a type declared again (same or another "
                       "arity) is not judged: a divergence is recorded",
                       "the theory on leaving a fresh_context block is judged only when the body did not itself install a theory "
                       "(load_theory / set_context with a name); otherwise a divergence is recorded"]
    timing = rep.notes.setdefault("timing_s", {})
    pool = ThreadPoolExecutor(max_workers=2)
    try:
        # ---------------- S: model checking (emits the behaviours)
        f_thy = pool.submit(model_check, "X01_Theory", "X01_Theory_small.cfg" if quick else "X01_Theory_deep.cfg", wd=wd / "mc_thy", workers=2, timeout=3000)
        f_ctx = pool.submit(model_check, "X01_Context", "X01_Context_small.cfg" if quick else "X01_Context_deep.cfg", wd=wd / "mc_ctx", workers=2, timeout=3000)
        f_canon = pool.submit(run_driver, "x01", ["ctx-canon", lib, wd / "canon.json"], timeout=600)
        r_thy, r_ctx = f_thy.result(), f_ctx.result()
        f_canon.result()
        rep.add_mc("X01_Theory(fixed mechanism; alphabets cache, sig, over, attr)", r_thy, "MaxOps=%d MaxObjs=2, every behaviour emitted" % (3 if quick else 4))
        rep.add_mc("X01_Context(as coded = reference)", r_ctx, "MaxOps=%d" % (3 if quick else 4))
        for nm, r in (("X01_Theory", r_thy), ("X01_Context", r_ctx)):
            if r.violated:
                rep.design_violation(nm, r)
                return
        timing["tlc_S"] = round(max(r_thy.wall, r_ctx.wall), 1)
        logs_thy, logs_ctx = [r_thy.out], [r_ctx.out]
        more = [("X01_Theory", "X01_Theory_inv.cfg", None, "all operations, 3 objects, invariants only")]
        if not quick:
            more += [("X01_Context", "X01_Context_inv.cfg", None, "MaxOps=5, invariants only"),
                     ("X01_Theory", "X01_Theory_sim.cfg", "num=400", "simulated behaviours of 8 operations, all operations, 3 objects"),
                     ("X01_Context", "X01_Context_sim.cfg", "num=400", "simulated behaviours of 8 operations, depth 3, three theories")]

        def one(job):
            mod, cfg, sim, what = job
            if sim:
                r = tlc(mod, cfg, wd=wd / ("mc_" + cfg[:-4]), simulate=sim, depth=12, seed_=seed() + 1, timeout=3000)
                require(r.rc == 0 or r.violated, "%s simulation failed: %s" % (mod, r.error))
                return r
            return model_check(mod, cfg, wd=wd / ("mc_" + cfg[:-4]), workers=2, timeout=6000)
        for job, r in zip(more, pool.map(one, more)):
            rep.add_mc("%s(%s)" % (job[0], job[3]), r, job[1])
            if r.violated:
                rep.design_violation(job[0], r)
                return
            if job[2]:
                (logs_thy if job[0] == "X01_Theory" else logs_ctx).append(r.out)
        rep.exhaustive = True
        (wd / "thy_vectors.log").write_text("\n".join(logs_thy))
        (wd / "ctx_vectors.log").write_text("\n".join(logs_ctx))
        # ---------------- drivers: spec -> code (vectors) and code -> spec (seeded random histories)
        nh, ln = (60, 20) if quick else (600, 30)
        nhc, lnc = (40, 20) if quick else (400, 30)
        jobs = [("thy-vectors", [wd / "thy_vectors.log", wd / "thy_v.ndjson"]),
                ("ctx-vectors", [wd / "ctx_vectors.log", lib, wd / "canon.json", wd / "ctx_v.ndjson"]),
                ("thy-random", [wd / "thy_r.ndjson", seed(), nh, ln]),
                ("ctx-random", [lib, wd / "canon.json", wd / "ctx_r.ndjson", seed(), nhc, lnc])]
        futs = [pool.submit(run_driver, "x01", [m] + a, timeout=7200) for m, a in jobs]
        # meanwhile: the mechanism as found in the kernel and the mutants, at the level of the specification
        t1_jobs = []
        # the kernel as it was found (add_theorem on an existing name kept the cached schematic form; repaired in the repository)
        asfound = [("as_found:add_theorem keeps the cached schematic form of a replaced theorem", "X01_Theory_asfound.cfg", {}, ["CacheCoherent"], ["CacheCoherent"])]
        mech = [("attributes_appended_in_place", "X01_Theory_cache.cfg", {"CopyMode": '"deep1"', "AttrMode": '"inplace"', "Fams": '{"attr"}', "MaxOps": "3"}, None, ["CopyIsolation"]),
                ("load_theory_hands_out_the_cached_object", "X01_Context_inv.cfg", {"LoadMode": '"shared"', "MaxOps": "3"}, None, ["CachedTheoryUntouched"])]
        if not quick:
            mech += [("copy_shares_the_cache", "X01_Theory_cache.cfg", {"CopyMode": '"sharecache"'}, None, ["CopyIsolation"]),
                     ("copy_shares_every_dictionary", "X01_Theory_cache.cfg", {"CopyMode": '"shared"'}, None, ["CopyIsolation"]),
                     ("exit_installs_an_empty_context", "X01_Context_inv.cfg", {"ExitMode": '"empty"', "MaxOps": "3"}, None, ["CtxtRestored"]),
                     ("set_context_overwrites_in_place", "X01_Context_inv.cfg", {"SetCtxMode": '"inplace"', "MaxOps": "3"}, None, ["PrevContextUntouched", "CtxtRestored"]),
                     ("load_theory_cache_leaks_its_scratch_theory", "X01_Context_inv.cfg", {"CacheLoadMode": '"leak"', "MaxOps": "3"}, None, ["ThyRestored"])]

        def variant(v):
            name, base, changes, invs, expect = v
            cfgp = variant_cfg(wd, base, "var_%s.cfg" % "".join(c if c.isalnum() else "_" for c in name)[:60], changes, invs)
            allof = name.startswith("as_found")
            r = tlc(base.split("_")[0] + "_" + base.split("_")[1], str(cfgp), wd=wd / "mc_var", workers=1, timeout=1200, extra=["-continue"] if allof else ())
            hit = sorted({x for x in r.violated if x in expect})
            require(hit and (not allof or hit == sorted(expect)),
                    "X01: the mechanism variant %s must violate %s of %s (TLC: %s %s)" % (name, "all" if allof else "one", expect, sorted(set(r.violated)), r.error))
            return {"mutant": name, "caught_by": hit}
        vres = list(pool.map(variant, asfound + mech))
        rep.notes["as_found_model"] = vres[:1]
        rep.notes.setdefault("spec_mutants", []).extend(vres[1:])
        spec_mutant(rep, "copy_does_not_copy_the_cache_cell", "X01_Theory", "X01_Theory_cache.cfg",
                    [("X01_Theory.tla", 'sv |-> IF CopyMode = "sharecache" THEN R.sv ELSE n + 5', "sv |-> R.sv")], ["CopyIsolation"], wd=wd, workers=1)
        spec_mutant(rep, "exit_restores_the_outermost_saved_context", "X01_Context", "X01_Context_small.cfg",
                    [("X01_Context.tla", 'CASE ExitMode = "entry" -> f.prev', 'CASE ExitMode = "entry" -> frames[1].prev')], ["CtxtRestored", "FramesAreStack"], wd=wd, workers=1)
        if not quick:
            spec_mutant(rep, "constant_of_an_existing_name_is_accepted", "X01_Theory", "X01_Theory_cache.cfg",
                        [("X01_Theory.tla", 'ELSE (IF IName(it) \\in NamesOf(H.d[R.co]) THEN Raise(H, "TheoryException") ELSE Done(SetD(H, R.co',
                          'ELSE (IF FALSE THEN Raise(H, "TheoryException") ELSE Done(SetD(H, R.co'),
                         ("X01_Theory_cache.cfg", 'Fams = {"cache"}', 'Fams = {"sig"}'), ("X01_Theory_cache.cfg", "MaxOps = 4", "MaxOps = 2")],
                        ["ReaddRefused"], wd=wd, workers=1)
            spec_mutant(rep, "extension_stops_one_item_late", "X01_Theory", "X01_Theory_cache.cfg",
                        [("X01_Theory.tla", 'IN IF r.exc # "" THEN r ELSE RunExt(r.H, R, items, i + 1, checked)',
                          'IN IF r.exc # "" /\\ i = Len(items) THEN r ELSE LET q == RunExt(r.H, R, items, i + 1, checked) IN IF r.exc # "" THEN [q EXCEPT !.exc = r.exc] ELSE q'),
                         ("X01_Theory_cache.cfg", 'Fams = {"cache"}', 'Fams = {"attr"}'), ("X01_Theory_cache.cfg", "MaxOps = 4", "MaxOps = 2")],
                        ["PrefixOnRaise"], wd=wd, workers=1)
        res = [f.result() for f in futs]
        for (m, _), (p, w) in zip(jobs, res):
            timing["driver_" + m] = round(w, 1)
            rep.notes.setdefault("drivers", {})[m] = json.loads(p.stdout.strip().splitlines()[-1])
    finally:
        pool.shutdown(wait=True)
    # ---------------- T: every event judged by TLC (the corrupted events of the binding self-test ride along in the same run)
    fam = {}
    steps = {}
    for nm in ("thy_v", "ctx_v", "thy_r", "ctx_r"):
        fam[nm] = read_events(wd / (nm + ".ndjson"))
        steps[nm] = json.load(open(str(wd / (nm + ".ndjson")) + ".steps.json"))
    thy = [e for e in fam["thy_v"] + fam["thy_r"] if not e.get("lost")]
    ctx = fam["ctx_v"] + fam["ctx_r"]
    bad = make_corrupted(thy, ctx)
    allp = wd / "all.ndjson"
    allev = [e for nm in fam for e in fam[nm]]
    write_events(allp, allev + [c for c, _ in bad])
    v = validate_trace("X01_Trace", allp, wd=wd / "tv", nchunks=1 if quick else 4)
    rep.states += v.get("states", 0)
    timing["trace_validation"] = round(v["wall"], 1)
    got = {f["tid"]: set(f["fail"]) for f in v["fails"]}
    for c, clause in bad:
        require(clause in got.get(c["tid"], set()), "self-test: X01_Trace accepted an event corrupted for clause %s (got %s)" % (
            clause, sorted(got.get(c["tid"], []))))
    rep.notes["selftests"] = [{"spec": "X01_Trace", "corrupted_field_for": clause, "rejected": True} for _, clause in bad]
    totals = {}
    for nm, evs in fam.items():
        by_tid = {e["tid"]: e for e in evs}
        pv, tot = first_per_key(part(v, set(by_tid)), by_tid)
        totals.update({"%s:%s" % (nm, k): n for k, n in tot.items()})
        for f in pv["fails"]:            # the full history goes into the replay file
            e = by_tid[f["tid"]]
            e["steps"] = steps[nm][e["hid"]][:e["step"] + 1]
        rep.add_trace_result(nm, evs, pv, sample_n=1)
    if totals:
        rep.notes["failing_events_by_clause_and_key"] = totals
    rep.samples = [{"trace": s["trace"], "event": {k: x for k, x in s["event"].items() if k in ("kind", "fam", "op", "out", "exc", "key")}}
                   if isinstance(s.get("event"), dict) else s for s in rep.samples]
    # ---------------- what was exercised (counts only)
    cnt = {}
    for e in thy:
        k = e["op"]["k"] + (":raised" if e["out"] != "ok" else "")
        cnt[k] = cnt.get(k, 0) + 1
    for e in ctx:
        k = "ctx." + e["op"]["k"] + (":" + e["op"]["how"] if e["op"]["k"] == "exit" else "") + (":raised" if e["out"] != "ok" else "")
        cnt[k] = cnt.get(k, 0) + 1
    rep.notes["events_by_operation"] = dict(sorted(cnt.items()))
    prefix_raises = sum(1 for e in thy if e["op"]["k"] == "ext" and e["out"] != "ok" and e["A"] != e["B"])
    cached_q = sum(1 for e in thy if e["key"] == "thy:query:cached")
    multi = sum(1 for e in thy if e["others"])
    nested = sum(1 for e in ctx if e["op"]["k"] == "exit" and e["depth"] >= 1)
    dirty = sum(1 for e in ctx if e["op"]["k"] == "exit" and e["dirty"])
    rep.notes["coverage_detail"] = {"extension_raised_after_installing_a_prefix": prefix_raises, "query_of_a_cached_name": cached_q,
                                    "steps_with_other_objects_alive": multi, "exit_of_a_nested_block": nested, "exit_after_body_installed_a_theory": dirty,
                                    "lost_behaviours": sum(1 for e in fam["thy_v"] + fam["thy_r"] if e.get("lost"))}
    # ---------------- vacuity guards
    need = {"copy": 50, "ext": 300, "ext:raised": 100, "put": 30, "query": 50, "ctx.enter": 50, "ctx.exit:normal": 30, "ctx.exit:exc": 30,
            "ctx.setctx": 50, "ctx.load": 30, "ctx.cacheload": 10, "ctx.extglobal": 10, "ctx.mutate": 10}
    for k, n in need.items():
        require(cnt.get(k, 0) >= (n if quick else 5 * n), "X01: operation %s hardly exercised (vacuity guard): %d events" % (k, cnt.get(k, 0)))
    # the keys of the cache are an internal: when they cannot be observed (get_data("theorems_svar") gone) that situation is not counted
    ck_seen = not any(e["B"].get("nock") for e in thy)
    rep.notes["coverage_detail"]["cache_keys_observable"] = ck_seen
    require(prefix_raises >= 20 and (cached_q >= 10 or not ck_seen) and multi >= 200 and nested >= 10 and dirty >= 5,
            "X01: a situation the clauses speak about hardly occurred: %s" % rep.notes["coverage_detail"])
    require(len(v["nontrivial"]) >= (1500 if quick else 20000), "X01: too few events judged: %d" % len(v["nontrivial"]))
    if not rep.violations:
        shutil.rmtree(wd, ignore_errors=True)


def replay(path):
    obj = json.load(open(path))
    if obj.get("kind") != "event":
        print(json.dumps(obj, indent=1)[:3000])
        return 1
    e = obj["event"]
    print("event", e.get("key"), "clause", obj["clause"], "; history:", json.dumps(e.get("steps"))[:1500])
    wd = work_dir("X01", "replay_%d" % os.getpid(), clean=True)
    rc = 0
    if e.get("steps"):
        # re-execute the recorded history against the current tree and judge every step
        json.dump({"kind": e["kind"], "fam": e.get("fam"), "steps": e["steps"]}, open(wd / "ev.json", "w"))
        run_driver("x01", ["ctx-canon", wd / "lib", wd / "canon.json"], timeout=600)
        run_driver("x01", ["replay", wd / "ev.json", wd / "lib", wd / "canon.json", wd / "re.ndjson"], timeout=600)
        evs = read_events(wd / "re.ndjson")
        v = validate_trace("X01_Trace", wd / "re.ndjson", wd=wd / "tv", nchunks=1)
        by = {x["tid"]: x for x in evs}
        for f in v["fails"]:
            print("now: step %d (%s) fails %s" % (by[f["tid"]]["step"], by[f["tid"]]["key"], sorted(f["fail"])))
        if any(obj["clause"] in f["fail"] for f in v["fails"]):
            rc = 1
        else:
            print("the recorded history no longer fails clause %s on this tree" % obj["clause"])
    else:
        write_events(wd / "ev.ndjson", [e])
        v = validate_trace("X01_Trace", wd / "ev.ndjson", wd=wd / "tv", nchunks=1)
        print("recorded event re-validated, fails:", v["fails"])
        rc = 1 if v["fails"] else 0
    if rc:
        print("VIOLATION property=X01 replay=%s" % path)
    shutil.rmtree(wd, ignore_errors=True)
    return rc
