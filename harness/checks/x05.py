"""X05 - the IDE's HTTP API is a faithful, total front end of the proof state and of the library files.   extras/X05.md

 S/I spec/X05_Ide.tla       two users + the master library, two files (t1: lemma la, theorem lb; t2 imports t1: lc), five contents; the
                            state the server keeps between requests (metadata snapshot, ProofCache, global theory) with one switch per
                            mechanism (TRUE = what the statement needs, FALSE = as coded); requests find / load / save / remove / check /
                            init / reinit / initbad / apply / search; clauses Totality, Persistence, SaveExact, RemoveExact, ReadOnly,
                            Faithful, FailedStepKeeps, Isolation (shadow server per user).  TLC: ALL behaviours of <= 4 (thorough 6)
                            requests with every switch TRUE (each step judged by an Assert in the action); one run per switch FALSE
                            (quick: three of them; must violate an invariant, the counterexample is a vector); every mechanism as coded:
                            all behaviours of <= 3 requests up to the first broken clause (discriminating histories); all behaviours of
                            2 requests (thorough: and of 3 that begin by opening a proof) and simulated ones of 6 are EMITTED
 ->  harness/drivers/x05.py replay: every emitted behaviour performed on the real Flask application through app.test_client() on fresh
                            scratch users; multi-user behaviours also once per user alone (solo twins);
                            sessions: seeded sessions on copies of library files (recorded proofs step by step through apply-method, failing
                            steps, searches, jumps, saves, removals, unparsable statements, a second user in between) + their solo twins;
                            oracle: the lower layers called directly in a fresh process on the same files (reference for check-modify /
                            init-saved-proof / apply-method / search-method)
 T   spec/X05_IdeTrace.tla  the model of the directories replayed along every session; per request: Totality, SaveExact, RemoveExact,
                            ReadOnly, Persistence, EditRoundTrip, Faithful, FailedStepKeeps, Isolation (+ the bindings OracleBinding /
                            SoloBinding, which are machinery); divergence = the abstract answer predicted by X05_Ide differs
 Findings are grouped by (clause, request kind, answer class, exception class); the replay file holds the concrete session
 (`./check X05 --replay f` performs it again on the current tree).
"""
import copy
import json
import os
import random
import shutil
import time
from concurrent.futures import ThreadPoolExecutor

from harness.core import (MachineryError, SPEC, model_check, read_events, require, run_driver, seed, spec_mutant, tlc,
                          validate_trace, work_dir, write_events)

SWITCHES = ["SwOrderUser", "SwLoadUser", "SwFreshMeta", "SwTotal", "SwApplyReload", "SwCacheWorld", "SwCreateAtomic", "SwFailKeeps"]
INVARIANTS = ["Totality", "Persistence", "SaveExact", "RemoveExact", "ReadOnly", "Faithful", "FailedStepKeeps", "Isolation"]
OPS = ["find", "load", "save", "remove", "check", "init", "reinit", "initbad", "apply", "search"]
CLAUSES = ["Totality", "SaveExact", "RemoveExact", "ReadOnly", "Persistence", "EditRoundTrip", "Faithful", "FailedStepKeeps", "Isolation"]
SELF_OFFSET = 10 ** 7


def cfg_file(wd, name, base, changes, invariants=True):
    s = (SPEC / base).read_text()
    out = []
    for ln in s.splitlines():
        for k, v in changes.items():
            if ln.strip().startswith(k + " ="):
                ln = "  %s = %s" % (k, v)
        if ln.startswith("INVARIANT") and not invariants:
            continue
        out.append(ln)
    p = wd / name
    p.write_text("\n".join(out) + "\n")
    return p


def printed_vectors(out, fam):
    vecs = []
    for ln in out.splitlines():
        if ln.startswith('<<"X05", '):
            vecs.append({"fam": fam, "steps": json.loads(json.loads(ln.strip()[len('<<"X05", '):-2]))["steps"]})
    return vecs


def dumped_behaviour(path, fam):
    """the counterexample of a TLC run (-dumpTrace json) as a vector: every state carries the last request"""
    try:
        d = json.load(open(path))
    except (OSError, ValueError):
        return None
    steps = []
    for _, st in d["counterexample"]["state"]:
        L = st["last"]
        if L["req"]["op"] == "none":
            continue
        steps.append({"req": L["req"], "steps": L["steps"], "exp": L["ref"], "files": st["files"]})
    return {"fam": fam, "steps": steps} if steps else None


def vec_key(v):
    return json.dumps([[s["req"], s["steps"]] for s in v["steps"]], sort_keys=True)


def keyf(e):
    """findings are grouped by request kind and outcome class; the concrete history is in the replay file (fields key / label)"""
    exc = (e.get("exc") or "").split(":")[0]
    return "%s -> %s%s" % (e.get("op"), e.get("rkind"), " " + exc if exc else "")


def first_per_key(v, by_tid, n=2):
    seen, fails, total = {}, [], {}
    for f in sorted(v["fails"], key=lambda f: f["tid"]):
        e = by_tid.get(f["tid"], {})
        keep = []
        for c in f["fail"]:
            k = "%s|%s" % (c, keyf(e))
            total[k] = total.get(k, 0) + 1
            if seen.get(k, 0) < n:
                seen[k] = seen.get(k, 0) + 1
                keep.append(c)
        if keep:
            fails.append({"tid": f["tid"], "fail": keep})
    w = dict(v)
    w["fails"] = fails
    return w, total


def part(v, tids):
    return {"consumed": len(tids), "fails": [f for f in v["fails"] if f["tid"] in tids],
            "nontrivial": [t for t in v["nontrivial"] if t in tids], "divergences": [t for t in v["divergences"] if t in tids],
            "states": 0, "wall": v.get("wall", 0)}


# --------------------------------------------------------------------------------------------------------------------
# running the real code and joining the references (bookkeeping only: which run answers which question)
# --------------------------------------------------------------------------------------------------------------------
def execute(wd, vector_sets, lib_spec, timing):
    """vector_sets: list of lists of vectors (one driver process each); lib_spec: None or the spec of the seeded sessions.
    Returns the joined events (tids renumbered), and counts."""
    jobs = []
    for i, vecs in enumerate(vector_sets):
        vp = wd / ("vectors_%d.json" % i)
        for n, v in enumerate(vecs):
            v["vid"] = i * 100000 + n
        vp.write_text(json.dumps(vecs))
        jobs.append(("replay", vp, wd / ("replay_%d.ndjson" % i), wd / ("root_replay_%d" % i)))
    if lib_spec:
        sp = wd / "sessions.json"
        sp.write_text(json.dumps(lib_spec))
        jobs.append(("sessions", sp, wd / "sessions.ndjson", wd / "root_sessions"))
    t0 = time.time()
    with ThreadPoolExecutor(max_workers=3) as ex:
        list(ex.map(lambda j: run_driver("x05", [j[0], j[1], j[2], j[3], seed()], timeout=7200), jobs))
    timing["drivers"] = round(time.time() - t0, 1)
    # ---- the reference answers of the lower layers: one fresh process for all questions
    questions, contents = {}, {}
    for j in jobs:
        side = json.load(open(str(j[2]) + ".questions.json"))
        questions.update(side["questions"])
        contents.update(side["contents"])
    qp, op = wd / "questions.json", wd / "oracle.json"
    qp.write_text(json.dumps({"questions": questions, "contents": contents}, ensure_ascii=False))
    t0 = time.time()
    run_driver("x05", ["oracle", qp, op, wd / "root_oracle"], timeout=7200)
    timing["oracle"] = round(time.time() - t0, 1)
    oracle = json.load(open(op))
    # ---- join
    events, tid = [], 0
    for ji, j in enumerate(jobs):
        evs = read_events(j[2])
        sessions, order = {}, []
        for e in evs:
            e["src"] = ji
            if e["kind"] in ("start", "req"):
                if e["sid"] not in sessions:
                    sessions[e["sid"]] = []
                    order.append(e["sid"])
                sessions[e["sid"]].append(e)
        twins = {}
        for sid in order:
            st = sessions[sid][0]
            if st["kind"] == "start" and "solo_of" in st:
                twins[(st["solo_of"], st["solo_user"])] = [x for x in sessions[sid] if x["kind"] == "req"]
        for sid in order:
            count = {}
            for e in sessions[sid]:
                if e["kind"] != "req":
                    continue
                if "q" in e and e["q"] in oracle:
                    o = oracle[e["q"]]
                    e["ref"] = {"world": sorted([f, c] for f, c in questions[e["q"]]["world"].items()), "kind": o["kind"], "adig": o["adig"],
                                "note": o.get("note", "")}
                tw = twins.get((sid, e["u"]))
                if tw is not None:
                    count[e["u"]] = count.get(e["u"], 0) + 1
                    n = count[e["u"]]
                    if n <= len(tw):
                        e["solo"] = {"hist": [x["rq"] for x in tw[:n]], "adig": tw[n - 1]["adig"], "rkind": tw[n - 1]["rkind"]}
        vecs = {("v%d" % v["vid"]): v for v in vector_sets[ji]} if ji < len(vector_sets) else {}
        for e in evs:
            tid += 1
            e["tid"] = tid
            e.pop("q", None)
            if e["kind"] == "req" and e["sid"] in vecs:
                e["vec"] = [{"req": s["req"], "steps": s["steps"]} for s in vecs[e["sid"]]["steps"][:e["k"]]]
            elif e["kind"] == "req" and e["fam"] == "lib":
                e["lib_spec"] = lib_spec
            events.append(e)
    return events, {"questions": len(questions), "oracle_errors": sum(1 for o in oracle.values() if o["kind"] == "err")}


def order_decls_first(events):
    """declarations are read before the sessions that use them (one TLC run over the whole file)"""
    return [e for e in events if e["kind"] == "decl"] + [e for e in events if e["kind"] != "decl"]


def corrupted_sessions(events):
    """binding self-test: copies of real sessions with ONE recorded field changed; returns (events, {tid: expected clause})"""
    by_sid = {}
    for e in events:
        if e["kind"] in ("start", "req"):
            by_sid.setdefault((e["src"], e["sid"]), []).append(e)
    out, expect = [], {}
    nid = [SELF_OFFSET]

    def take(pred, change, clause):
        for key, evs in by_sid.items():
            for i, e in enumerate(evs):
                if e["kind"] == "req" and pred(e):
                    cp = copy.deepcopy(evs[:i + 1])
                    for x in cp:
                        nid[0] += 1
                        x["tid"] = nid[0]
                        x["sid"] = "selftest_%s_%s" % (clause, x["sid"])
                    change(cp[-1])
                    expect[cp[-1]["tid"]] = clause
                    out.extend(cp)
                    return
        raise MachineryError("X05 self-test: no event to corrupt for clause %s" % clause)

    def drop_item(c):
        c["ans"]["items"] = c["ans"]["items"][:-1]

    def other_file(c):
        for t in c["disk"]:
            if not (t[0] == c["u"] and t[1] == c["f"]):
                t[2] = "x:corrupted"
                return

    def not_removed(c):
        c["disk"].append([c["u"], c["f"], "x:still-there"])

    def status500(c):
        c["rkind"], c["status"] = "500", 500

    def ref_differs(c):
        c["adig"] = "0" * 16

    def solo_differs(c):
        c["solo"]["adig"] = "f" * 16

    def writes(c):
        c["disk"] = [t for t in c["disk"] if not (t[0] == c["u"])]

    def lists_less(c):
        c["ans"]["fs"] = c["ans"]["fs"][:-1]

    def saved_differs(c):
        c["ans"]["saved"] = "1" * 16
    take(lambda e: e["op"] == "load" and e["rkind"] == "theory" and len(e["ans"]["items"]) > 0, drop_item, "Persistence")
    take(lambda e: e["op"] == "save" and e["rkind"] == "ok", other_file, "SaveExact")
    take(lambda e: e["op"] == "remove" and e["rkind"] == "ok", not_removed, "RemoveExact")
    take(lambda e: e["op"] == "load" and e["rkind"] == "theory", writes, "ReadOnly")
    take(lambda e: e["rkind"] not in ("500", "http", "other"), status500, "Totality")
    take(lambda e: "ref" in e and e["rkind"] == e["ref"]["kind"] == "proof" and e["adig"] == e["ref"]["adig"], ref_differs, "Faithful")
    take(lambda e: "solo" in e and e["solo"]["adig"] == e["adig"], solo_differs, "Isolation")
    take(lambda e: e["op"] == "check" and e["rkind"] == "item" and e.get("expect_saved") and e["ans"]["saved"] == e["expect_saved"],
         saved_differs, "EditRoundTrip")
    return out, expect


def validate(wd, events, name="tv"):
    p = wd / (name + ".ndjson")
    write_events(p, order_decls_first(events))
    return validate_trace("X05_IdeTrace", p, wd=wd / name, nchunks=1)


# --------------------------------------------------------------------------------------------------------------------
def run(rep, tier):
    quick = tier == "quick"
    wd = work_dir("X05", "run_%d" % os.getpid(), clean=True)
    rnd = random.Random(seed())
    timing = rep.notes.setdefault("timing_s", {})
    depth = 4 if quick else 6
    nsim = 120 if quick else 1500
    rep.rule = ("TLC: every behaviour of <= %d requests (find-files, load-json-file, save-file, remove-file, check-modify, init-saved-proof, "
                "apply-method, search-method; two users and the master library, files t1 / t2, five contents, steps sI sLa sBad) of the server model "
                "with all mechanisms as the statement needs them, 8 invariants incl. a shadow server per user (Isolation); one run per mechanism as "
                "coded (must violate). Spec -> code: all behaviours of 2 requests, %d simulated ones of 6 and the counterexamples are performed on "
                "the real Flask application (test client, fresh scratch users per behaviour), multi-user behaviours also once per user alone; "
                "code -> spec: seeded sessions on library files (recorded proofs step by step, failing steps, searches, saves, a second user). "
                "Every request is judged by the trace specification against the model of the directories, the lower layers called directly in a "
                "fresh process, and the solo twin. Non-trivial = every request; distinct by request, answer and directory contents." % (depth, nsim))
    rep.assumptions = ["the reference for check-modify / init-saved-proof / apply-method / search-method is the composition of items.parse_edit, "
                       "basic.load_theory, server.parse_init_state, ProofState.parse_steps / search_method and method.apply_method called "
                       "directly in a fresh process on the same files (answers compared as digests of the JSON without the `trace` texts)",
                       "error answers are compared by class only (an answer with a top-level `error` and no state / item / content)",
                       "file system: every save gets a modification time later than all earlier ones (the driver sets it after the request)",
                       "login / register / refresh-files (they work on ./users of the current directory), find-link, check-theory and the "
                       "imperative / integral routes are not examined",
                       "user directories are scratch copies: logic/basic.py's `dirname` is pointed at the scratch root (path helpers checked)"]
    pool = ThreadPoolExecutor(max_workers=3)
    t0 = time.time()
    # ---- design level
    f_check = pool.submit(tlc, "X05_Ide", "X05_Ide_check.cfg" if quick else "X05_Ide_deep.cfg", wd=wd / "mc", workers=1, timeout=6000)
    f_emit = pool.submit(tlc, "X05_Ide", "X05_Ide_emit.cfg", wd=wd / "emit", workers=1, timeout=3000)
    f_sim = pool.submit(tlc, "X05_Ide", "X05_Ide_sim.cfg", wd=wd / "sim", simulate="num=%d" % nsim, depth=8, seed_=seed() + 1, timeout=3000)
    f_mut = {}
    # quick: three cheap mechanism mutants; thorough: every mechanism, and its counterexample becomes a vector
    for sw in (["SwTotal", "SwLoadUser", "SwFailKeeps"] if quick else SWITCHES):
        c = cfg_file(wd, "X05_Ide_%s.cfg" % sw, "X05_Ide_fixed.cfg", {sw: "FALSE"})
        f_mut[sw] = pool.submit(tlc, "X05_Ide", str(c), wd=wd / ("mut_" + sw), workers=1, timeout=3000,
                                extra=["-dumpTrace", "json", str(wd / ("cx_%s.json" % sw))])
    # every mechanism as coded: all behaviours of <= 3 requests up to the first broken clause = the discriminating histories
    f_bad = pool.submit(tlc, "X05_Ide", "X05_Ide_ascoded.cfg", wd=wd / "ascoded", workers=1, timeout=3000)
    f_emit3 = None if quick else pool.submit(tlc, "X05_Ide", "X05_Ide_emit3.cfg", wd=wd / "emit3", workers=1, timeout=3000)
    r = f_check.result()
    # every step is judged by an Assert inside the action (the last step is not part of the state): a broken clause stops TLC
    if "X05 clause broken" in r.out:
        r.violated = ["a clause of the statement (Assert in action Do)"]
    require(r.violated or r.rc == 0, "X05: TLC failed on X05_Ide: %s" % (r.error or r.out[-1500:]))
    rep.add_mc("X05_Ide(all mechanisms as the statement needs them)", r, "all behaviours of <= %d requests" % depth)
    if r.violated:
        rep.design_violation("X05_Ide", r)
        pool.shutdown(wait=True)
        return
    rep.exhaustive = True
    vectors, seen = [], set()

    def add(vs):
        for v in vs:
            if v and v["steps"]:
                k = vec_key(v)
                if k not in seen:
                    seen.add(k)
                    vectors.append(v)
    mutants = {}
    for sw in f_mut:
        rm = f_mut[sw].result()
        require(rm.violated, "X05: the model with %s = FALSE (one mechanism as coded) must violate an invariant: %s" % (sw, rm.error or rm.out[-300:]))
        mutants[sw] = rm.violated
        rep.notes.setdefault("spec_mutants", []).append({"mutant": sw + " = FALSE", "caught_by": rm.violated})
        add([dumped_behaviour(wd / ("cx_%s.json" % sw), "cx:" + sw)])
    hit = {i for v in mutants.values() for i in v}
    require(({"Totality", "Persistence"} if quick else {"Totality", "Persistence", "Faithful", "FailedStepKeeps"}) <= hit,
            "X05: the mechanism mutants do not exercise the main invariants: %s" % mutants)
    rb = f_bad.result()
    require(rb.rc == 0, "X05: the as-coded model failed: %s" % rb.error)
    bad = printed_vectors(rb.out, "ascoded")
    rep.notes["ascoded_model"] = {"behaviours_of_<=3_requests_ending_in_a_broken_clause": len(bad),
                                  "clauses": sorted({c for v in bad for c in v["steps"][-1].get("viol", [])})}
    rnd.shuffle(bad)
    bad.sort(key=lambda v: len(v["steps"]))
    # one discriminating history per (clause set, last request kind), more in the thorough tier
    per = {}
    for v in bad:
        k = (tuple(sorted(v["steps"][-1].get("viol", []))), v["steps"][-1]["req"]["op"])
        if len(per.setdefault(k, [])) < (1 if quick else 6):
            per[k].append(v)
    add([v for vs in per.values() for v in vs])
    re_ = f_emit.result()
    require(re_.rc == 0, "X05: emitting the behaviours failed: %s" % re_.error)
    allb = printed_vectors(re_.out, "all2")
    rs = f_sim.result()
    require(rs.rc == 0 or rs.violated, "X05: simulation failed: %s" % rs.error)
    sims = printed_vectors(rs.out, "sim6")
    opened = []
    if f_emit3 is not None:
        r3 = f_emit3.result()
        require(r3.rc == 0, "X05: emitting the behaviours of 3 requests failed: %s" % r3.error)
        opened = printed_vectors(r3.out, "open3")
        rep.add_mc("X05_Ide(emitted: all behaviours of 3 requests that begin by opening a proof)", r3, "Record, FirstOpens")
    pool.shutdown(wait=True)
    rep.add_mc("X05_Ide(emitted: all behaviours of 2 requests)", re_, "Record")
    add(allb)
    add(sims)
    add(opened)
    timing["tlc_specs"] = round(time.time() - t0, 1)
    ops_seen = {s["req"]["op"] for v in vectors for s in v["steps"]}
    users_seen = {s["req"]["u"] for v in vectors for s in v["steps"]}
    require(set(OPS) <= ops_seen and {"ua", "ub"} <= users_seen, "X05: an action of the specification is never taken: %s %s" % (sorted(ops_seen), users_seen))
    require(len(allb) >= 300 and len(sims) >= nsim // 2, "X05: too few behaviours emitted: %d / %d" % (len(allb), len(sims)))
    rep.notes["vectors"] = {"all_behaviours_of_2": len(allb), "simulated_of_6": len(sims), "opened_of_3": len(opened), "counterexamples": sum(1 for v in vectors if v["fam"].startswith("cx")),
                            "as_coded_model": sum(1 for v in vectors if v["fam"] == "ascoded"), "distinct_total": len(vectors)}
    # ---- the real code
    lib_spec = {"theories": ["logic_base", "logic"], "sessions": 5 if quick else 60, "max_steps": 6 if quick else 14}
    nshard = 1 if quick else 3
    shards = [vectors[i::nshard] for i in range(nshard)]
    events, info = execute(wd, shards, lib_spec, timing)
    rep.notes["oracle"] = info
    rep.notes["prelude_ok_in_every_driver_process"] = all(e.get("prelude_ok", True) for e in events if e["kind"] == "end")
    for d in wd.glob("root_*"):
        shutil.rmtree(d, ignore_errors=True)
    st_events, expect = corrupted_sessions(events)
    v = validate(wd, events + st_events)
    timing["trace_validation"] = round(v["wall"], 1)
    rep.states += v.get("states", 0)
    # ---- binding self-test (same TLC run): every corrupted copy must be rejected with its clause
    got = {f["tid"]: set(f["fail"]) for f in v["fails"]}
    for tid, clause in expect.items():
        require(clause in got.get(tid, set()), "self-test: X05_IdeTrace accepted an event corrupted for clause %s (got %s)" % (clause, sorted(got.get(tid, []))))
    rep.notes["selftests"] = [{"spec": "X05_IdeTrace", "corrupted_field_for": c, "rejected": True} for c in sorted(set(expect.values()))]
    real = {e["tid"] for e in events}
    v = part(v, real)
    by_tid = {e["tid"]: e for e in events}
    # the bindings are machinery: a reference attached to the wrong files / a twin with other requests is a broken check, not a finding
    for f in v["fails"]:
        broken = {"OracleBinding", "SoloBinding", "RepositoryWritten"} & set(f["fail"])
        require(not broken, "X05: %s on event %s" % (sorted(broken), by_tid[f["tid"]].get("key")))
    vf, totals = first_per_key(v, by_tid)
    rep.notes["failing_events_by_finding"] = totals
    fams = {}
    for e in events:
        if e["kind"] == "req":
            fams.setdefault("lib" if e["fam"].startswith("lib") else "tlc", set()).add(e["tid"])
    for name in ("tlc", "lib"):
        tids = fams.get(name, set())
        sub = [by_tid[t] for t in sorted(tids)]
        if sub:
            rep.add_trace_result(name, sub, part(vf, tids), keyf=keyf, sample_n=2)
    for name in ("tlc", "lib"):
        if name in rep.notes.get("traces", {}):
            rep.notes["traces"][name]["fails_all_events"] = len(part(v, fams.get(name, set()))["fails"])
    reqs = [e for e in events if e["kind"] == "req"]
    rep.notes["requests"] = {"by_op": {op: sum(1 for e in reqs if e["op"] == op) for op in OPS},
                             "by_answer": {k: sum(1 for e in reqs if e["rkind"] == k) for k in sorted({e["rkind"] for e in reqs})},
                             "with_reference": sum(1 for e in reqs if "ref" in e), "with_solo_twin": sum(1 for e in reqs if "solo" in e),
                             "sessions": sum(1 for e in events if e["kind"] == "start"),
                             "http500_by_exception": {k: sum(1 for e in reqs if e["rkind"] == "500" and (e["exc"] or "?").split(":")[0] == k)
                                                      for k in sorted({(e["exc"] or "?").split(":")[0] for e in reqs if e["rkind"] == "500"})}}
    # ---- textual mutants of the structural clauses (thorough tier: one more JVM each)
    t1 = time.time()
    if not quick:
        spec_mutant(rep, "remove_empties_the_directory", "X05_Ide", "X05_Ide_fixed.cfg",
                    [("X05_Ide.tla", "ELSE [s |-> s, disk |-> [disk EXCEPT ![u][f] = None], ans |-> A0(\"ok\")]",
                      "ELSE [s |-> s, disk |-> [disk EXCEPT ![u] = [g \\in MFiles |-> None]], ans |-> A0(\"ok\")]")], ["RemoveExact"], wd=wd, workers=1)
        spec_mutant(rep, "metadata_snapshot_never_refreshed_on_access", "X05_Ide", "X05_Ide_fixed.cfg",
                    [("X05_Ide.tla", "EnsureMeta(sw, s, disk, u) == IF sw.fresh \\/ ~s.meta[u].loaded", "EnsureMeta(sw, s, disk, u) == IF ~s.meta[u].loaded")],
                    ["Persistence", "Faithful", "Totality"], wd=wd, workers=1)
    timing["spec_mutants"] = round(time.time() - t1, 1)
    # ---- vacuity guards
    n = rep.notes["requests"]
    require(all(n["by_op"][op] >= (10 if quick else 200) for op in OPS), "X05: a request kind is hardly exercised: %s" % n["by_op"])
    require(n["with_reference"] >= (300 if quick else 3000), "X05: too few requests with a reference answer: %d" % n["with_reference"])
    require(n["with_solo_twin"] >= (100 if quick else 1000), "X05: too few requests with a solo twin: %d" % n["with_solo_twin"])
    lib_reqs = [e for e in reqs if e["fam"] == "lib"]
    require(len(lib_reqs) >= (40 if quick else 600), "X05: too few requests in the library sessions: %d" % len(lib_reqs))
    if not rep.violations:
        require(sum(1 for e in lib_reqs if e["op"] == "apply" and e["rkind"] == "proof") >= (10 if quick else 150), "X05: recorded steps hardly ever apply")
    require(sum(1 for e in reqs if e["op"] == "apply" and e["rkind"] == "err") >= 5, "X05: no failing step")


def replay(path):
    obj = json.load(open(path))
    if obj.get("kind") != "event":
        print(json.dumps(obj, indent=1)[:3000])
        return 1
    e = obj["event"]
    clause = obj["clause"]
    print("session:", e.get("key"))
    print("recorded:", e.get("label"), "-> HTTP", e.get("status"), e.get("rkind"), e.get("exc"), "; clause", clause)
    wd = work_dir("X05", "replay_%d" % os.getpid(), clean=True)
    timing = {}
    if "vec" in e:
        events, _ = execute(wd, [[{"fam": "replay", "steps": e["vec"]}]], None, timing)
        target = ("v0", len(e["vec"]))
    elif "lib_spec" in e:
        events, _ = execute(wd, [], e["lib_spec"], timing)
        target = (e["sid"], e["k"])
    else:
        print("the event carries no script (solo twin): replay the session it belongs to")
        return 1
    v = validate(wd, events)
    now = [x for x in events if x["kind"] == "req" and (x["sid"], x["k"]) == target]
    if not now:
        print("the session did not reach this request any more")
        return 0
    x = now[0]
    fails = sorted(c for f in v["fails"] if f["tid"] == x["tid"] for c in f["fail"])
    print("now:     ", x.get("label"), "-> HTTP", x.get("status"), x.get("rkind"), x.get("exc"), "; failing clauses", fails)
    shutil.rmtree(wd, ignore_errors=True)
    if fails:
        if clause not in fails:
            print("(the recorded clause was %s: the outcome of this request depends on what earlier sessions left in the server process)" % clause)
        print("VIOLATION property=X05 replay=%s" % path)
        return 1
    return 0
