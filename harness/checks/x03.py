"""X03 - types form a term algebra (substitution, matching, ordering, printing); polynomial arithmetic is a commutative ring.   extras/X03.md

 S  spec/X03_Type.tla      workbench over kernel/type.py: a current type, a TyInst that match_incr updates in place, a saved copy of it; actions
                           match / subst / subst2 / fresh / inst / save / conv / wrap / cmp / cmp3 / look.  Init ranges over ALL types of <= 3 levels
                           (7265) for the unary clauses, over all pairs of types of <= 2 levels for equality, hash, both orders and matching; all
                           histories of <= 2 (thorough 3) operations; every behaviour is printed for replay
    spec/X03_Poly.tla      workbench over util/poly.py: three registers; load / add / sub / mul / neg / scale / pow / rot / laws / hash.  Init ranges over
                           ALL polynomials of <= 2 (thorough 3) monomials over x, y with powers in {-1, 1, 2, 3} and coefficients in {-1, 1/2, 2};
                           all histories of <= 3 (thorough 4) operations from zero; invariants NormalForm, EvalCommutes (independent semantics:
                           evaluation at four rational points), RingLaws, SeqDenotes
    spec/X03_Machines.tla  both workbenches as functions of ONE step (next state, reference observations, the statement's clauses, divergence),
    spec/X03_Defs.tla      shared by S and T; reference parser / printer of the type grammar, the coded orders, the coded matcher, rational
                           polynomials over lib/Rat
 -> harness/drivers/x03.py every printed behaviour is replayed into the real code (spec -> code); seeded random longer histories over a wider alphabet
                           (three variables, ten constructors, three atoms, powers -2..3) run in the real code, every step observed (code -> spec)
 T  spec/X03_Trace.tla     every step judged by TLC: StripInverse, VarsExactInOrder, SubTypesExactInOrder, EqHashStructural,
                           PrintedFormDenotesType, PrintParseIdentity, ParseBracketed, ConvertDefinedness, ConvertInverse, EqStructural, EqualHashes,
                           LeTotal, LeAntisymmetric, LeReflexive, LtIsStrictLe, CompareZeroIffEqual, CompareAntisymmetric, LeTransitive,
                           CompareTransitive, InstFunctional, NeverOverwrites, MatchSound, MatchComplete, MatchRefuses,
                           MatchRaisesOnlyTypeMatchException, SubstExact, SubstOnlyDomain, SubstComposes, CopyIsolated, CopyEqualsOriginal,
                           OperandsUntouched, Constructors; NormalForm, OperationExact, EvalCommutes, RingLaw, EqIsEqualityOfNormalForms,
                           PredicatesFollowNormalForm, GetConstant, OperationCompletes (no hash clause: the module defines none; a load refused
                           for a power that is not an integer is a divergence)
"""
import copy
import json
import os
import shutil
from concurrent.futures import ThreadPoolExecutor

from harness.core import (MachineryError, SPEC, model_check, read_events, require, run_driver, seed, spec_mutant, tlc, validate_trace, work_dir,
                          write_events)


def part(v, tids):
    return {"consumed": len(tids), "fails": [f for f in v["fails"] if f["tid"] in tids],
            "nontrivial": [t for t in v["nontrivial"] if t in tids], "divergences": [t for t in v["divergences"] if t in tids],
            "states": 0, "wall": v.get("wall", 0)}


def first_per_key(v, by_tid, n=2):
    """keep the first n failing events per (clause, key): one replay file per finding, not per event"""
    seen, fails, total = {}, [], {}
    for f in sorted(v["fails"], key=lambda f: f["tid"]):
        e = by_tid.get(f["tid"], {})
        keep = []
        for c in f["fail"]:
            k = "%s|%s" % (c, e.get("key"))
            total[k] = total.get(k, 0) + 1
            if seen.get(k, 0) < n:
                seen[k] = seen.get(k, 0) + 1
                keep.append(c)
        if keep:
            fails.append({"tid": f["tid"], "fail": keep})
    w = dict(v)
    w["fails"] = fails
    return w, total


def sweep(parent):
    """scratch directories of runs whose process is gone (kept after a run with violations) are removed"""
    for d in parent.glob("run_*"):
        pid = d.name.split("_")[-1]
        if d.is_dir() and pid.isdigit() and not os.path.exists("/proc/%s" % pid):
            shutil.rmtree(d, ignore_errors=True)


def make_corrupted(ty, po):
    """binding self-test: copies of real events with ONE recorded field changed, each paired with the clause that must reject it"""
    bad = []

    def corrupt(pool_, pred, change, clause):
        for e in pool_:
            if e["out"] == "ok" and pred(e):
                c = copy.deepcopy(e)
                change(c)
                c["tid"] = 9 * 10 ** 7 + len(bad)
                bad.append((c, clause))
                return
        raise MachineryError("X03 self-test: no event to corrupt for clause %s" % clause)

    k = lambda kind: (lambda e: e["op"]["k"] == kind)

    def swap_stv(c):
        c["o"]["stv"] = c["o"]["stv"][::-1]

    def drop_paren(c):
        c["o"]["ptoks"] = [t for t in c["o"]["ptoks"] if t not in ("(", ")")]

    def chg_back(c):
        c["o"]["back"] = ["tc", "list", [c["o"]["back"]]]

    def chg_bind(c):
        c["A"]["ti"][-1][1] = ["tc", "list", [c["A"]["ti"][-1][1]]]

    def drop_bind(c):
        c["A"]["ti"] = c["A"]["ti"][1:]

    def chg_cur(c):
        c["A"]["cur"] = ["tc", "list", [c["A"]["cur"]]]

    def flip(fld):
        def f(c):
            c["o"][fld] = not c["o"][fld]
        return f

    def chg_saved(c):
        c["A"]["saved"] = c["A"]["saved"] + [["zz", ["tv", "a"]]]

    def chg_coef(c):
        c["A"]["p"][0][0] = [c["A"]["p"][0][0][0] + c["A"]["p"][0][0][1], c["A"]["p"][0][0][1]]

    def add_zero(c):
        c["A"]["p"] = c["A"]["p"] + [[[0, 1], [["z", [7, 1]]]]]

    def law_false(c):
        c["o"]["laws"][2]["eq"] = False

    def law_side(c):
        c["o"]["laws"][4]["rhs"] = c["o"]["laws"][4]["rhs"] + [[[1, 1], [["z", [5, 1]]]]]

    def flip_izc(c):
        c["o"]["pred"]["izc"] = not c["o"]["pred"]["izc"]

    def flip_eq(c):
        c["o"]["eqs"]["pq"] = not c["o"]["eqs"]["pq"]

    def chg_q(c):
        c["A"]["q"] = c["A"]["q"] + [[[1, 1], [["z", [5, 1]]]]]
    corrupt(ty, lambda e: k("look")(e) and len(e["o"]["stv"]) == 2, swap_stv, "VarsExactInOrder")
    corrupt(ty, lambda e: k("look")(e) and "(" in e["o"]["ptoks"] and "=>" in e["o"]["ptoks"], drop_paren, "PrintedFormDenotesType")
    corrupt(ty, k("look"), chg_back, "PrintParseIdentity")
    corrupt(ty, lambda e: k("match")(e) and len(e["A"]["ti"]) > len(e["B"]["ti"]), chg_bind, "MatchSound")
    corrupt(ty, lambda e: k("match")(e) and len(e["B"]["ti"]) >= 1 and e["key"] == "ty:match:ok", drop_bind, "NeverOverwrites")
    corrupt(ty, lambda e: k("subst")(e) and e["B"]["ti"], chg_cur, "SubstExact")
    corrupt(ty, lambda e: k("cmp")(e) and e["o"]["le12"] and not e["o"]["le21"], flip("le12"), "LeTotal")
    corrupt(ty, lambda e: k("cmp")(e) and e["o"]["eq"], flip("heq"), "EqualHashes")
    corrupt(ty, lambda e: k("cmp")(e) and not e["o"]["eq"], flip("eq"), "EqStructural")
    corrupt(ty, k("match"), chg_saved, "CopyIsolated")
    corrupt(po, lambda e: e["op"]["k"] in ("add", "mul") and e["A"]["p"] and not e["big"], chg_coef, "OperationExact")
    corrupt(po, lambda e: e["op"]["k"] in ("add", "mul", "neg") and not e["big"], add_zero, "NormalForm")
    corrupt(po, lambda e: k("laws")(e) and not e["big"], law_false, "RingLaw")
    corrupt(po, lambda e: k("laws")(e) and not e["big"], law_side, "RingLaw")
    corrupt(po, lambda e: e["op"]["k"] in ("add", "scale") and not e["big"], flip_izc, "PredicatesFollowNormalForm")
    corrupt(po, lambda e: e["op"]["k"] in ("add", "load") and not e["big"], flip_eq, "EqIsEqualityOfNormalForms")
    corrupt(po, lambda e: e["op"]["k"] in ("add", "mul") and not e["big"], chg_q, "OperandsUntouched")
    return bad


def run(rep, tier):
    quick = tier == "quick"
    wd = work_dir("X03", "run_%d" % os.getpid(), clean=True)
    sweep(wd.parent)
    rep.rule = ("TLC: all 7265 types of <= 3 levels over ?'a ?'b 'a 'b nat list fun prod (every unary observation), all pairs of types of <= 2 levels "
                "(==, hash, <=, <, fast_compare_typ, match), triples for transitivity, all histories of <= %d workbench operations (match_incr on "
                "a live TyInst, subst, composed substitution, copy, convert_stvar, constructors); all polynomials of <= %d monomials over x, y with "
                "powers in {-1, 1, 2, 3} and coefficients in {-1, 1/2, 2} (for 3 monomials: {-1, 1/2}) (19 ring laws and 7 basic results each, with two fixed partners), all "
                "histories of <= %d register operations from zero.  Every behaviour is replayed into the real code (its last step observed; earlier "
                "steps are the last steps of shorter behaviours).  Real code: seeded random histories of %d operations over a wider alphabet, "
                "every step observed.  Non-trivial = every judged step; distinct by the full observed step."
                % (2 if quick else 3, 2 if quick else 3, 3 if quick else 4, 25 if quick else 40))
    rep.assumptions = ["types are projected through raw fields (harness/codec.py); printed forms are compared as token lists and read by a reference "
                       "parser of the grammar written in TLA+ (the exact token sequence of the printer is the reference: a difference that still "
                       "denotes the type is a divergence, not a failure)",
                       "the statement asks for total orders consistent with equality: the coded orders (Type.__le__ and fast_compare_typ, which differ "
                       "from each other) are the reference; another total order is a divergence",
                       "match / match_incr are judged within one arity per constructor name (the coded matcher zips argument lists: TConst('c', 'a) "
                       "matches TConst('c')); what match_incr leaves in the instantiation when it refuses is not part of the statement (as coded: "
                       "the bindings made so far)",
                       "there is no convert_tvar in the tree: the way back from convert_stvar is the instantiation ?'n := 'n",
                       "util/poly.py has no evaluation and no is_fraction: evaluation at points is the specification's (four rational points with "
                       "square coordinates), the predicates judged are is_zero_constant / is_nonzero_constant / is_constant / get_constant",
                       "util/poly.py asserts integer powers and defines no hash: a load refused for a power that is not an integer is a divergence, hash is observed "
                       "but not judged",
                       "numbers beyond 2^30 are not examined (TLC integers); Monomial.__le__ / __lt__ are not part of the statement (no caller uses them)"]
    timing = rep.notes.setdefault("timing_s", {})
    seeds = seed()
    # ---------------- S: model checking (prints the behaviours), each followed by its replay into the real code
    if quick:
        ty_cfgs = [("universe", "all types of <= 3 levels, look"), ("pairs", "all pairs of types of <= 2 levels: cmp, match; cmp3 through 10 x 4"),
                   ("hist", "histories of <= 2 operations")]
        po_cfgs = [("universe", "all polynomials of <= 2 monomials: laws"), ("hist", "histories of <= 3 operations from zero")]
        sims = []
        nrand = (120, 25)
    else:
        ty_cfgs = [("universe", "all types of <= 3 levels, look"), ("pairs3", "all pairs of types of <= 2 levels: cmp, match; cmp3 through 10 x 10"),
                   ("deep", "histories of <= 3 operations"), ("inv", "invariants only: all patterns of <= 2 levels, 57 instantiations")]
        po_cfgs = [("universe3", "all polynomials of <= 3 monomials (coefficients -1, 1/2): laws"), ("deep", "histories of <= 4 operations from zero"),
                   ("wide", "invariants only: <= 1 monomial x 7 x 3 partners x 4 scalars")]
        sims = [("X03_Type", "sim", "num=400"), ("X03_Poly", "sim", "num=400")]
        nrand = (600, 40)

    def s_job(mod, cfg, what, sim=None):
        name = "%s_%s" % (mod, cfg)
        if sim:
            r = tlc(mod, "%s.cfg" % name, wd=wd / ("mc_" + name), simulate=sim, depth=14, seed_=seeds + 1, timeout=3000)
            require(r.rc == 0 or r.violated, "%s simulation failed: %s" % (name, r.error))
        else:
            r = model_check(mod, "%s.cfg" % name, wd=wd / ("mc_" + name), workers=1 if quick else 2, timeout=6000)
        out = None
        if not r.violated and "Record = TRUE" in (SPEC / ("%s.cfg" % name)).read_text():
            log = wd / (name + ".log")
            log.write_text(r.out)
            out = wd / (name + ".ndjson")
            p, w = run_driver("x03", ["ty-vectors" if mod == "X03_Type" else "po-vectors", log, out], timeout=7200)
            timing["driver_" + name] = round(w, 1)
            rep.notes.setdefault("drivers", {})[name] = json.loads(p.stdout.strip().splitlines()[-1])
        timing["tlc_" + name] = round(r.wall, 1)
        return name, what, r, out

    def r_job(mode, out):
        p, w = run_driver("x03", [mode, out, seeds, nrand[0], nrand[1]], timeout=7200)
        timing["driver_" + mode] = round(w, 1)
        rep.notes.setdefault("drivers", {})[mode] = json.loads(p.stdout.strip().splitlines()[-1])
        return out

    pool = ThreadPoolExecutor(max_workers=4)
    try:
        futs = [pool.submit(s_job, "X03_Poly", c, w) for c, w in po_cfgs[:1]]
        futs += [pool.submit(s_job, "X03_Type", c, w) for c, w in ty_cfgs]
        futs += [pool.submit(s_job, "X03_Poly", c, w) for c, w in po_cfgs[1:]]
        futs += [pool.submit(s_job, m, c, "simulated behaviours of 8-10 operations", sim=s) for m, c, s in sims]
        rfuts = [pool.submit(r_job, "ty-random", wd / "ty_random.ndjson"), pool.submit(r_job, "po-random", wd / "po_random.ndjson")]
        # specification mutants (one-line weakenings must violate an invariant)
        mfuts = [pool.submit(spec_mutant, rep, "match_does_not_compare_with_the_existing_binding", "X03_Type", "X03_Type_mut.cfg",
                             [("X03_Defs.tla", "IF P[2] \\in Keys(ti) THEN <<Lookup(ti, P[2]) = T, ti>>", "IF P[2] \\in Keys(ti) THEN <<TRUE, ti>>")],
                             ["StepsLawful", "MatcherIsReference"], wd=wd, workers=1),
                 pool.submit(spec_mutant, rep, "sum_keeps_cancelled_monomials", "X03_Poly", "X03_Poly_mut.cfg",
                             [("X03_Defs.tla", "PAdd(p, q) == NonZero({ <<m, RAdd(Coef(p, m), Coef(q, m))>> : m \\in Monos(p) \\cup Monos(q) })",
                               "PAdd(p, q) == { <<m, RAdd(Coef(p, m), Coef(q, m))>> : m \\in Monos(p) \\cup Monos(q) }")],
                             ["NormalForm", "RingLaws", "EvalCommutes"], wd=wd, workers=1)]
        if not quick:
            mfuts += [pool.submit(spec_mutant, rep, "product_does_not_collect_equal_monomials", "X03_Poly", "X03_Poly_mut.cfg",
                                  [("X03_Defs.tla", "NonZero({ <<m, SumC({ x \\in prods : x[1] = m })>> : m \\in { x[1] : x \\in prods } })",
                                    "NonZero({ <<m, (CHOOSE x \\in prods : x[1] = m)[4]>> : m \\in { x[1] : x \\in prods } })")],
                                  ["EvalCommutes", "RingLaws"], wd=wd, workers=1),
                      pool.submit(spec_mutant, rep, "printer_does_not_bracket_a_function_under_a_postfix_constructor", "X03_Type", "X03_Type_universe.cfg",
                                  [("X03_Defs.tla", "ELSE IF Len(T[3]) = 1 THEN (IF IsFunN(T[3][1]) THEN Paren(Toks(T[3][1])) ELSE Toks(T[3][1])) \\o <<T[2]>>",
                                    "ELSE IF Len(T[3]) = 1 THEN Toks(T[3][1]) \\o <<T[2]>>")],
                                  ["LookLawful", "StepsLawful"], wd=wd, workers=1),
                      pool.submit(spec_mutant, rep, "le_compares_argument_lists_by_their_first_elements_only", "X03_Type", "X03_Type_pairs.cfg",
                                  [("X03_Defs.tla", "ELSE IF As[i] = Bs[i] THEN LeArgs(As, Bs, i + 1) ELSE LeT(As[i], Bs[i])",
                                    "ELSE LeT(As[i], Bs[i])")],
                                  ["OrdersLawful", "StepsLawful"], wd=wd, workers=1),
                      pool.submit(spec_mutant, rep, "composition_forgets_the_second_instantiation", "X03_Type", "X03_Type_mutc.cfg",
                                  [("X03_Defs.tla", "\\o SelectSeq(r, LAMBDA p : p[1] \\notin Keys(s))", "\\o <<>>")],
                                  ["ComposeLaw", "StepsLawful"], wd=wd, workers=1)]
        files = []
        for f in futs:
            name, what, r, out = f.result()
            rep.add_mc("%s(%s)" % (name, what), r, name + ".cfg")
            if r.violated:
                rep.design_violation(name, r)
                return
            if out:
                files.append((name, out))
        rep.exhaustive = True
        for f, nm in zip(rfuts, ("ty_random", "po_random")):
            files.append((nm, f.result()))
        for f in mfuts:
            f.result()
    finally:
        pool.shutdown(wait=True)
    # ---------------- T: every event judged by TLC (the corrupted events of the binding self-test ride along)
    fam, steps = {}, {}
    for nm, p in files:
        fam[nm] = read_events(p)
        steps[nm] = json.load(open(str(p) + ".steps.json"))
    # tids are unique per driver run only: renumber over the whole run
    n = 0
    for nm in fam:
        for e in fam[nm]:
            n += 1
            e["tid"] = n
    ty = [e for nm in fam for e in fam[nm] if e["kind"] == "ty"]
    po = [e for nm in fam for e in fam[nm] if e["kind"] == "po"]
    bad = make_corrupted(ty, po)
    allp = wd / "all.ndjson"
    write_events(allp, [e for nm in fam for e in fam[nm]] + [c for c, _ in bad])
    v = validate_trace("X03_Trace", allp, wd=wd / "tv", nchunks=3 if quick else 4)
    rep.states += v.get("states", 0)
    timing["trace_validation"] = round(v["wall"], 1)
    got = {f["tid"]: set(f["fail"]) for f in v["fails"]}
    for c, clause in bad:
        require(clause in got.get(c["tid"], set()), "self-test: X03_Trace accepted an event corrupted for clause %s (got %s)" % (
            clause, sorted(got.get(c["tid"], []))))
    rep.notes["selftests"] = [{"spec": "X03_Trace", "corrupted_field_for": clause, "rejected": True} for _, clause in bad]
    totals = {}
    for nm, evs in fam.items():
        by_tid = {e["tid"]: e for e in evs}
        pv, tot = first_per_key(part(v, set(by_tid)), by_tid)
        totals.update({"%s:%s" % (nm, k): c for k, c in tot.items()})
        for f in pv["fails"]:            # the full history goes into the replay file
            e = by_tid[f["tid"]]
            h = steps[nm].get(e["hid"], {})
            e["init"], e["steps"] = h.get("init"), (h.get("steps") or [])[:max(e["step"], -1) + 1]
        rep.add_trace_result(nm, evs, pv, sample_n=1)
    if totals:
        rep.notes["failing_events_by_clause_and_key"] = totals
    rep.samples = [{"trace": s["trace"], "event": {k: x for k, x in s["event"].items() if k in ("kind", "fam", "op", "out", "key")}}
                   if isinstance(s.get("event"), dict) else s for s in rep.samples]
    # ---------------- what was exercised (counts only)
    nt = set(v["nontrivial"])
    cnt, judged = {}, {}
    for e in ty + po:
        k = e["key"] + ("" if e["out"] == "ok" or e["key"].endswith("refused") else ":raised")
        cnt[k] = cnt.get(k, 0) + 1
        if e["tid"] in nt:
            judged[k] = judged.get(k, 0) + 1
    rep.notes["events_by_operation"] = dict(sorted(cnt.items()))
    rep.notes["judged_by_operation"] = dict(sorted(judged.items()))
    halves_ok = sum(1 for e in po if e["key"] == "po:load:rational-power" and e["out"] == "ok")
    detail = {"match_extending_a_non_empty_instantiation": sum(1 for e in ty if e["key"] == "ty:match:ok" and e["B"]["ti"] and len(e["A"]["ti"]) > len(e["B"]["ti"])),
              "match_refused_after_binding": sum(1 for e in ty if e["key"] == "ty:match:refused" and len(e["A"]["ti"]) > len(e["B"]["ti"])),
              "match_against_an_existing_binding": sum(1 for e in ty if e["op"]["k"] == "match" and e["B"]["ti"]),
              "subst_with_both_instantiations_non_empty": sum(1 for e in ty if e["op"]["k"] == "subst2" and e["B"]["ti"] and e["B"]["saved"]),
              "printed_with_brackets": sum(1 for e in ty if e["op"]["k"] == "look" and "(" in e["o"]["ptoks"]),
              "steps_with_a_saved_copy_alive": sum(1 for e in ty if e["B"]["saved"]),
              "products_of_sums": sum(1 for e in po if e["op"]["k"] == "mul" and len(e["B"]["p"]) >= 2 and len(e["B"]["q"]) >= 2),
              "results_with_cancellation": sum(1 for e in po if e["op"]["k"] in ("add", "sub", "mul") and e["out"] == "ok" and not e["big"]
                                               and len(e["A"]["p"]) < max(len(e["B"]["p"]), len(e["B"]["q"]))),
              "negative_powers": sum(1 for e in po if any(f[1][0] < 0 for m in e["A"]["p"] for f in m[1])),
              "rational_powers_built": halves_ok, "events_too_big_for_tlc": sum(1 for e in po if e["big"])}
    rep.notes["coverage_detail"] = detail
    # ---------------- vacuity guards
    need = {"ty:look": (7000, 7000), "ty:cmp": (3000, 4000), "ty:cmp3": (2000, 6000), "ty:match:ok": (1000, 10000), "ty:match:refused": (1500, 30000),
            "ty:subst": (150, 3000), "ty:subst2": (150, 3000), "ty:save": (100, 3000), "ty:conv": (100, 1500), "ty:inst": (300, 9000),
            "ty:fresh": (50, 1500), "ty:wrap:list": (30, 1500),
            "po:laws": (1000, 4000), "po:add": (300, 6000), "po:sub": (300, 6000), "po:mul": (300, 5000), "po:neg": (300, 5000), "po:scale": (800, 20000),
            "po:pow": (800, 20000), "po:rot": (200, 4000), "po:load": (1000, 30000), "po:hash": (200, 4000)}
    for k, c in need.items():
        require(cnt.get(k, 0) >= c[0 if quick else 1], "X03: operation %s hardly exercised (vacuity guard): %d events" % (k, cnt.get(k, 0)))
    for k in need:
        if k not in ("po:hash",):
            require(judged.get(k, 0) >= cnt.get(k, 0) * 9 // 10, "X03: most %s events were not judged: %d of %d" % (k, judged.get(k, 0), cnt.get(k, 0)))
    require(detail["match_extending_a_non_empty_instantiation"] >= 100 and detail["match_refused_after_binding"] >= 50
            and detail["subst_with_both_instantiations_non_empty"] >= 20 and detail["printed_with_brackets"] >= 3000
            and detail["products_of_sums"] >= 40 and detail["results_with_cancellation"] >= 50 and detail["negative_powers"] >= 500,
            "X03: a situation the clauses speak about hardly occurred: %s" % detail)
    require(len(v["nontrivial"]) >= (30000 if quick else 150000), "X03: too few events judged: %d" % len(v["nontrivial"]))
    if not rep.violations:
        shutil.rmtree(wd, ignore_errors=True)


def replay(path):
    obj = json.load(open(path))
    if obj.get("kind") != "event":
        print(json.dumps(obj, indent=1)[:3000])
        return 1
    e = obj["event"]
    print("event", e.get("key"), "clause", obj["clause"], "; init:", json.dumps(e.get("init"))[:400], "; history:", json.dumps(e.get("steps"))[:1500])
    wd = work_dir("X03", "replay_%d" % os.getpid(), clean=True)
    rc = 0
    if e.get("init") is not None:
        # re-execute the recorded history against the current tree and judge every step
        json.dump({"kind": e["kind"], "init": e["init"], "steps": e["steps"]}, open(wd / "ev.json", "w"))
        run_driver("x03", ["replay", wd / "ev.json", wd / "re.ndjson"], timeout=600)
        evs = read_events(wd / "re.ndjson")
        v = validate_trace("X03_Trace", wd / "re.ndjson", wd=wd / "tv", nchunks=1)
        by = {x["tid"]: x for x in evs}
        for f in v["fails"]:
            print("now: step %d (%s) fails %s" % (by[f["tid"]]["step"], by[f["tid"]]["key"], sorted(f["fail"])))
        if any(obj["clause"] in f["fail"] for f in v["fails"]):
            rc = 1
        else:
            print("the recorded history no longer fails clause %s on this tree" % obj["clause"])
    else:
        write_events(wd / "ev.ndjson", [e])
        v = validate_trace("X03_Trace", wd / "ev.ndjson", wd=wd / "tv", nchunks=1)
        print("recorded event re-validated, fails:", v["fails"])
        rc = 1 if v["fails"] else 0
    if rc:
        print("VIOLATION property=X03 replay=%s" % path)
    shutil.rmtree(wd, ignore_errors=True)
    return rc
