"""C20 - program evaluation and VC generation are sound with respect to execution.   DESIGN.md section 6/C20

 S  spec/C20_Hoare.tla (+ C20_HoareSem.tla)  annotated while-programs as a machine: TLC enumerates a universe of
                              (program, pre, post) triples (integer + natural-number pools with nested subtraction, products
                              of sums, negated conjunctions, nested implications), starts a small-step execution from every
                              precondition store of every triple whose REFERENCE conditions all hold, and checks Sound /
                              ExecAgrees / AllGuarded; it emits the whole universe (and terminating (program, store) pairs)
 ->  harness/drivers/c20.py   (a) imperative/com.py compute_wp + get_lines/get_vcs + parser2 re-parse + HOL form,
                              (c) annotation histories on ONE object (compute_wp twice; another pre / post / invariant), (b) imperative/imp.py eval_Sem / vcg_norm + check_proof,
                              plus seeded random programs of nesting <= 3 (thorough: 4)
 T  spec/C20_HoareTrace.tla   VcSound / PrintParse / ParseFail / HolMeaning / EvalSemChecked / EvalSemFinal / VcgChecked /
                              VcgSound evaluated by TLC on every event
"""
import copy
import json
from concurrent.futures import ThreadPoolExecutor

from harness.core import (MachineryError, digest, model_check, read_events, require, run_drivers_parallel, run_driver, seed,
                          selftest_trace, spec_mutant, validate_trace, work_dir, write_events)

TSPEC = "C20_HoareTrace"
SSPEC = "C20_Hoare"
MAX_REPORTED_PER_CLAUSE = 12
FALSE_POST = ["<", ["v", "x"], ["v", "x"]]

MUTANTS = [
    ("while_no_exit_condition", "C20_HoareSem.tla",
     "<< c[3], rb[2] \\cup { <<\"imp\", <<\"and\", c[3], c[2]>>, rb[1]>>, <<\"imp\", <<\"and\", c[3], <<\"not\", c[2]>>>>, Q>> } >>",
     "<< c[3], rb[2] \\cup { <<\"imp\", <<\"and\", c[3], c[2]>>, rb[1]>> } >>"),
    # the annotation cache as coded in a seeded change: an object already annotated for this postcondition keeps its
    # conditions, the condition  P --> wp  for the NEW precondition is never generated
    ("reannotate_cached_by_postcondition", "C20_Hoare.tla",
     "AnnVCs(old, c, P, Q) == RefVCs(P, c, Q)",
     "AnnVCs(old, c, P, Q) == IF old.n > 0 /\\ old.post = Q THEN WPV(c, Q)[2] ELSE RefVCs(P, c, Q)"),
    ("assign_no_substitution", "C20_HoareSem.tla",
     "[] c[1] = \"asg\" -> <<SubB(Q, c[2], c[3]), {}>>",
     "[] c[1] = \"asg\" -> <<Q, {}>>"),
    ("cond_wp_ignores_else_branch", "C20_HoareSem.tla",
     "<< <<\"ite\", c[2], r1[1], r2[1]>>, r1[2] \\cup r2[2] >>",
     "<< r1[1], r1[2] \\cup r2[2] >>"),
]


def _mutant(rep, wd, m):
    name, fn, old, new = m
    spec_mutant(rep, name, SSPEC, "C20_Hoare_tiny.cfg", [(fn, old, new)], ["Sound"], wd=wd, workers=1,
                env={"VECTOR_FILE": wd / ("mut_%s.ndjson" % name), "VECTOR_FILE_SEM": wd / ("mut_%s_sem.ndjson" % name),
                     "VECTOR_FILE_HIST": wd / ("mut_%s_hist.ndjson" % name)})


def _cap(v):
    """Keep at most MAX_REPORTED_PER_CLAUSE failing events per clause (the print/parse defect fires on thousands of
    events); totals are kept in the evidence."""
    totals, kept, seen = {}, [], {}
    for f in v["fails"]:
        keep = False
        for c in f["fail"]:
            totals[c] = totals.get(c, 0) + 1
            if seen.get(c, 0) < MAX_REPORTED_PER_CLAUSE:
                seen[c] = seen.get(c, 0) + 1
                keep = True
        if keep:
            kept.append(f)
    v2 = dict(v)
    v2["fails"] = kept
    return v2, totals


def run(rep, tier):
    quick = tier == "quick"
    wd = work_dir("C20", "run", clean=True)
    maxnest = 3 if quick else 4
    rep.rule = ("TLC enumerates every (program, pre, post) triple of the pools (nesting <= %d; integer and natural-number "
                "programs), executes each reference-valid triple small-step from every precondition store (Sound, ExecAgrees) "
                "and emits the universe; every integer triple is replayed through com.compute_wp/get_lines/parser2, a seeded "
                "sample of natural-number triples and terminating (program, store) pairs through imp.vcg_norm / imp.eval_Sem + "
                "check_proof, plus seeded random programs. Non-trivial = the soundness conclusion was really tested: all of the "
                "CODE's conditions hold (decided exactly on the box: each is guarded by the box conjunct) and at least one "
                "execution from the precondition terminates (for eval_Sem: the theorem was compared with a terminating "
                "reference run); distinct by (kind, mode, program, pre, post / initial store, recorded output)." % maxnest)
    rep.assumptions = ["integer stores -2..2 / natural-number stores 0..3 for deciding conditions; every precondition and invariant "
                       "carries the box conjunct, so a condition holds on all stores iff it holds on the box (checked per event)",
                       "executions: at most 10 iterations per loop activation and values within -30..30, otherwise not examined",
                       "natural-number fragment without subtraction; operators outside parser2's grammar (>=, >, <-->, arrays, "
                       "function calls, forall) are not generated",
                       "TLC/SANY, the structural codecs of harness/drivers/c20.py, CPython"]
    cfg = "C20_Hoare_small.cfg" if quick else "C20_Hoare_deep.cfg"
    vec, semvec, histvec = wd / "vectors.ndjson", wd / "semvectors.ndjson", wd / "histvectors.ndjson"
    r = model_check(SSPEC, cfg, wd=wd / "mc", workers=2 if quick else 4, env={"VECTOR_FILE": vec, "VECTOR_FILE_SEM": semvec, "VECTOR_FILE_HIST": histvec}, timeout=3600)
    rep.add_mc(SSPEC, r, cfg)
    if r.violated:
        rep.design_violation(SSPEC, r)
        return
    require(vec.exists() and semvec.exists() and histvec.exists(), "C20_Hoare did not emit vectors")
    rep.exhaustive = True
    require(r.distinct >= 5000 and r.depth >= 8, "C20_Hoare explored too few executions (%d states, depth %d)" % (r.distinct, r.depth))
    ints = [ln for ln in open(vec) if '"dom":"int"' in ln]
    nnat = sum(1 for ln in open(vec) if '"dom":"nat"' in ln)
    rep.notes["vectors"] = {"int_triples": len(ints), "nat_triples": nnat, "sem_pairs": sum(1 for _ in open(semvec))}
    require(len(ints) >= 1000 and nnat >= 500, "C20_Hoare emitted too few vectors")

    # spec -> code: two com driver processes + one imp process; the specification mutants run meanwhile
    # all triples of one program go to the same process (the driver de-duplicates per program and postcondition)
    halves = ([], [])
    for ln in ints:
        halves[int(digest(json.loads(ln)["prog"]), 16) % 2].append(ln)
    parts = []
    for i, chunk in enumerate(halves):
        p = wd / ("intvec_%d.ndjson" % i)
        p.write_text("".join(chunk))
        parts.append(p)
    nrandom = 240 if quick else 6000
    jobs = [("c20", ["com", parts[i], wd / ("com_%d.ndjson" % i), seed(), nrandom // 2, maxnest, 10, 1 + i * 2000000], None)
            for i in range(2)]
    nsem, nvcg, nrnd = (110, 36, 10) if quick else (1500, 360, 200)
    jobs.append(("c20", ["hist", histvec, wd / "com_2.ndjson", 1 + 4000000], None))
    mutants = MUTANTS[:2] if quick else MUTANTS
    totals = {}
    verdicts = {}

    def judge(name, path, nchunks):
        evs = read_events(path)
        v = validate_trace(TSPEC, path, wd=wd / ("tv_" + name), nchunks=nchunks)
        verdicts[name] = (evs, v)
        v2, tot = _cap(v)
        for k, n in tot.items():
            totals[k] = totals.get(k, 0) + n
        rep.add_trace_result(name, evs, v2)

    with ThreadPoolExecutor(max_workers=2) as ex:
        fm = ex.submit(lambda: [_mutant(rep, wd, m) for m in mutants])
        fi = ex.submit(run_driver, "c20", ["imp", vec, semvec, wd / "imp.ndjson", seed(), nsem, nvcg, nrnd], timeout=7200)
        run_drivers_parallel(jobs, timeout=7200, max_workers=2)
        rep.notes["vectors"]["histories"] = sum(1 for _ in open(histvec))
        com_path = wd / "com.ndjson"
        com_path.write_text("".join((wd / ("com_%d.ndjson" % i)).read_text() for i in range(3)))
        judge("com", com_path, 3 if not fi.done() else 4)
        fi.result()
        fm.result()
    judge("imp", wd / "imp.ndjson", 1 if quick else 4)
    rep.notes["failing_events_per_clause"] = totals
    rep.notes["reported_per_clause_cap"] = MAX_REPORTED_PER_CLAUSE

    # ---- binding self-tests: one recorded field of real events is corrupted, T must reject
    evs, v = verdicts["com"]
    nt = set(v["nontrivial"])
    failing = {f["tid"] for f in v["fails"]}
    bad_sound, bad_pp = [], []
    for e in evs:
        if e["tid"] in nt and e["tid"] not in failing and e["mode"] == "fresh" and len(bad_sound) < 3:
            c = copy.deepcopy(e)
            c["post"] = FALSE_POST                    # recorded conditions kept, the postcondition they were computed for is not
            c["tid"] = 9000000 + len(bad_sound)
            bad_sound.append(c)
        if e["tid"] not in failing and e["outcome"] == "ok" and e["vcs"] and len(bad_pp) < 3:
            c = copy.deepcopy(e)
            c["vcs"][0]["r"] = ["not", c["vcs"][0]["t"]]   # what the parser returned for the printed condition
            c["tid"] = 9100000 + len(bad_pp)
            bad_pp.append(c)
    evs_i, v_i = verdicts["imp"]
    nt_i = set(v_i["nontrivial"])
    bad_sem, bad_vcg = [], []
    for e in evs_i:
        if e["kind"] == "sem" and e["tid"] in nt_i and len(bad_sem) < 3:
            c = copy.deepcopy(e)
            c["goal"][2] = ["upd", c["goal"][2], "x", ["n", 31]]      # the proved final state
            c["chk_goal"] = c["goal"]
            c["tid"] = 9200000 + len(bad_sem)
            bad_sem.append(c)
        if e["kind"] == "vcg" and e["tid"] in nt_i and len(bad_vcg) < 2:
            c = copy.deepcopy(e)
            c["post"] = FALSE_POST
            c["tid"] = 9300000 + len(bad_vcg)
            bad_vcg.append(c)
    if not bad_sound:
        # on a tree where every examined event already fails another clause, corrupt failing ones instead
        for e in evs:
            if e["tid"] in nt and e["mode"] == "fresh" and len(bad_sound) < 3:
                c = copy.deepcopy(e)
                c["post"] = FALSE_POST
                c["tid"] = 9000000 + len(bad_sound)
                bad_sound.append(c)
    # one TLC run for all corrupted events; every one must be rejected with the clause it was built for
    expect = {}
    for lst, clause in ((bad_sound, "VcSound"), (bad_pp, "PrintParse"), (bad_sem, "EvalSemFinal"), (bad_vcg, "VcgSound")):
        require(lst, "C20 self-test: no event available to corrupt for clause %s" % clause)
        for c in lst:
            expect[c["tid"]] = clause
    st_path = wd / "selftest.ndjson"
    write_events(st_path, bad_sound + bad_pp + bad_sem + bad_vcg)
    sv = validate_trace(TSPEC, st_path, wd=wd / "selftest_tv", nchunks=1)
    got = {f["tid"]: f["fail"] for f in sv["fails"]}
    missed = [(t, c) for t, c in expect.items() if c not in got.get(t, [])]
    if missed:
        raise MachineryError("self-test: %s accepted corrupted events %s" % (TSPEC, missed[:5]))
    for clause in ("VcSound", "PrintParse", "EvalSemFinal", "VcgSound"):
        rep.notes.setdefault("selftests", []).append({"spec": TSPEC, "all_rejected_with": clause,
                                                      "corrupted_events": sum(1 for c in expect.values() if c == clause)})

    # ---- vacuity guards
    acc = rep.notes["traces"]
    sem_nt = sum(1 for e in evs_i if e["kind"] == "sem" and e["tid"] in nt_i)
    vcg_nt = sum(1 for e in evs_i if e["kind"] == "vcg" and e["tid"] in nt_i)
    loops_nt = sum(1 for e in evs if e["tid"] in nt and '"while"' in json.dumps(e["prog"]))
    hist_nt = sum(1 for e in evs if e["tid"] in nt and e["mode"] == "hist")
    require(hist_nt >= (40 if quick else 300), "C20: too few soundness-examined annotation histories (vacuity guard): %d" % hist_nt)
    rep.notes["nontrivial_breakdown"] = {"com_histories": hist_nt, "com": acc["com"]["nontrivial"], "com_with_loops": loops_nt, "sem": sem_nt, "vcg": vcg_nt}
    require(acc["com"]["nontrivial"] >= (150 if quick else 1500), "C20: too few soundness-examined com events (vacuity guard)")
    require(loops_nt >= (20 if quick else 200), "C20: too few soundness-examined loop programs (vacuity guard)")
    require(sem_nt >= (60 if quick else 1200), "C20: too few eval_Sem theorems compared with a reference run (vacuity guard)")
    require(vcg_nt >= (3 if quick else 40), "C20: too few soundness-examined vcg events (vacuity guard)")
    nerr = sum(1 for e in evs if e["outcome"] != "ok")
    rep.notes["com_events_not_run"] = nerr
    require(nerr * 10 <= len(evs), "C20: more than 10%% of the com events raised (%d of %d)" % (nerr, len(evs)))


def replay(path):
    """Re-run the input of one recorded failing event against the current code and re-validate it."""
    obj = json.load(open(path))
    wd = work_dir("C20", "replay1", clean=True)
    if obj.get("kind") != "event":
        print(json.dumps(obj, indent=1)[:3000])
        return 1
    e = obj["event"]
    (wd / "in.json").write_text(json.dumps(e))
    run_driver("c20", ["one", wd / "in.json", wd / "ev.ndjson"])
    ev = read_events(wd / "ev.ndjson")[0]
    if ev.get("kind") == "com":
        for x in ev.get("vcs", []):
            print("  condition:", x["s"], "" if x["rok"] == "ok" else "   [" + x["rok"] + "]")
    v = validate_trace(TSPEC, wd / "ev.ndjson", wd=wd / "tv", nchunks=1)
    print("events:", v["consumed"], "fails:", v["fails"])
    if v["fails"]:
        print("VIOLATION property=C20 replay=%s" % path)
        return 1
    print("not reproduced on the current tree")
    return 0
