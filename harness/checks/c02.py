"""C02 - the proof checker accepts only well-founded, fully justified, gap-free proofs.   DESIGN.md section 6/C02

 S  spec/C02_Checker.tla       TLC explores the space of proof objects by nondeterministic construction (identifiers =
                               position+offset, citations existing/forward/self/negative/dangling/into-closed-block, stated
                               sequent absent/exact/weaker/stronger/other, placeholders, gap macro, empty lines, blocks);
                               invariants: the reference RefCheck (C02_Ref) is sound and counts gaps exactly; every complete
                               object is emitted as a vector
 I  spec/C02_CheckerImpl.tla   _check_proof_item / check_proof / checked_extend AS CODED (C02_ImplDefs: can_depend_on on
                               identifiers, find_item on positions with Python indexing, in-place th on item OBJECTS, args put in front of
                               the cited sequents, compute_only) on the
                               same state space; invariants Impl accepts => RefCheck accepts, gaps exact, extension proved.
                               The variant of the algorithm (constants Fx*) is derived from the code under test.
 ->  harness/drivers/c02.py    builds real Proof/ProofItem objects from the vectors, runs theory.check_proof (no_gaps
                               True/False with a ProofReport, compute_only) and Theory.checked_extend; seeded generator of
                               larger damaged derivations
 T  spec/C02_CheckerTrace.tla  per event: AcceptedJustified, FinalJustified, StepsJustified, NoGapsHonoured, GapsReported, ExtensionProved;
                               divergences: code refuses what RefCheck accepts / I model mispredicts the code
"""
import copy
import json
import re
from concurrent.futures import ThreadPoolExecutor

from harness.core import (SPEC, MachineryError, model_check, read_events, require, run_driver, seed, selftest_trace,
                          spec_mutant, validate_trace, work_dir, write_events)

PID = "C02"
TSPEC = "C02_CheckerTrace"
FX_CONST = [("idpos", "FxIdPos"), ("negidx", "FxNegIdx"), ("empty", "FxEmpty"), ("extng", "FxExtNg"), ("extcmp", "FxExtCmp"),
            ("argsig", "FxArgSig"), ("posocc", "FxPosOcc")]
I_INVS = ["ImplRefines", "ExtRefines", "ImplNoGaps", "ImplGapsExact", "ComputeOnlyPlain"]
SLICES = {"quick": ["f2", "k1", "s3", "al", "a1", "b1"], "thorough": ["f3b", "f3", "f2x", "k2", "al2", "k0", "a2", "s4"]}
NRANDOM = {"quick": 1500, "thorough": 40000}
REPS_PER_GROUP = 1


S_INVS = ["RefSound", "RefGapFree", "RefGapCount", "RefModes", "RefPositions", "RefDecides"]


def impl_cfg(slice_, fx, invs, path, emit=False):
    """Configuration of the I spec for a slice: the S configuration + the code-derived variant constants."""
    base = (SPEC / ("C02_Checker_%s.cfg" % slice_)).read_text()
    base = base.replace("SPECIFICATION Spec", "SPECIFICATION ISpec")
    if not emit:
        base = base.replace("Emit = TRUE", "Emit = FALSE")
    base = re.sub(r"INVARIANT \w+\n", "", base)
    consts = "".join(" %s = %s\n" % (c, "TRUE" if fx[k] else "FALSE") for k, c in FX_CONST)
    m = re.search(r" Emit = (TRUE|FALSE)\n", base)
    require(m is not None, "C02: unexpected cfg layout for slice " + slice_)
    base = base.replace(m.group(0), m.group(0) + consts)
    base = base.replace("CHECK_DEADLOCK", "".join("INVARIANT %s\n" % i for i in invs) + "CHECK_DEADLOCK")
    path.write_text(base)
    return path


def shape(e):
    """Presentation only: a coarse label used to pick a few representative failing events per kind."""
    sig = set()

    def walk(items, prefix):
        for i, it in enumerate(items):
            pos = prefix + [i]
            if it["id"] != pos:
                sig.add("id#pos")
            if any(x < 0 for p in it["prevs"] for x in p):
                sig.add("negcite")
            if it["rule"] == "" and it["th"]["c"] != ["none"]:
                sig.add("emptystated")
            if it["rule"] in ("sorry", "verif_gap1"):
                sig.add("gap")
            if it.get("alias"):
                sig.add("alias")
            if it.get("ak", "none") in ("thm", "type", "tuple") or (it.get("ak") == "inst" and it["rule"] != "substitution"):
                sig.add("argkind")
            walk(it["sub"], pos)
    walk(e.get("prf", []), [])
    for lab in ("argkind", "alias", "emptystated", "negcite", "id#pos", "gap"):
        if lab in sig:
            return lab
    return "plain"


def select_fails(rep, events, verdict):
    """Thousands of events may fail for one root cause: keep every failing event that matches a known finding and,
    per (clause, shape label), the REPS_PER_GROUP smallest others.  Counts of everything are kept in the notes."""
    by_tid = {e["tid"]: e for e in events}
    groups, counts = {}, {}
    for f in verdict["fails"]:
        e = by_tid[f["tid"]]
        for cl in f["fail"]:
            counts[cl] = counts.get(cl, 0) + 1
            groups.setdefault((cl, shape(e)), []).append((len(json.dumps(e["prf"])), e["tid"]))
    keep = {}
    for (cl, sh), lst in groups.items():
        lst.sort()
        n = 0
        for _, tid in lst:
            known = ("%s|%s" % (cl, by_tid[tid]["key"])) in rep.known
            if known or n < REPS_PER_GROUP:
                keep.setdefault(tid, set()).add(cl)
                n += 0 if known else 1
    v2 = dict(verdict)
    v2["fails"] = [{"tid": t, "fail": sorted(c)} for t, c in sorted(keep.items())]
    return v2, counts, {"%s [%s]" % k: len(v) for k, v in sorted(groups.items())}


def corrupted(all_events):
    """Binding self-test material: real events with ONE recorded field changed, and the clause that must reject each."""
    good = [e for e in all_events if e["g"]["oc"] == "accepted" and e["g"]["gaps"]]
    bad = []
    for e in good[:3]:                      # a placeholder was met but the no_gaps run is said to have accepted
        c = copy.deepcopy(e)
        c["ng"] = {"oc": "accepted", "final": c["g"]["final"], "gaps": []}
        bad.append((c, "NoGapsHonoured"))
    for e in good[:3]:                      # one reported gap dropped
        c = copy.deepcopy(e)
        c["g"]["gaps"] = c["g"]["gaps"][1:]
        bad.append((c, "GapsReported"))
    k = 0
    for e in all_events:                    # a refused one-step object that cites something is said to be accepted
        if e["g"]["oc"] == "rejected" and len(e["prf"]) == 1 and e["prf"][0]["rule"] == "implies_intr" and k < 3:
            c = copy.deepcopy(e)
            c["g"] = {"oc": "accepted", "final": {"h": [], "c": ["imp", ["at", "A"], ["at", "B"]]}, "gaps": []}
            bad.append((c, "AcceptedJustified"))
            k += 1
    for e in all_events:                    # a refused extension is said to have been installed
        if e["exts"] and not e["exts"][0]["installed"] and e["g"]["oc"] != "accepted" and e["prf"]:
            c = copy.deepcopy(e)
            c["exts"][0]["installed"] = True
            bad.append((c, "ExtensionProved"))
            break
    require(len({cl for _, cl in bad}) >= 2, "C02: could not build the binding self-tests")
    for i, (c, _) in enumerate(bad):
        c["tid"] = 10 ** 7 + i
    return bad


def run(rep, tier):
    quick = tier == "quick"
    wd = work_dir(PID, "run", clean=True)
    slices = SLICES["quick" if quick else "thorough"]
    rep.rule = ("TLC builds every proof object of the slices %s of spec/C02_Checker.tla (flat <= 2-3 items; one block of <= 1-2 "
                "items; sibling and nested blocks (depth 2, <= 3-4 rule items) with citations into closed blocks; anomaly budget per object: identifier != position, citation that is not an earlier visible position, "
                "stated sequent weaker/stronger/other, missing theorem, stated empty line, argument object of a kind the rule's signature "
                "does not take, number of citations off by one; one item object placed at a second position) and checks RefCheck's soundness and gap "
                "counting on each; the algorithm as coded (variant derived from the code) is checked against RefCheck on the same "
                "space; every object plus %d seeded larger damaged derivations (<= 12 items, nesting <= 3) is run through "
                "theory.check_proof (no_gaps True/False, compute_only) and Theory.checked_extend (2-3 stated theorems each). "
                "Non-trivial = the code accepted the object in some mode or installed a theorem, and RefCheck decided it; distinct by "
                "(object, offered statements, outcomes)." % (slices, NRANDOM[tier]))
    rep.assumptions = ["TLC/SANY, CommunityModules Json/CSV, CPython; the structural projection in harness/drivers/c02.py",
                       "sequent language: implicational formulas over boolean variables A, B and schematic ?A; rules assume, "
                       "implies_intr, implies_elim, substitution with the empty instantiation, theorem, sorry, subproof, empty line, "
                       "a trusted level-0 macro and a level-1 macro whose expansion is a placeholder (check_level 0)",
                       "objects with more than 48 visible verified sequents at one step are not examined",
                       "primitive rules whose results leave this language (combination, beta_conv, abstraction, forall_intr, forall_elim) "
                       "are only examined with arguments / numbers of citations that do NOT fit them",
                       "the rule `variable`, check_level > 0 and shared BLOCK objects are not examined",
                       "all checks run through Theory objects that are not the global kernel.theory.thy (one built on the side, one "
                       "copy() snapshot); the global theory differs on the cited names T1 and TX"]

    # ---- which algorithm does the code implement?  (innocuous probes; constants of the I spec and field fx of the events)
    fxp = wd / "features.json"
    run_driver("c02", ["features", fxp])
    fx = json.load(open(fxp))
    rep.notes["algorithm_variant"] = fx

    # ---- S (emits vectors) and I on every slice; S and I of a slice run side by side
    def s_run(sl):
        vec = wd / ("vectors_%s.ndjson" % sl)
        return model_check("C02_Checker", "C02_Checker_%s.cfg" % sl, wd=wd / ("mc_s_" + sl), workers=1,
                           env={"VECTOR_FILE": vec}, timeout=7200), vec

    def i_run(sl, skip=()):
        """All invariants in one exploration; when one is violated TLC stops there, so the remaining ones are re-run."""
        invs, out = [i for i in I_INVS if i not in skip], []
        while invs:
            cfg = impl_cfg(sl, fx, invs, wd / ("C02_CheckerImpl_%s_%d.cfg" % (sl, len(out))))
            r = model_check("C02_CheckerImpl", cfg, wd=wd / ("mc_i_%s_%d" % (sl, len(out))), workers=1, timeout=7200)
            out.append((list(invs), r))
            bad = [i for i in r.violated if i in invs]
            if not bad:
                break
            invs = [i for i in invs if i not in bad]
        return out

    def mutants():
        # oracle non-vacuity: specification mutants on the tiny slice
        spec_mutant(rep, "can_prove_flipped", "C02_Checker", "C02_Checker_tiny.cfg",
                    [("C02_Ref.tla", "CanProve(r, s) == r.c = s.c /\\ r.h \\subseteq s.h", "CanProve(r, s) == r.c = s.c /\\ s.h \\subseteq r.h")],
                    ["RefSound"], wd=wd, workers=1)
        if not quick:
            spec_mutant(rep, "sorry_verified_under_no_gaps", "C02_Checker", "C02_Checker_tiny.cfg",
                        [("C02_Ref.tla", "IF nogaps \\/ IsNone(it.th) THEN Res(FALSE, FALSE, V, <<>>)", "IF IsNone(it.th) THEN Res(FALSE, FALSE, V, <<>>)")],
                        ["RefSound", "RefGapFree", "RefModes"], wd=wd, workers=1)
            spec_mutant(rep, "block_gaps_dropped", "C02_Checker", "C02_Checker_tiny.cfg",
                        [("C02_Ref.tla", "ELSE {<<pos, it.th>>}), r.gaps)", "ELSE {<<pos, it.th>>}), <<>>)")],
                        ["RefGapCount"], wd=wd, workers=1)

    def si_run(sl):
        """One exploration per slice: C02_CheckerImpl extends C02_Checker, so the S invariants, the I invariants and the
        emission of vectors share the state space.  TLC stops at the first violated invariant; in that case the
        vectors are incomplete and S (emission) and I (each invariant) are run on their own."""
        vec = wd / ("vectors_%s.ndjson" % sl)
        cfg = impl_cfg(sl, fx, S_INVS + I_INVS, wd / ("C02_CheckerImpl_%s_all.cfg" % sl), emit=True)
        r = model_check("C02_CheckerImpl", cfg, wd=wd / ("mc_si_" + sl), workers=1, env={"VECTOR_FILE": vec}, timeout=7200)
        if not r.violated:
            return [("SI", r, S_INVS + I_INVS)], vec
        if vec.exists():
            vec.unlink()
        rs, vec = s_run(sl)
        out = [("S", rs, S_INVS)]
        ibad = [i for i in r.violated if i in I_INVS]
        if ibad:
            out.append(("I", r, I_INVS))
        if not rs.violated:
            out += [("I", ri, invs) for invs, ri in i_run(sl, skip=ibad)]
        return out, vec

    jobs = []
    with ThreadPoolExecutor(max_workers=4) as ex:
        for sl in slices:
            jobs.append((sl, ex.submit(si_run, sl)))
        mut = ex.submit(mutants)
        results = [(sl, f.result()) for sl, f in jobs]
        mut.result()
    vectors = []
    s_bad = False
    for sl, (runs, vec) in results:
        for kind, r, invs in runs:
            name = {"SI": "C02_Checker+C02_CheckerImpl/", "S": "C02_Checker/", "I": "C02_CheckerImpl/"}[kind] + sl
            rep.add_mc(name, r, "C02_Checker_%s.cfg, variant %s, invariants %s" % (sl, fx, invs))
            if r.violated:
                rep.design_violation("%s_%s_%s" % ("C02_Checker" if kind == "S" else "C02_CheckerImpl", sl, "_".join(r.violated)), r)
                s_bad = s_bad or kind == "S"
        require(vec.exists(), "C02_Checker did not emit vectors for slice " + sl)
        vectors.append((sl, vec))
    if s_bad:
        return
    rep.exhaustive = True

    # ---- spec -> code: TLC vectors and seeded larger objects through the real checker
    rvec = wd / "vectors_random.ndjson"
    run_driver("c02", ["random", NRANDOM[tier], rvec, seed()])
    vectors.append(("random", rvec))
    allp = wd / "events_all.ndjson"
    tid0 = 0
    with open(allp, "w") as out:
        for sl, vec in vectors:
            ev = wd / ("events_%s.ndjson" % sl)
            run_driver("c02", ["replay", vec, ev, tid0, "rnd" if sl == "random" else sl, fxp])
            txt = ev.read_text()
            n = txt.count("\n")
            rep.notes.setdefault("vectors", {})[sl] = n
            tid0 += n
            out.write(txt)

    # ---- code -> spec: every event judged by TLC
    all_events = read_events(allp)
    bad = corrupted(all_events)
    # the corrupted events of the binding self-test ride along in the same TLC runs (tids >= 10^7) and are split off again
    with open(allp, "a") as out:
        for c, _ in bad:
            out.write(json.dumps(c, separators=(",", ":")) + "\n")
    vall = validate_trace(TSPEC, allp, wd=wd / "tv", nchunks=2 if quick else 4)
    st = lambda t: t >= 10 ** 7
    sv = {"fails": [f for f in vall["fails"] if st(f["tid"])]}
    v = dict(vall)
    v["fails"] = [f for f in vall["fails"] if not st(f["tid"])]
    v["nontrivial"] = [t for t in vall["nontrivial"] if not st(t)]
    v["divergences"] = [t for t in vall["divergences"] if not st(t)]
    v["info"] = [i for i in vall["info"] if not st(i["tid"])]
    v["consumed"] = vall["consumed"] - len(bad)
    require(v["consumed"] == len(all_events), "C02: %d events written, %d judged" % (len(all_events), v["consumed"]))
    # binding self-test: T must reject every corrupted event with the expected clause
    got = {f["tid"]: f["fail"] for f in sv["fails"]}
    for c, cl in bad:
        require(cl in got.get(c["tid"], []), "self-test: %s accepted a corrupted event (expected clause %s, got %s)" % (
            TSPEC, cl, got.get(c["tid"])))
    rep.notes["selftests"] = [{"spec": TSPEC, "corrupted_events": len(bad), "all_rejected_with": sorted({cl for _, cl in bad})}]
    v2, counts, groups = select_fails(rep, all_events, v)
    rep.add_trace_result("objects", all_events, v2)
    tr = rep.notes["traces"]["objects"]
    tr["failing_events_total"] = len(v["fails"])
    tr["failing_by_clause"] = counts
    tr["failing_by_clause_and_shape"] = groups
    mism = len(v["info"])
    rep.notes["impl_model_mismatches"] = mism
    src_of = {e["tid"]: e["src"] for e in all_events}
    per_src = {}
    for e in all_events:
        per_src.setdefault(e["src"], {"events": 0, "nontrivial": 0, "failing": 0})["events"] += 1
    for t in v["nontrivial"]:
        per_src[src_of[t]]["nontrivial"] += 1
    for f in v["fails"]:
        per_src[src_of[f["tid"]]]["failing"] += 1
    rep.notes["per_source"] = per_src

    # ---- vacuity guards
    nt = tr["nontrivial"]
    acc_ng = sum(1 for e in all_events if e["ng"]["oc"] == "accepted" and len(e["prf"]) >= 2)
    acc_gap = sum(1 for e in all_events if e["g"]["oc"] == "accepted" and e["g"]["gaps"])
    blocks = sum(1 for e in all_events if e["g"]["oc"] == "accepted" and any(it["rule"] == "subproof" for it in e["prf"]))
    macro_gap = sum(1 for e in all_events if e["g"]["oc"] == "accepted" and any(it["rule"] == "verif_gap1" for it in e["prf"]))
    inst = sum(1 for e in all_events for x in e["exts"] if x["installed"] and not x["axiom"])
    axi = sum(1 for e in all_events for x in e["exts"] if x["axiom"])
    rep.notes["exercise"] = {"nontrivial_events": nt, "accepted_gap_free_2plus_items": acc_ng, "accepted_with_gaps": acc_gap,
                             "accepted_with_blocks": blocks, "accepted_with_gap_macro": macro_gap,
                             "extensions_installed_as_proved": inst, "extensions_reported_as_axiom": axi}
    guards = [(nt >= (1200 if quick else 20000), "too few non-trivially examined events (%d)" % nt),
              (acc_ng >= 300 and acc_gap >= 200 and blocks >= 50 and macro_gap >= 20 and axi >= 1, "exercise too thin: %s" % rep.notes["exercise"]),
              (inst >= 100, "no extension was ever installed as proved"),
              (per_src.get("rnd", {}).get("nontrivial", 0) >= 0.3 * per_src.get("rnd", {}).get("events", 1), "random objects are mostly not examined")]
    failed = [m for ok, m in guards if not ok]
    if failed:
        rep.notes["vacuity_guards_failed"] = failed
        # a run that reports violations is not a vacuous pass: the violations take precedence
        require(bool(rep.violations), "C02: vacuity guard: " + "; ".join(failed))
    # the I model should describe the code (informational: a mismatch means spec/C02_ImplDefs.tla is stale)
    if mism:
        print("NOTE property=C02: the I model (variant %s) mispredicts the code on %d objects" % (fx, mism))


def replay(path):
    """Re-run one recorded failing event against the current code and re-validate it."""
    obj = json.load(open(path))
    wd = work_dir(PID, "replay1", clean=True)
    if obj.get("kind") != "event":
        # design-level finding: show the counterexample TLC printed
        print("specification %s violates %s; TLC counterexample:" % (obj.get("spec"), obj.get("violated")))
        tail = obj.get("tlc_tail", "")
        i = tail.find("Error: Invariant")
        print(tail[i if i >= 0 else 0:][:3000])
        # re-derive the variant from the current code and re-run the smallest slice
        fxp = wd / "features.json"
        run_driver("c02", ["features", fxp])
        fx = json.load(open(fxp))
        invs = [i for i in obj.get("violated", []) if i in I_INVS] or I_INVS
        r = model_check("C02_CheckerImpl", impl_cfg("f2", fx, invs, wd / "I.cfg"), wd=wd / "mc", workers=1)
        print("current code: variant", fx, "-> violated:", r.violated)
        if r.violated:
            print("VIOLATION property=%s replay=%s" % (PID, path))
            return 1
        print("not reproduced on the current tree")
        return 0
    e = obj["event"]
    fxp = wd / "features.json"
    run_driver("c02", ["features", fxp])
    vec = wd / "vec.ndjson"
    vec.write_text(json.dumps({"prf": e["prf"], "exts": [x["stated"] for x in e["exts"]]}) + "\n")
    run_driver("c02", ["replay", vec, wd / "ev.ndjson", 0, e.get("src", "replay"), fxp])
    ne = read_events(wd / "ev.ndjson")[0]
    print("object:", json.dumps(e["prf"]))
    print("no_gaps=True :", ne["ng"]["oc"], ne["ng"]["final"])
    print("no_gaps=False:", ne["g"]["oc"], ne["g"]["final"], "gaps", ne["g"]["gaps"])
    print("extensions   :", ne["exts"])
    v = validate_trace(TSPEC, wd / "ev.ndjson", wd=wd / "tv", nchunks=1)
    print("fails:", v["fails"])
    if v["fails"]:
        print("VIOLATION property=%s replay=%s" % (PID, path))
        return 1
    print("not reproduced on the current tree")
    return 0
