"""X06 - the parameterised-protocol verifier (guarded commands) agrees with executing the protocol.   extras/X06.md

 S  spec/X06_Para.tla (+ X06_Sem.tla)  small guarded-command systems (pools of guards / assignments / invariants over an array, a second
                            array, a boolean and an enumeration-valued scalar) and the mutual-exclusion protocol of paraverifier/examples
                            (every subset of >= 2 rules, two broken variants) as a machine.  TLC: WpExact -- for every (system, invariant,
                            rule, case, hint) the reference subgoal means, at every state and every valuation of the case, exactly
                            "hypothesis => invariant after the rule instance"; Consistent -- a system all of whose (invariant, rule, case)
                            have a hint with a valid reference subgoal keeps its invariants from every state satisfying them; Classified --
                            the example protocol is certified, the broken variants are not.  The universe (with all its tuples) is EMITTED,
                            simulated behaviours (rule firings of the protocol) are EMITTED.
 ->  harness/drivers/x06.py replay: every emitted system is written as a JSON description, loaded by load_system, a seeded sample of its
                            tuples goes through get_subgoal / verify_subgoal (Z3), its rules and invariants through gcl.convert_term /
                            gcl.mk_assign / add_invariant / add_semantics; every step of every behaviour is replayed against the encoded
                            transition; examples: mutual_ex.json / german.json with their hint files + further tuples;
                            random: seeded sessions over two wider random systems per process (late queries to the first object)
 T   spec/X06_Trace.tla     LoadFaithful, PrintReparse, SubgoalMeaning, SubgoalSound, StatesReplaced, AnswerValid, GuardEncoding,
                            AssignEncoding, InvTermEncoding, TransEncoding, InvEncoding, StepAgrees (+ ExecBinding, machinery)
 Findings are grouped by (clause, event class); the replay file holds the concrete event (`./check X06 --replay f`).
"""
import copy
import json
import os
import shutil
from concurrent.futures import ThreadPoolExecutor

from harness.core import (MachineryError, model_check, read_events, require, run_driver, seed, spec_mutant, tlc,
                          validate_trace, work_dir, write_events)

TSPEC = "X06_Trace"
SSPEC = "X06_Para"
CLAUSES = ["LoadFaithful", "PrintReparse", "SubgoalMeaning", "SubgoalSound", "StatesReplaced", "AnswerValid", "GuardEncoding",
           "AssignEncoding", "InvTermEncoding", "TransEncoding", "InvEncoding", "StepAgrees", "ExecBinding"]
MAX_REPLAYS_PER_KEY = 2
SELF_OFFSET = 10 ** 7

MUTANTS = [
    # (name, file, old, new, expected invariants, cfg)
    ("scalar_assignment_not_substituted", "X06_Sem.tla",
     "THEN r.asg[CHOOSE i \\in AsgOf(r, t[2], \"s\", sig) : TRUE][2] ELSE t)",
     "THEN t ELSE t)", ["WpExact"], "X06_Para_tiny.cfg"),
    ("only_the_other_process_case", "X06_Para.tla",
     "\\A c \\in 0..Len(sy.invs[iv].vars) :\n                    \\E x \\in HintsFor(sy, iv, r, c)",
     "\\A c \\in {Len(sy.invs[iv].vars)} :\n                    \\E x \\in HintsFor(sy, iv, r, c)", ["Consistent", "Classified"], "X06_Para_tiny.cfg"),
    ("equal_parameter_cell_not_substituted", "X06_Sem.tla",
     "(IF c < Len(ivars) /\\ ivars[c + 1] = t[3][2] /\\ AsgOf(r, t[2][2], \"p\", sig) # {}",
     "(IF FALSE /\\ ivars[c + 1] = t[3][2] /\\ AsgOf(r, t[2][2], \"p\", sig) # {}", ["WpExact"], "X06_Para_tiny.cfg"),
    ("inv_hint_forgets_the_guard", "X06_Sem.tla",
     "ELSE Imp(Rename(hv.prop, hv.vars, hint.inst), Imp(r.guard, after))",
     "ELSE Imp(Rename(hv.prop, hv.vars, hint.inst), after)", ["WpExact"], "X06_Para_tiny.cfg"),
    ("whole_array_assignment_ignored", "X06_Sem.tla",
     "THEN <<\"comb\", r.asg[CHOOSE i \\in AsgOf(r, t[2][2], \"w\", sig) : TRUE][2], t[3]>>",
     "THEN t", ["WpExact"], "X06_Para_two.cfg"),
]


def _has_whole(rules):
    return any(a[0][0] in ("var", "svar") and a[0][2][0] == "tc" and a[0][2][1] == "fun" for r in rules for a in r.get("asg", []))


def keyf(e):
    """findings are grouped by event class; the concrete input is in the replay file"""
    k = e.get("kind")
    if k == "goal":
        h = e.get("hint", {})
        if h.get("k") == "INV":
            return "goal INV hint, " + ("parameters kept" if list(h.get("inst", [])) == list(e.get("hv", {}).get("vars", [])) else "parameters renamed")
        return "goal %s hint" % h.get("k")
    if k == "enc":
        return "enc" + (", whole-array assignment" if _has_whole(e.get("rules", [])) else "")
    if k == "fire":
        return "fire" + (", whole-array assignment" if _has_whole([e.get("r", {})]) else "")
    return str(k)


def first_per_key(v, by_tid, n=MAX_REPLAYS_PER_KEY):
    seen, fails, total = {}, [], {}
    for f in sorted(v["fails"], key=lambda f: f["tid"]):
        e = by_tid.get(f["tid"], {})
        keep = []
        for c in f["fail"]:
            k = "%s|%s" % (c, keyf(e))
            total[k] = total.get(k, 0) + 1
            if seen.get(k, 0) < n:
                seen[k] = seen.get(k, 0) + 1
                keep.append(c)
        if keep:
            fails.append({"tid": f["tid"], "fail": keep})
    w = dict(v)
    w["fails"] = fails
    return w, total


def printed_behaviours(out):
    res = []
    for ln in out.splitlines():
        if ln.startswith('<<"X06B", '):
            res.append(json.loads(json.loads(ln.strip()[len('<<"X06B", '):-2])))
    return res


def set_budget(path, budget):
    """scope budget of every event ((state, valuation) pairs per evaluated clause); an `enc` event of a large system evaluates one
    clause per rule and per invariant: each gets a share"""
    evs = read_events(path)
    for e in evs:
        parts = len(e.get("rules", [])) + len(e.get("invs", [])) if e.get("kind") == "enc" else 0
        e["budget"] = budget if parts <= 12 else max(budget * 12 // parts, 500)
    write_events(path, evs)
    return evs


def _sweep(parent):
    """remove the per-process scratch directories of runs whose process is gone"""
    for d in parent.glob("r*_[0-9]*"):
        try:
            pid = int(d.name.rsplit("_", 1)[1])
            os.kill(pid, 0)
        except (ValueError, PermissionError):
            continue
        except ProcessLookupError:
            shutil.rmtree(d, ignore_errors=True)


def run(rep, tier):
    quick = tier == "quick"
    wd = work_dir("X06", "run_%d" % os.getpid(), clean=True)
    _sweep(wd.parent)
    scratch = wd / "scratch"
    scratch.mkdir(parents=True, exist_ok=True)
    budget = 8000 if quick else 60000
    rep.rule = ("TLC checks WpExact / Consistent / Classified on the universe of X06_Para (all tuples (invariant, rule, case, hint) of every "
                "system, every state of the scope) and emits the universe and simulated behaviours; every emitted system is loaded by the real "
                "load_system, a seeded sample of its tuples is put to get_subgoal / verify_subgoal, its rules and invariants to the GCL encoding, "
                "every behaviour step to the encoded transition; plus the two example files with their hint files and seeded random sessions. "
                "Non-trivial = the clause was decided by evaluating the code's terms on every state and parameter valuation of the event's "
                "scope; distinct by (kind, system, tuple, recorded output).")
    rep.assumptions = ["scope: N = 2 or 3 processes; a cell ranges over the constants the event's terms mention plus one further value (plus "
                       "the process indices when a parameter is stored); only the variables the event's terms mention vary; events whose "
                       "scope exceeds %d (state, valuation) pairs are not examined" % budget,
                       "an invariant with parameters speaks about pairwise DIFFERENT processes (the verifier's case split presupposes it)",
                       "quantifiers range over the process indices of the scope; arithmetic, orders, rules with several parameters and "
                       "invariants under quantifiers are outside the fragment (not examined)",
                       "verify_subgoal is judged with Z3 installed (without Z3 the code answers True by design)",
                       "TLC/SANY, the structural codec harness/codec.py, CPython"]
    mc_wd = wd / "mc"
    vecA, vecB = wd / "vec_gen.ndjson", wd / "vec_two.ndjson"
    pool = ThreadPoolExecutor(max_workers=4)
    # ---- specification: vectors first, the exhaustive runs in the background
    f_emit = pool.submit(model_check, SSPEC, "X06_Para_emit.cfg" if quick else "X06_Para_deep_emit.cfg", wd=mc_wd / "emit", workers=1,
                         env={"VECTOR_FILE": vecA})
    f_two = pool.submit(model_check, SSPEC, "X06_Para_two.cfg" if quick else "X06_Para_two_deep.cfg", wd=mc_wd / "two", workers=1,
                        env={"VECTOR_FILE": vecB}, timeout=3000)
    nsim = 40 if quick else 400
    f_sim = pool.submit(tlc, SSPEC, "X06_Para_sim.cfg", wd=mc_wd / "sim", simulate="num=%d" % nsim, depth=10, seed_=seed() + 1, timeout=1200)
    f_sim3 = None if quick else pool.submit(tlc, SSPEC, "X06_Para_sim3.cfg", wd=mc_wd / "sim3", simulate="num=%d" % (nsim // 2), depth=12,
                                            seed_=seed() + 2, timeout=2400)
    # examples and random sessions need no vectors
    tid_ex, tid_rnd, tid_rep = 1000000, 2000000, 3000000
    f_ex = pool.submit(run_driver, "x06", ["examples", wd / "ex.ndjson", seed(), 24 if quick else 150, tid_ex, 0.3 if quick else 1.0], timeout=3000)
    r_emit = f_emit.result()
    rep.add_mc(SSPEC + " (emit)", r_emit, "emission of the universe")
    f_main = pool.submit(model_check, SSPEC, "X06_Para_small.cfg" if quick else "X06_Para_deep.cfg", wd=mc_wd / "main", workers=1, timeout=6000)
    f_n3 = None if quick else pool.submit(model_check, SSPEC, "X06_Para_n3.cfg", wd=mc_wd / "n3", workers=1, timeout=6000)
    r_two = f_two.result()
    rs = f_sim.result()
    require(rs.rc == 0 or rs.violated, "X06: simulation failed: %s" % rs.error)
    behs = printed_behaviours(rs.out)
    if f_sim3 is not None:
        r3 = f_sim3.result()
        require(r3.rc == 0 or r3.violated, "X06: simulation (3 processes) failed: %s" % r3.error)
        behs += printed_behaviours(r3.out)
    require(vecA.exists() and vecB.exists(), "X06_Para did not emit vectors")
    vec = wd / "vectors.ndjson"
    vec.write_text(vecA.read_text() + vecB.read_text())
    beh = wd / "behaviours.ndjson"
    write_events(beh, behs)
    nsys = sum(1 for _ in open(vec))
    nsteps = sum(len(b["steps"]) for b in behs)
    rep.notes["vectors"] = {"systems": nsys, "behaviours": len(behs), "behaviour_steps": nsteps}
    require(nsys >= (40 if quick else 200) and len(behs) >= nsim // 2 and nsteps >= nsim, "X06: too few vectors (%d systems, %d behaviours)" % (nsys, len(behs)))
    max_goals = 220 if quick else 5000
    f_rep = pool.submit(run_driver, "x06", ["replay", vec, beh, wd / "rep.ndjson", seed(), max_goals, tid_rep, scratch], timeout=6000)
    f_rnd = pool.submit(run_driver, "x06", ["random", wd / "rnd.ndjson", seed(), 8 if quick else 80, tid_rnd, scratch], timeout=6000)
    f_ex.result()
    f_rep.result()
    f_rnd.result()

    # ---- code -> specification: every event judged by TLC; the specification mutants run meanwhile
    mutants = MUTANTS[1:2] if quick else MUTANTS

    def run_mutants():
        for (name, fn, old, new, expect, cfg) in mutants:
            spec_mutant(rep, name, SSPEC, cfg, [(fn, old, new)], expect, wd=wd, workers=1, env={"VECTOR_FILE": wd / ("mut_%s.ndjson" % name)})
    f_mut = pool.submit(run_mutants)
    verdicts, totals = {}, {}

    def judge(name, path, nchunks):
        evs = set_budget(path, budget)
        v = validate_trace(TSPEC, path, wd=wd / ("tv_" + name), nchunks=nchunks, timeout=6000)
        verdicts[name] = (evs, v)
        v2, tot = first_per_key(v, {e["tid"]: e for e in evs})
        for k, n in tot.items():
            totals[k] = totals.get(k, 0) + n
        rep.add_trace_result(name, evs, v2, keyf=keyf)

    fj = [pool.submit(judge, "examples", wd / "ex.ndjson", 1), pool.submit(judge, "random", wd / "rnd.ndjson", 1 if quick else 2)]
    judge("replay", wd / "rep.ndjson", 2)
    for f in fj:
        f.result()
    rep.notes["failing_events_per_key"] = totals

    # ---- the exhaustive runs
    runs = [("main", f_main.result(), "X06_Para_small.cfg" if quick else "X06_Para_deep.cfg"), ("two arrays", r_two, "two-array family")]
    if f_n3 is not None:
        runs.append(("3 processes", f_n3.result(), "X06_Para_n3.cfg"))
    for name, r, c in runs:
        rep.add_mc("%s (%s)" % (SSPEC, name), r, c)
        if r.violated:
            rep.design_violation(SSPEC + "_" + name.replace(" ", "_"), r)
    rep.exhaustive = True
    r_main = runs[0][1]
    require(r_main.distinct >= (500 if quick else 5000) and r_main.depth >= 4,
            "X06_Para explored too little (%d states, depth %d)" % (r_main.distinct, r_main.depth))
    f_mut.result()

    # ---- binding self-tests: one recorded field of real events is corrupted, T must reject
    neg = ["const", "neg", ["tc", "fun", [["tc", "bool", []], ["tc", "bool", []]]]]
    allv = [(e, v) for (evs, v) in verdicts.values() for e in evs]
    nt = {t for (_, v) in verdicts.values() for t in v["nontrivial"]}
    dvs = {t for (_, v) in verdicts.values() for t in v["divergences"]}
    failing = {f["tid"] for (_, v) in verdicts.values() for f in v["fails"]}
    corrupted, expect = [], {}

    def corrupt(e, clause, change):
        c = copy.deepcopy(e)
        change(c)
        c["tid"] = SELF_OFFSET + len(corrupted)
        corrupted.append(c)
        expect[c["tid"]] = clause
    want = {"SubgoalMeaning": 3, "AnswerValid": 2, "StepAgrees": 3, "GuardEncoding": 2, "LoadFaithful": 2}
    have = {k: 0 for k in want}
    for e, _ in allv:
        t = e["tid"]
        if t not in nt or t in failing:
            continue
        if e["kind"] == "goal" and have["SubgoalMeaning"] < want["SubgoalMeaning"] and e["N"] >= 2 and len(e["iv"]["vars"]) < e["N"]:
            corrupt(e, "SubgoalMeaning", lambda c: c.update(goal=["comb", neg, c["goal"]]))
            have["SubgoalMeaning"] += 1
        elif e["kind"] == "goal" and have["AnswerValid"] < want["AnswerValid"] and not e["ans"] and t not in dvs:
            corrupt(e, "AnswerValid", lambda c: c.update(ans=True))
            have["AnswerValid"] += 1
        elif e["kind"] == "fire" and have["StepAgrees"] < want["StepAgrees"] and e.get("hasexp"):
            def ch(c):
                nm = sorted(k for k, x in c["exp"].items() if not isinstance(x, list))[0]
                c["exp"][nm] = c["exp"][nm] + 1
            corrupt(e, "StepAgrees", ch)
            have["StepAgrees"] += 1
        elif e["kind"] == "enc" and have["GuardEncoding"] < want["GuardEncoding"] and e["conv"]["g"] and e["conv"]["g"][0] != ["none"]:
            corrupt(e, "GuardEncoding", lambda c: c["conv"]["g"].__setitem__(0, ["comb", neg, c["conv"]["g"][0]]))
            have["GuardEncoding"] += 1
        elif e["kind"] == "load" and have["LoadFaithful"] < want["LoadFaithful"] and e.get("hassrc") and e["rules"]:
            corrupt(e, "LoadFaithful", lambda c: c["src"]["rules"][0].update(guard=["comb", neg, c["src"]["rules"][0]["guard"]]))
            have["LoadFaithful"] += 1
    for k, n in have.items():
        require(n > 0, "X06 self-test: no event available to corrupt for clause %s" % k)
    st_path = wd / "selftest.ndjson"
    write_events(st_path, corrupted)
    sv = validate_trace(TSPEC, st_path, wd=wd / "selftest_tv", nchunks=1)
    got = {f["tid"]: f["fail"] for f in sv["fails"]}
    missed = [(t, c) for t, c in expect.items() if c not in got.get(t, [])]
    if missed:
        raise MachineryError("self-test: %s accepted corrupted events %s" % (TSPEC, missed[:5]))
    for clause in want:
        rep.notes.setdefault("selftests", []).append({"spec": TSPEC, "all_rejected_with": clause, "corrupted_events": have[clause]})

    # ---- vacuity guards
    kinds = {}
    for e, _ in allv:
        d = kinds.setdefault(e["kind"], {"events": 0, "examined": 0})
        d["events"] += 1
        d["examined"] += 1 if e["tid"] in nt else 0
    rep.notes["events_by_kind"] = kinds
    rep.notes["not_run"] = sum(1 for e, _ in allv if str(e.get("outcome", "ok")).startswith("exc"))
    if not rep.violations:
        lim = {"goal": 400 if quick else 4000, "enc": 60 if quick else 400, "fire": 80 if quick else 1000, "load": 60 if quick else 400}
        for k, n in lim.items():
            require(kinds.get(k, {}).get("examined", 0) >= n, "X06: too few examined %s events (%s, vacuity guard)" % (k, kinds.get(k)))
        german = [e for e, _ in allv if "file:german" in e.get("key", "") and e["tid"] in nt]
        require(len(german) >= (3 if quick else 20), "X06: too few examined events on german.json (vacuity guard)")


def replay(path):
    """Re-run the input of one recorded failing event against the current code and re-validate it."""
    obj = json.load(open(path))
    wd = work_dir("X06", "replay_%d" % os.getpid(), clean=True)
    if obj.get("kind") != "event":
        print(json.dumps(obj, indent=1)[:3000])
        return 1
    e = obj["event"]
    (wd / "in.json").write_text(json.dumps(e))
    scratch = wd / "scratch"
    scratch.mkdir(parents=True, exist_ok=True)
    run_driver("x06", ["one", wd / "in.json", wd / "ev.ndjson", scratch])
    evs = set_budget(wd / "ev.ndjson", max(int(e.get("budget", 20000)), 20000))
    v = validate_trace(TSPEC, wd / "ev.ndjson", wd=wd / "tv", nchunks=1)
    by = {x["tid"]: x for x in evs}
    hit = [f for f in v["fails"] if obj.get("clause") in f["fail"] and by[f["tid"]]["kind"] == e["kind"]]
    print("events:", v["consumed"], "fails:", [(by[f["tid"]]["key"], f["fail"]) for f in v["fails"]])
    if hit:
        print("VIOLATION property=X06 replay=%s" % path)
        return 1
    print("not reproduced on the current tree")
    return 0
